"""C04 — checked view operations never leave the buffer or hit undefined behaviour."""
import os
import re

from harness import fw, gen_view, view_x, cpp_build
from harness.irx import OutOfModel
from harness.props.c01 import compile_ir

META = {
    "technique": "Coq theorems on the storage model (GetOffsetStorage never leaves its parent; an Ok scalar/bit view only touches bytes/bits of its container) + ASan/UBSan execution of the real generated code on the same generated modules with exact-size heap buffers (support, names concrete failing inputs)",
    "level_text": "Model-level proof that every byte/bit a checked read or write touches lies inside the root allocation (all offsets, sizes, nesting depths), with the Null-byte-order case refuted by a witness (a genuine defect). The compiled C++'s memory behaviour is runtime behaviour the model cannot exhibit: it is observed by running the whole checked API (Ok, IsComplete, has_x, Read after Ok, CouldWriteValue, TryToWrite, TryToCopyFrom, Equals, text output with partial output, UpdateFromText) under clang ASan+UBSan with EMBOSS_CHECKs enabled on generated modules and buffers of every length. Partial by nature.",
    "level_note": "Trusted: Coq kernel; harness/view_x.py; clang 14 sanitizers as the oracle for the implementation side. Not modelled: the C++ compiler, memmove/memcpy, strict aliasing, pointer formation beyond one-past-end. Integer overflow freedom of run-time arithmetic rests on C05's gate theorem.",
}


def classify(log, last_mark):
    if "AddressSanitizer" in log:
        m = re.search(r"AddressSanitizer: ([\w-]+)", log)
        kind = "asan:" + (m.group(1) if m else "?")
    elif "runtime error:" in log:
        m = re.search(r"runtime error: ([^\n]*)", log)
        msg = m.group(1) if m else "?"
        kind = "ubsan:" + " ".join(w for w in msg.split() if not re.search(r"[0-9]", w))[:40].strip().split(":")[0]
        kind = " ".join(kind.split()[:4])
    elif "EMBOSS_CHECK" in log or "Assertion" in log or "assert" in log:
        kind = "emboss-check-abort"
    else:
        kind = "crash"
    fn = re.search(r"in (?:[\w:<>~ ,*&()]+::)?(\w+)(?:<[^\n]*?>)?\([^\n]*\) [^\n]*runtime/cpp/(\w+\.h)", log)
    where = ("%s@%s" % (fn.group(1), fn.group(2))) if fn else ""
    return kind, where


def run(ctx):
    ctx.rule = ("modules and buffers as in C01 (harness/gen_view.py); per buffer the driver runs the whole checked API incl. writes of "
                "edge values to every writable scalar, text output/input, copy and equals; one case = (module, buffer); non-trivial = "
                "non-empty buffer; distinct by (module text, buffer)")
    ctx.trusted = ["Coq 8.16.1 kernel", "harness/view_x.py driver generator", "clang++ 14 -fsanitize=address,undefined"]
    ctx.assumptions = ["sanitizer runs are support, not proof: they name concrete failing inputs on the implementation side"]
    ctx.audit()
    ctx.check_theorems("EmbossV.View.Properties_C04", "View/Properties_C04.v", expect_min=5)

    n_mod = 120 if ctx.thorough() else 12
    n_buf = 12 if ctx.thorough() else 5
    jobs, infos = [], []
    flags = ["-std=c++14", "-O0", "-gline-tables-only", "-fsanitize=address,undefined", "-fno-sanitize-recover=all", "-fno-omit-frame-pointer"]
    for i in range(n_mod):
        gm = gen_view.ViewModule(ctx.rng, features={"top_param": False, "import": False})
        text = gm.text()
        try:
            ir, errors = compile_ir(text)
        except Exception as ex:
            ctx.count("compile-crash")
            continue
        if errors:
            ctx.count("compile-rejected")
            continue
        try:
            tr = view_x.ViewTranslator(ir)
            tr.module()     # same model subset as C01
            top = [k for k, t in enumerate(tr.types) if t.name.name.text == "Top"][0]
            fills = [lambda: 0, lambda: 255, lambda: ctx.rng.randrange(256), lambda: ctx.rng.choice([0, 1, 2, 3, 7, 128, 255]),
                     lambda: ctx.rng.choice([1, 2, 3])]
            bufs = []
            for bj in range(n_buf):
                f = fills[bj % len(fills)]
                b = [f() for _ in range(96)]
                b[0] = ctx.rng.choice([0, 1, 2, 3, 4, 7, 200])
                bufs.append(b)
            from compiler.back_end.cpp import header_generator
            header, herrs = header_generator.generate_header(ir)
            if herrs:
                ctx.count("header-generation-rejected")
                continue
            driver = view_x.safety_driver(tr, "/*INLINE*/\n" + header, top, bufs)
        except OutOfModel as ex:
            ctx.count("out-of-model:" + str(ex).split(" ")[0])
            continue
        jobs.append(cpp_build.CppJob("s%d" % i, None, driver, cxx="clang++", cxxflags=flags))
        infos.append(dict(i=i, text=text, bufs=bufs))
    # the parameterless structures of testdata/*.emb (arrays of structures, enums, conditionals, text_output,
    # [requires], alignments ...) through the same sanitizer driver
    from harness.props.c01 import corpus_structures
    cts = corpus_structures(ctx, with_parameters=False)
    chosen = cts if ctx.thorough() else ctx.rng.sample(cts, min(8, len(cts)))
    cheaders = {}
    for ci, (rel, cir, ctr, cterm, k, t) in enumerate(chosen):
        try:
            if rel not in cheaders:
                from compiler.back_end.cpp import header_generator
                cheaders[rel] = header_generator.generate_header(cir)
            header, herrs = cheaders[rel]
            if herrs:
                continue
            bufs = []
            for bj in range(3 if not ctx.thorough() else 6):
                f = [lambda: 0, lambda: 255, lambda: ctx.rng.randrange(256), lambda: ctx.rng.choice([0, 1, 2, 3])][bj % 4]
                bufs.append([f() for _ in range(48)])
            driver = view_x.safety_driver(ctr, "/*INLINE*/\n" + header, k, bufs)
        except OutOfModel as ex:
            ctx.count("corpus-out-of-model:" + str(ex).split(" ")[0])
            continue
        jobs.append(cpp_build.CppJob("s%d" % (1000 + ci), None, driver, cxx="clang++", cxxflags=flags))
        infos.append(dict(i=1000 + ci, text="# %s, structure %s\n" % (rel, ".".join(t.name.canonical_name.object_path))
                          + open(os.path.join(fw.REPO, rel)).read(), bufs=bufs))
        ctx.count("corpus-structure")
    # targeted probe of finding F8 (virtual write transform evaluated on the raw argument)
    f8_text = ('[$default byte_order: "LittleEndian"]\n[(cpp) namespace: "m"]\nstruct Top:\n  0 [+1]  UInt  x\n  let y = x + 100\n')
    f8_driver = ('#include <cstdio>\n#include <limits>\n#include "f8.emb.h"\nint main() { unsigned char b[1] = {1}; auto v = m::MakeTopView(b, 1);\n'
                 '  bool c = v.y().CouldWriteValue(::std::numeric_limits<decltype(v.y().Read())>::min()); ::std::printf("DONE %d\\n", (int)c); return 0; }\n')
    jobs.append(cpp_build.CppJob("f8", f8_text, f8_driver, cxx="clang++", cxxflags=flags))
    # targeted probe: Ok() of a conditional virtual field whose condition is false
    vo_text = ('[$default byte_order: "LittleEndian"]\n[(cpp) namespace: "m"]\nstruct Top:\n  0 [+1]  UInt  x\n'
               '  if x < 5:\n    let y = x * 2\n')
    vo_driver = ('#include <cstdio>\n#include "vo.emb.h"\nint main() { unsigned char b[1] = {200}; auto v = m::MakeTopView(b, 1);\n'
                 '  int has = v.has_y().ValueOr(true) ? 1 : 0; int ok = v.y().Ok() ? 1 : 0; ::std::printf("VO has=%d ok=%d\\n", has, ok); ::std::fflush(stdout);\n'
                 '  if (ok) { long long r = static_cast<long long>(v.y().Read()); ::std::printf("VO read=%lld\\n", r); }\n  ::std::printf("DONE\\n"); return 0; }\n')
    jobs.append(cpp_build.CppJob("vo", vo_text, vo_driver, cxx="clang++", cxxflags=flags))
    os.environ.setdefault("ASAN_OPTIONS", "detect_leaks=0:abort_on_error=0")
    os.environ.setdefault("UBSAN_OPTIONS", "print_stacktrace=1")
    results = cpp_build.run_jobs(os.path.join(ctx.bdir, "cpp"), jobs, parallel=fw.NPROC, timeout=600)
    f8 = results["f8"]
    if f8.stage == "run" and "signed integer overflow" in f8.log:
        ctx.violation("sanitizer:ubsan:signed integer overflow:writes:Do@emboss_arithmetic.h",
                      "virtual field CouldWriteValue(INT_MIN) overflows in the inverse transform",
                      dict(kind="view-safety", module=f8_text, operation="y().CouldWriteValue(INT_MIN)",
                           log=f8.log[:3000]), found_input=True)
    elif not f8.ok:
        ctx.note("F8 probe did not run: stage %s: %s" % (f8.stage, f8.log[-300:]))
    else:
        ctx.note("F8 probe no longer reports an overflow")
    vo = results["vo"]
    if any(l.startswith("VO has=0 ok=1") for l in vo.lines):
        ctx.violation("virtual-ok-ignores-existence",
                      "y().Ok() is true although has_y() is false; the following Read() %s"
                      % ("trips EMBOSS_CHECK(view_.has_y().ValueOr(false))" if not any(l == "DONE" for l in vo.lines) else "returns a value"),
                      dict(kind="view-safety", module=vo_text, buffer=[200], operation="y().Ok(); y().Read()", log=vo.log[:1500]),
                      found_input=True)
    elif not vo.lines:
        ctx.note("virtual-Ok probe did not run: stage %s: %s" % (vo.stage, vo.log[-300:]))
    n_ok = 0
    for info in infos:
        res = results["s%d" % info["i"]]
        if res.stage == "compile" or res.stage == "embossc":
            ctx.count("cpp-compile-failed")
            ctx.violation("cpp-build-failed:" + res.stage, "sanitizer driver failed to build: " + res.log[-500:],
                          dict(kind="module", module=info["text"], log=res.log[-3000:]), found_input=True)
            continue
        marks = [l for l in res.lines if l.startswith("@ ")]
        done = any(l == "DONE" for l in res.lines)
        lens = [l.split()[:2] for l in res.lines if l.startswith("B") and " len=" in l]
        for bl in lens:                                   # one case per (module, base content, prefix length)
            bi = int(bl[0][1:])
            n = int(bl[1].split("=")[1])
            ctx.case((info["text"], bi, n), nontrivial=n > 0,
                     sample={"base_buffer": info["bufs"][bi][:16], "prefix_length": n, "module_head": info["text"][:160]})
            ctx.count("prefix-length:%s" % ("0" if n == 0 else "1-8" if n <= 8 else "9-32" if n <= 32 else ">32"))
        last_len = int(lens[-1][1].split("=")[1]) if lens else -1
        if res.ok and done:
            n_ok += 1
            continue
        last = marks[-1] if marks else "@ buffer=? op=?"
        mm = re.match(r"@ buffer=(\d+) op=(\w+)", last)
        bi = int(mm.group(1)) if mm else -1
        op = mm.group(2) if mm else "?"
        kind, where = classify(res.log, last)
        key = "sanitizer:%s:%s:%s" % (kind, op, where)
        ctx.violation(key, "checked API misbehaved under sanitizers during %s: %s" % (op, res.log[:400]),
                      dict(kind="view-safety", module=info["text"],
                           buffer=(info["bufs"][bi][:last_len] if 0 <= bi < len(info["bufs"]) and last_len >= 0 else None),
                           operation=op, log=res.log[:4000]), found_input=True)
    ctx.obligation("sanitizer runs: %d/%d modules completed the whole checked API without a report" % (n_ok, len(infos)), n_ok == len(infos))
