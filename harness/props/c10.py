"""C10 — tokenization is lossless, position-accurate and classifies as documented."""
import json
import os
import sys
import time

from harness import fw
from harness import lex_tables as lt
from harness import lex_gen as lg

META = {
    "technique": "Coq proof about a Gallina mirror of tokenizer.py (Brzozowski-derivative longest-match regex matcher proved against an inductive semantics; line splitter, longest-first line tokenizer, Indent/Dedent stack machine) for ALL pattern tables and ALL strings; pattern table regenerated from tokenizer.py and doc/grammar.md each run and the instance facts re-checked by vm_compute; differential correspondence of the full token list / error position with Python tokenizer.tokenize",
    "level_text": "Machine-checked theorems (Coq 8.16, no axioms), for every pattern table and every string of code points: the matcher returns exactly the longest matching prefix (longest_spec); when tokenize succeeds the lexical tokens of each line together with white-space gaps rebuild the line (tokens_cover), each token's text is the source slice at its reported line/columns (positions_exact, with the exact guard: newline tokens and the synthesised end-of-file Dedents are zero-width/off-file, proved as *_refuted witnesses), each token is the longest match over the table with ties to the earliest pattern (longest_first), every line gets exactly one newline token placed last (newline_per_line), Indent and Dedent tokens balance and replaying them reproduces the leading white space of every significant line, and 'Bad indentation' is returned exactly when the leading white space neither extends the current level nor equals an open one (indent_balanced, bad_indent_iff). Classification: the SnakeWord/CamelWord/ShoutyWord/Number regexes denote exactly the language-reference character rules (with refuted witnesses where the prose is looser than the regex). The regenerated table is shown equal to the documented table of doc/grammar.md by computation inside Coq, and a tokenizer that treats every row as a regex (the documented reading) is proved equal to literals-first.",
    "level_note": "Trusted: Coq kernel + vm_compute; harness/lex_tables.py (regex-source parser, fail closed); CPython's re/str.splitlines/str.isspace as oracles on the implementation side. One modelling assumption, tested on every sampled string and never assumed silently: Python's backtracking re.match returns the LONGEST match for the table's patterns. Modelled, not verified: tokenizer.py itself (tie = regenerated tables + differential run on token soup, mutated corpus files, all line terminators, Unicode white space, long lines).",
}

GEN_TABLE = "LexTable_C10"
HEADER = ("Require Import EmbossV.Lex.Regex EmbossV.Lex.Tokenizer EmbossV.Lex.Exec.\n"
          "Require Import EmbossVGen.%s.\n" % GEN_TABLE)


# ---------------------------------------------------------------------------
# implementation side
# ---------------------------------------------------------------------------

def run_python(tok, text):
    """-> ('toks', [(sym, text, line, c0, c1)], raw_tokens) | ('err', kind, line, a, b) | ('crash', repr)"""
    try:
        tokens, errors = tok.tokenize(text, "f")
    except Exception as ex:  # noqa
        return ("crash", "%s: %s" % (type(ex).__name__, ex))
    if errors:
        try:
            m = errors[0][0]
            kind = {"Unrecognized token": "token", "Bad indentation": "indent"}.get(m.message)
            loc = m.location
            if kind is None or tokens is not None or loc.start.line != loc.end.line or len(errors) != 1:
                return ("crash", "unexpected error shape %r" % (errors,))
            return ("err", kind, loc.start.line, loc.start.column, loc.end.column)
        except Exception as ex:  # noqa
            return ("crash", "unexpected error shape %r (%s)" % (errors, ex))
    out = []
    for t in tokens:
        sl = t.source_location
        if sl.start.line != sl.end.line:
            return ("crash", "token spans lines: %s" % (t,))
        out.append((t.symbol, t.text, sl.start.line, sl.start.column, sl.end.column))
    return ("toks", out, tokens)


def expected_term(res):
    if res[0] == "toks":
        return "(XToks [%s])" % ";".join(
            "(%s,%s,%d,%d,%d)" % (lt.coq_str(s), lt.coq_str(x), l, a, b) for s, x, l, a, b in res[1])
    if res[0] == "err":
        return "(%s %d %d %d)" % ("XErrToken" if res[1] == "token" else "XErrIndent", res[2], res[3], res[4])
    return "XErrInternal"


def property_failure(tok, doc, text):
    """Does the PROPERTY fail on the real tokenizer for this text?  -> description or None."""
    res = run_python(tok, text)
    if res[0] == "crash":
        return "tokenizer raised / malformed result: " + res[1]
    if res[0] == "err":
        return lg.check_error(text, res[1:], doc)
    return lg.check_invariants(text, res[2], doc)


def shrink(text, fails, budget=300):
    """Greedy delta-debugging on lines then characters while `fails(text)` stays true."""
    t0 = time.time()
    cur = text
    changed = True
    n = 0
    while changed and n < budget and time.time() - t0 < 8:
        changed = False
        lines = cur.split("\n")
        for i in range(len(lines)):
            cand = "\n".join(lines[:i] + lines[i + 1:])
            n += 1
            if cand != cur and fails(cand):
                cur, changed = cand, True
                break
        if changed:
            continue
        step = max(1, len(cur) // 8)
        while step >= 1 and not changed:
            for i in range(0, len(cur), step):
                cand = cur[:i] + cur[i + step:]
                n += 1
                if cand != cur and fails(cand):
                    cur, changed = cand, True
                    break
                if n >= budget:
                    break
            step //= 2
    return cur


def report_input(ctx, tok, doc, text, why, origin):
    """A concrete text on which the property fails on the implementation."""
    small = shrink(text, lambda s: property_failure(tok, doc, s) is not None) if len(text) < 4000 else text
    msg = property_failure(tok, doc, small) or why
    key = "tokenizer:" + classify(msg)
    ctx.violation(key, "C10 fails on the implementation for %r: %s" % (small[:200], msg),
                  dict(kind="text", text=small, codepoints=[ord(c) for c in small], failure=msg, origin=origin,
                       replay="tokenizer.tokenize(text, 'f') then harness.lex_gen.check_invariants"),
                  found_input=True)


def classify(msg):
    for needle, k in (("unbalanced", "indent-balance"), ("longest-first", "longest-first"), ("source slice", "positions"), ("not covered", "cover"),
                      ("overlaps", "cover"), ("newline", "newline"), ("indentation level", "indent-mirror"),
                      ("Indent", "indent"), ("Dedent", "indent"), ("unbalanced", "indent-balance"),
                      ("classified", "classification"), ("Bad indentation", "bad-indent-spurious"),
                      ("Bad-indentation", "bad-indent-span"), ("documented table", "unrecognized-token"),
                      ("Unrecognized-token", "unrecognized-token"), ("raised", "crash"), ("beyond the last line", "positions")):
        if needle in msg:
            return k
    return "other"



# ---------------------------------------------------------------------------
# extracted model (speed-up for volume; a sample of the same cases is also evaluated inside Coq)
# ---------------------------------------------------------------------------

DRIVER_ML = r"""(* C10 correspondence driver: one case per input line (space-separated code points);
   prints the model's result in a canonical text form.  Only int <-> N conversion and printing. *)
open Lexmodel
let rec pos_of_int i = if i = 1 then XH else if i land 1 = 1 then XI (pos_of_int (i lsr 1)) else XO (pos_of_int (i lsr 1))
let n_of_int i = if i = 0 then N0 else Npos (pos_of_int i)
let rec int_of_pos = function XH -> 1 | XO p -> 2 * int_of_pos p | XI p -> 2 * int_of_pos p + 1
let int_of_n = function N0 -> 0 | Npos p -> int_of_pos p
let str_out b l = List.iteri (fun i c -> if i > 0 then Buffer.add_char b ' '; Buffer.add_string b (string_of_int (int_of_n c))) l
let () =
  try
    while true do
      let line = input_line stdin in
      let codes = List.filter (fun s -> s <> "") (String.split_on_char ' ' line) in
      let s = List.map (fun x -> n_of_int (int_of_string x)) codes in
      let b = Buffer.create 1024 in
      (match run s with
       | XToks ts ->
           Buffer.add_string b "T";
           List.iter (fun ((((sy, tx), l), a), c) ->
               Buffer.add_char b '|'; str_out b sy; Buffer.add_char b ','; str_out b tx;
               Buffer.add_string b (Printf.sprintf ",%d,%d,%d" (int_of_n l) (int_of_n a) (int_of_n c))) ts
       | XErrToken (l, a, c) -> Buffer.add_string b (Printf.sprintf "E %d %d %d" (int_of_n l) (int_of_n a) (int_of_n c))
       | XErrIndent (l, a, c) -> Buffer.add_string b (Printf.sprintf "I %d %d %d" (int_of_n l) (int_of_n a) (int_of_n c))
       | XErrInternal -> Buffer.add_string b "X");
      print_endline (Buffer.contents b)
    done
  with End_of_file -> ()
"""


def build_extracted(ctx):
    """Extract `run_tokenize code_table` (ExtrOcamlBasic only) and build the driver.  -> (exe, log)"""
    d = os.path.join(ctx.bdir, "extract")
    import shutil
    shutil.rmtree(d, ignore_errors=True)
    os.makedirs(d)
    with open(os.path.join(d, "LexExtr.v"), "w") as f:
        f.write("Require Import EmbossV.Lex.Exec EmbossVGen.%s.\n" % GEN_TABLE)
        f.write("Require Extraction. Require Import ExtrOcamlBasic.\n")
        f.write("Definition run (s : list BinNums.N) := run_tokenize code_table s.\n")
        f.write('Extraction "lexmodel.ml" run.\n')
    rc, out = fw.coqc(os.path.join(d, "LexExtr.v"), timeout=600)
    if rc != 0:
        return None, out
    open(os.path.join(d, "driver.ml"), "w").write(DRIVER_ML)
    rc, out = fw.sh(["ocamlfind", "ocamlopt", "lexmodel.mli", "lexmodel.ml", "driver.ml", "-o", "lexdrv"], cwd=d, timeout=600)
    if rc != 0:
        return None, out
    return os.path.join(d, "lexdrv"), ""


def canon(res):
    def codes(x):
        return " ".join(str(ord(c)) for c in x)
    if res[0] == "toks":
        return "T" + "".join("|%s,%s,%d,%d,%d" % (codes(s), codes(x), l, a, b) for s, x, l, a, b in res[1])
    if res[0] == "err":
        return "%s %d %d %d" % ("E" if res[1] == "token" else "I", res[2], res[3], res[4])
    return "PYTHON-CRASH"


def run_extracted(exe, texts, nproc=8):
    """-> list of canonical result strings (one per text)"""
    import subprocess
    chunks = [texts[i::nproc] for i in range(nproc)]
    procs = []
    for ch in chunks:
        data = "".join(" ".join(str(ord(c)) for c in t) + "\n" for t in ch)
        p = subprocess.Popen("ulimit -s unlimited 2>/dev/null; exec '%s'" % exe, shell=True, stdin=subprocess.PIPE,
                             stdout=subprocess.PIPE, stderr=subprocess.PIPE, text=True)
        procs.append((p, data))
    import threading
    outs = [None] * nproc

    def work(k):
        p, data = procs[k]
        try:
            o, e = p.communicate(data, timeout=1500)
            outs[k] = (p.returncode, o, e)
        except subprocess.TimeoutExpired:
            p.kill()
            outs[k] = (124, "", "timeout")
    th = [threading.Thread(target=work, args=(k,)) for k in range(nproc)]
    for x in th:
        x.start()
    for x in th:
        x.join()
    res = [None] * len(texts)
    for k in range(nproc):
        rc, o, e = outs[k]
        lines = o.split("\n")
        if lines and lines[-1] == "":
            lines.pop()
        n = len(chunks[k])
        if rc != 0 or len(lines) != n:
            lines = (lines + ["MODEL-DRIVER-FAILED rc=%s %s" % (rc, e[-200:].replace("\n", " "))] * n)[:n]
        for j, l in enumerate(lines):
            res[k + j * nproc] = l
    return res

# ---------------------------------------------------------------------------
# instance file (facts about the regenerated table, re-checked each run)
# ---------------------------------------------------------------------------

INSTANCE_FACTS = [
    # (name, boolean Coq term, meaning)
    ("inst_reserved_free", "reserved_free code_table",
     "no pattern of the table yields the symbols Indent, Dedent or \"\\n\""),
    ("inst_skips_ws", "skips_only_ws code_table",
     "patterns without a symbol match white space only"),
    ("inst_doc_eq_code", "rows_eqb doc_rows (unified_rows code_table)",
     "doc/grammar.md token table = tokenizer.py tables, row by row, in order"),
    ("inst_snake_re", "sym_res_eqb snake_sym code_table [re_snake]",
     "the SnakeWord pattern is the language-reference regex [a-z][a-z_0-9]*"),
    ("inst_camel_re", "sym_res_eqb camel_sym code_table [re_camel]",
     "the CamelWord pattern is the language-reference regex"),
    ("inst_shouty_re", "sym_res_eqb shouty_sym code_table [re_shouty]",
     "the ShoutyWord pattern is the language-reference regex"),
    ("inst_number_res", "sym_res_eqb number_sym code_table re_numbers",
     "the Number patterns are the eight reference formats"),
]


def write_instance(ctx, gen_dir):
    """Two generated files: LexFacts_C10.v evaluates every boolean fact; LexInstance_C10.v proves the
    instance theorems from them.  Returns (facts_path, instance_path)."""
    facts = os.path.join(gen_dir, "LexFacts_C10.v")
    with open(facts, "w") as f:
        f.write("From Coq Require Import NArith List Bool.\nImport ListNotations.\n")
        f.write("Require Import EmbossV.Lex.Regex EmbossV.Lex.Tokenizer EmbossV.Lex.Spec EmbossV.Lex.Class EmbossV.Lex.Exec EmbossV.Lex.Instance.\n")
        f.write("Require Import EmbossVGen.%s.\n" % GEN_TABLE)
        f.write("Definition facts : list bool := [%s].\n" % "; ".join("(%s)" % t for _, t, _ in INSTANCE_FACTS))
        f.write('Redirect "%s" Eval vm_compute in facts.\n' % os.path.join(gen_dir, "LexFacts_C10"))
    inst = os.path.join(gen_dir, "LexInstance_C10.v")
    src = open(os.path.join(fw.THEORIES, "Lex", "InstanceTemplate.v.in")).read()
    with open(inst, "w") as f:
        f.write(src.replace("@TABLE@", "EmbossVGen." + GEN_TABLE))
    return facts, inst


# ---------------------------------------------------------------------------
# cases
# ---------------------------------------------------------------------------

def generate_inputs(ctx, t, corpus):
    g = lg.Gen(ctx.rng, t, corpus)
    big = ctx.thorough()
    plan = [
        ("soup", 9000 if big else 2000, lambda: g.soup(False)),
        ("soup-adjacent", 9000 if big else 2000, lambda: g.soup(True)),
        ("boundary", 12000 if big else 2500, g.boundary),
        ("random-short", 12000 if big else 2500, g.random_short),
        ("terminators", 4000 if big else 800, g.terminators),
        ("unicode-ws", 4000 if big else 800, g.unicode_ws),
        ("indent-walk", 8000 if big else 1600, g.indent_walk),
        ("corpus-mutated", 4000 if big else 700, lambda: g.mutate(g.corpus_slice()[1])),
        ("corpus-slice", 800 if big else 150, lambda: g.corpus_slice()[1]),
        ("long-line", 60 if big else 12, lambda: g.long_line(ctx.rng.choice([600, 2000, 6000] if big else [600, 2000]))),
    ]
    out = []
    for s in lg.EDGE:
        out.append(("edge", s))
    # every white-space / line-break code point in three positions
    for c in sorted(set(t.ws) | set(t.breaks) | {0x200b, 0x180e, 0xfeff, 0x1f, 0x7f, 0}):
        ch = chr(c)
        for s in ("a" + ch + "b", ch + "a\n" + ch + ch + "b\n" + ch + "c", "a\n " + ch + "b\n"):
            out.append(("codepoint-sweep", s))
    for name, text in corpus:
        out.append(("corpus-whole", text))
        out.append(("corpus-whole-crlf", text.replace("\n", "\r\n")))
    for shape, n, fn in plan:
        for _ in range(n):
            out.append((shape, fn()))
    return out


def _phase(ctx, name):
    import resource
    r = resource.getrusage(resource.RUSAGE_CHILDREN)
    now, cpu = time.time(), r.ru_utime + r.ru_stime
    last = getattr(ctx, "_phase_last", (ctx.t0, 0.0))
    ctx.extra.setdefault("phases_wall_cpu_s", []).append([name, round(now - last[0], 1), round(cpu - last[1], 1)])
    ctx._phase_last = (now, cpu)


def audit_closure(ctx):
    """Audit (forbidden vernacular) of the .v files this check depends on: theories/Lex and theories/Lib.
    (fw.Ctx.audit covers the whole tree, including other properties' work in progress.)"""
    import glob
    files = sorted(glob.glob(os.path.join(fw.THEORIES, "Lex", "*.v")) + glob.glob(os.path.join(fw.THEORIES, "Lib", "*.v")))
    problems = []
    for f in files:
        problems += fw.audit_file(f)
    ctx.extra["audit_files"] = len(files)
    ctx.obligation("audit: no Admitted/Axiom/Parameter/guard-off in the %d .v files of the closure (Lex/, Lib/)" % len(files), not problems)
    if problems:
        ctx.violation("audit", "forbidden vernacular: " + "; ".join(problems[:5]), dict(kind="audit", problems=problems), found_input=False)


def run(ctx):
    if fw.REPO not in sys.path[:1]:
        sys.path.insert(0, fw.REPO)
    ctx.rule = ("strings of code points: token soup sampled from the regenerated pattern table (regex languages sampled from the "
                "parsed ASTs, literals, boundary words) with random separators/indentation; adjacent soup (no separators); "
                "pattern-boundary words and their concatenations/mutations; random strings <= 8 over a 40-symbol alphabet; "
                "every line terminator and every Unicode white-space code point in three positions; indentation walks; "
                "whole, CRLF-converted, sliced and mutated testdata/*.emb files; long lines.  Each case compares the full "
                "token list (symbol, text, line, columns) or the error kind and span.  Non-trivial = at least one token or an error; "
                "distinct by input text")
    ctx.trusted = ["Coq 8.16.1 kernel, vm_compute", "harness/lex_tables.py (regex source parser, fail-closed)",
                   "harness/props/c10.py, harness/lex_gen.py", "CPython 3.12 re / str.splitlines / str.isspace"]
    ctx.assumptions = ["Python's backtracking re.match returns the longest match for the table's patterns (tested on every sampled string; a difference shows as a disagreement)",
                       "the model reads the tables the way _tokenize_line does (literals first, then regexes; hand-modelled control flow, tested by the correspondence)"]
    audit_closure(ctx)
    thm_ok = ctx.check_theorems("EmbossV.Lex.Properties_C10", "Lex/Properties_C10.v", expect_min=12)
    _phase(ctx, "theorems (make + Print Assumptions)")

    # ---- (T) regenerate the tables -------------------------------------------------
    os.makedirs(fw.GEN, exist_ok=True)
    try:
        t = lt.load_code_tables(fw.REPO)
        doc_rows = lt.load_doc_table(fw.REPO, t.ws_ranges)
    except lt.Unsupported as ex:
        ctx.obligation("tables regenerated from tokenizer.py and doc/grammar.md", False)
        ctx.violation("lex-table-translator", "pattern table not understood: %s" % ex,
                      dict(kind="tie", translator="harness/lex_tables.py", error=str(ex)), found_input=False)
        return
    ctx.obligation("tables regenerated from tokenizer.py and doc/grammar.md (%d literals, %d regexes, %d documented rows)"
                   % (len(t.lits), len(t.pats), len(doc_rows)), True)
    tok = t.tokenizer
    doc = lg.DocTokenizer(doc_rows)
    table_v = os.path.join(fw.GEN, GEN_TABLE + ".v")
    lt.write_table_v(table_v, t, doc_rows)
    rc, out = fw.coqc(table_v, timeout=300)
    if rc != 0:
        ctx.obligation("generated table compiles", False)
        ctx.violation("lex-table-translator", "generated table does not compile", dict(kind="tie", log=out[-3000:]), found_input=False)
        return
    corpus = lg.corpus_files(fw.REPO)
    _phase(ctx, "tables regenerated and compiled")

    # ---- instance facts and theorems on the regenerated table ---------------------------
    broken_facts = []
    if thm_ok:
        rcm, outm = fw.coq_make(["Lex/Instance.vo"])
        facts_v, inst_v = write_instance(ctx, fw.GEN)
        rc, out = fw.coqc(inst_v, timeout=900) if rcm == 0 else (rcm, outm)
        names = fw.theorem_names(inst_v)
        if rc == 0:
            # every fact is the statement of one of the instance theorems that just checked
            for name, term, meaning in INSTANCE_FACTS:
                ctx.obligation("instance: %s  (%s)" % (name, meaning), True)
            res = fw.collect_assumptions(ctx, "EmbossVGen.LexInstance_C10", inst_v, names)
            for n_ in names:
                axs = (res or {}).get(n_, ["<unavailable>"])
                ctx.obligation("instance theorem " + n_, not axs, axs)
                if axs:
                    ctx.violation("axiom:" + n_, "instance theorem %s depends on %s" % (n_, axs),
                                  dict(kind="axiom", theorem=n_, axioms=axs), found_input=False)
        else:
            # which fact about the regenerated table broke?
            rc2, out2 = fw.coqc(facts_v, timeout=600) if rcm == 0 else (rcm, outm)
            vals = None
            if rc2 == 0:
                txt = open(os.path.join(fw.GEN, "LexFacts_C10.out")).read()
                vals = [w == "true" for w in __import__("re").findall(r"\b(true|false)\b", txt.split("=", 1)[1].rsplit(":", 1)[0])]
            if not vals or len(vals) != len(INSTANCE_FACTS) or all(vals):
                for n_ in names:
                    ctx.obligation("instance theorem " + n_, False)
                ctx.violation("proof-broken:LexInstance", "instance theorems on the regenerated table do not check",
                              dict(kind="proof", file=inst_v, log=(out + out2)[-3000:]), found_input=False)
            else:
                for (name, term, meaning), v in zip(INSTANCE_FACTS, vals):
                    ctx.obligation("instance: %s  (%s)" % (name, meaning), v)
                    if not v:
                        broken_facts.append((name, meaning))
                for n_ in names:
                    ctx.obligation("instance theorem " + n_, False)
        ctx.extra["audit_generated"] = fw.audit_file(inst_v) + fw.audit_file(table_v)
        if ctx.extra["audit_generated"]:
            ctx.violation("audit", "forbidden vernacular in generated files", dict(kind="audit", problems=ctx.extra["audit_generated"]), found_input=False)

    _phase(ctx, "instance facts and theorems")
    # ---- (C) correspondence ------------------------------------------------------------
    inputs = []
    cdir = os.path.join(fw.VERIF, "corpus", "C10")
    if os.path.isdir(cdir):
        for fn in sorted(os.listdir(cdir)):
            if fn.endswith(".json"):
                try:
                    obj = json.load(open(os.path.join(cdir, fn)))
                    inputs.append(("corpus-replay", "".join(chr(c) for c in obj["codepoints"])))
                except Exception as ex:  # noqa
                    ctx.note("unreadable corpus entry %s: %s" % (fn, ex))
    if getattr(ctx, "replay_path", None):
        obj = json.load(open(ctx.replay_path))
        rp = obj.get("replay", obj)
        if "codepoints" in rp:
            inputs = [("replay", "".join(chr(c) for c in rp["codepoints"]))]
    if not getattr(ctx, "replay_path", None) or not inputs:
        inputs += generate_inputs(ctx, t, corpus)

    seen = set()
    cases = []
    py_fail = []
    for shape, text in inputs:
        if text in seen:
            ctx.count("duplicate-skipped")
            continue
        seen.add(text)
        res = run_python(tok, text)
        ctx.count("shape:" + shape)
        ctx.count("python:" + (res[0] if res[0] != "err" else "err-" + res[1]))
        if res[0] == "crash":
            py_fail.append((text, res[1], shape))
        cases.append((lt.coq_str(text) + "%N", expected_term(res), dict(text=text, shape=shape, res=res)))
    ctx.count("chars-total", sum(len(c[2]["text"]) for c in cases))
    ctx.count("tokens-total", sum(len(c[2]["res"][1]) for c in cases if c[2]["res"][0] == "toks"))

    _phase(ctx, "inputs generated, tokenizer.tokenize run")
    bad = []          # (index, model output text)
    exe, log = build_extracted(ctx)
    ctx.obligation("model extracted to OCaml (ExtrOcamlBasic only) and driver built", exe is not None)
    if exe is None:
        ctx.violation("harness-extraction", "extraction / OCaml build failed", dict(kind="harness", log=log[-3000:]), found_input=False)
        coq_idx = list(range(len(cases)))[:3000]
    else:
        _phase(ctx, "extraction + ocamlopt")
        outs = run_extracted(exe, [c[2]["text"] for c in cases])
        _phase(ctx, "extracted model run")
        for i, (c, o) in enumerate(zip(cases, outs)):
            if o != canon(c[2]["res"]):
                bad.append((i, o[:3000]))
        ctx.obligation("correspondence (extracted model): model = tokenizer.tokenize on %d texts (token lists with positions / error spans)"
                       % len(cases), not bad)
        # the same comparison inside Coq (vm_compute) on a sample: extraction is a speed-up, not a premise
        fixed = [i for i, c in enumerate(cases) if c[2]["shape"] in ("edge", "corpus-replay", "replay", "codepoint-sweep")]
        rest = [i for i, c in enumerate(cases) if c[2]["shape"] not in ("edge", "corpus-replay", "replay", "codepoint-sweep") and len(c[2]["text"]) <= (1500 if ctx.thorough() else 400)]
        k = min(len(rest), 1500 if ctx.thorough() else 150)
        coq_idx = fixed + ctx.rng.sample(rest, k)
    sub = [cases[i] for i in coq_idx]
    runner = fw.CoqCases(ctx, "tok", HEADER + "Open Scope N_scope.\n", "run_tokenize code_table", "xresult_eqb",
                         "str", "xresult", shard=max(10, len(sub) // (fw.NPROC if ctx.thorough() else 8) + 1), timeout=1500)
    bad_coq = runner.run(sub)
    _phase(ctx, "in-Coq sample")
    ctx.obligation("correspondence (inside Coq, vm_compute): model = tokenizer.tokenize on %d of these texts" % len(sub), not bad_coq)
    have = {i for i, _ in bad}
    for j, outtxt in bad_coq:
        if coq_idx[j] not in have:
            bad.append((coq_idx[j], outtxt))
    if exe is not None:
        coq_bad = {coq_idx[j] for j, _ in bad_coq}
        disagree = [i for i in coq_idx if (outs[i] != canon(cases[i][2]["res"])) != (i in coq_bad)]
        ctx.obligation("extracted model and in-Coq evaluation agree on the sample", not disagree)
        if disagree:
            ctx.violation("harness-extraction", "extracted OCaml and vm_compute disagree on %r" % cases[disagree[0]][2]["text"][:100],
                          dict(kind="harness", text=cases[disagree[0]][2]["text"]), found_input=False)
    for a, b, obj in cases:
        r = obj["res"]
        ctx.case(obj["text"], nontrivial=(r[0] != "toks" or len(r[1]) > 0),
                 sample={"shape": obj["shape"], "text": obj["text"][:80], "python": (b[:200] + "...") if len(b) > 200 else b})

    # ---- deciding ------------------------------------------------------------------------
    # candidates for a concrete failing text, smallest first
    need_search = bool(broken_facts) or bool(bad) or not thm_ok
    found = []          # (text, why, shape)
    for text, why, shape in py_fail:
        found.append((text, why, shape))
    bad_idx = {idx for idx, _ in bad}
    budget = 8000 if ctx.thorough() else 1500
    if need_search:
        order = sorted(range(len(cases)), key=lambda i: (i not in bad_idx, len(cases[i][2]["text"])))
    else:
        order = list(range(0, len(cases), max(1, len(cases) // budget)))
    n_inv = 0
    t_search = time.time()
    for i in order:
        obj = cases[i][2]
        if len(found) >= 3 or time.time() - t_search > 120:
            break
        if i not in bad_idx and not need_search and n_inv >= budget:
            break
        if len(obj["text"]) > 3000 and i not in bad_idx:
            continue
        n_inv += 1
        why = property_failure(tok, doc, obj["text"])
        if why:
            found.append((obj["text"], why, obj["shape"]))
    ctx.extra["invariant_checks_on_python_output"] = n_inv
    _phase(ctx, "invariant checks / search")
    for text, why, shape in found[:3]:
        report_input(ctx, tok, doc, text, why, shape)
    _phase(ctx, "shrinking and reporting")
    if not found:
        for idx, outtxt in bad[:3]:
            obj = cases[idx][2]
            ctx.violation("tokenizer-correspondence", "model and tokenizer.tokenize disagree on %r (no property failure found on the implementation)" % obj["text"][:120],
                          dict(kind="text", correspondence="Lex.Tokenizer.tokenize vs tokenizer.tokenize", text=obj["text"],
                               codepoints=[ord(c) for c in obj["text"]], python=cases[idx][1][:3000], model_outputs=outtxt[:3000]),
                          found_input=False)
        for name, meaning in broken_facts:
            ctx.violation("lex-instance:" + name, "instance fact %s no longer holds for the regenerated table (%s); no failing text found" % (name, meaning),
                          dict(kind="proof", theorem=name, meaning=meaning, file="build/gen/LexFacts_C10.v"), found_input=False)
