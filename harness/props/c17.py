"""C17 — compilation is a pure function of its input files."""
import concurrent.futures
import glob
import hashlib
import itertools
import json
import os
import shutil
import subprocess
import sys

from harness import fw, gen_fuzz, gen_expr, c17_scan, pipe_worker as pw
from harness.props import c16

META = {
    "technique": "Coq proof about (i) the consumers of unordered collections with the enumeration order as an explicit argument and "
                 "(ii) a state machine for the module cache and the anonymous-name counter; an ast scan of /repo/compiler that must "
                 "equal a reviewed list of set/dict iteration sites and module-level mutables; byte comparison of IR, header and "
                 "diagnostics across PYTHONHASHSEED values, repetitions, interleavings, import-dir orders and process splits",
    "level_text": "Machine-checked theorems (Coq 8.16, no axioms): sorted() is a function of the multiset; the expected-token list of "
                  "syntax errors, ambiguous_name_error and the dependency-cycle reports do not depend on the enumeration order of "
                  "the sets they consume (the pre-fix functions are refuted: old_*_refuted), any/all/set-building/commutative folds "
                  "are order-independent; for every reachable process state the result of compiling a set of files equals the result "
                  "from any other reachable state up to an injective renaming of emboss_reserved_anonymous_field_N, a cache hit "
                  "returns what a miss would compute, repeating a compilation gives the identical result and leaves the state fixed, "
                  "the counter moves only on cache misses. Tie: the scan of the current tree must equal harness/c17_sites.json "
                  "(fail closed); model and code are compared on sorted(), make_error_from_parse_error, ambiguous_name_error and on "
                  "observed (counter, cache, anonymous numbers) after sequences of compilations in fresh processes; accepted and "
                  "rejected modules are compiled under 8 hash seeds, twice per process, in two interleavings, with shuffled import "
                  "directories and as front-end|back-end processes vs embossc, and compared byte for byte; the three command line drivers "
                  "(embossc vs emboss_front_end writing the IR to a file, then emboss_codegen_cpp reading it) are also run on testdata, "
                  "generated falsy-value modules (false/0 constants, constant-false comparisons, enum value 0, is_signed false, Flag "
                  "fields, empty documentation and arrays), gen_expr modules, rejected modules and back-end rejections placed in the "
                  "main and in imported files, comparing exit status, stderr text and header.",
    "level_note": "partial. Trusted: Coq kernel + vm_compute; harness/props/c17.py, harness/pipe_worker.py, harness/c17_scan.py (syntactic "
                  "type inference: a set that reaches an iteration through an untyped parameter is invisible to it; the hash-seed runs "
                  "are the net for those). Hash-seed effects at sites that are neither modelled nor exercised by the generated modules "
                  "are out of reach. Back-end equivariance under renaming of anonymous fields is an explicit hypothesis of "
                  "history_irrelevant_output, checked by the interleaving runs.",
    "category": "proof",
}

HEADER = c16.HEADER
cstr, cloc, copt = c16.cstr, c16.cloc, c16.copt
SEEDS_FIXED = [0, 1, 2, 3, 4]


# ----------------------------------------------------------------------------
def worker_run(ctx, name, jobs, seed, want, repeat=1, mode=None):
    """Run harness.pipe_worker in a fresh interpreter with the given hash seed."""
    d = os.path.join(ctx.bdir, "jobs")
    os.makedirs(d, exist_ok=True)
    jp, op = os.path.join(d, name + ".job.json"), os.path.join(d, name + ".out.json")
    with open(jp, "w", encoding="utf-8") as f:
        json.dump({"jobs": jobs, "want": want, "repeat": repeat, "shared": testdata_files(), "mode": mode,
                   "base": os.path.join(ctx.bdir, "drivers", name)}, f)
    if os.path.exists(op):
        os.remove(op)
    env = dict(os.environ)
    env.update(fw.repo_env({"PYTHONHASHSEED": str(seed), "PYTHONPATH": fw.VERIF + os.pathsep + fw.REPO, "EMBOSS_REPO": fw.REPO}))
    p = subprocess.run([fw.PY, "-m", "harness.pipe_worker", jp, op], cwd=fw.VERIF, env=env, stdin=subprocess.DEVNULL,
                       stdout=subprocess.PIPE, stderr=subprocess.STDOUT, timeout=2400)
    if p.returncode != 0 or not os.path.exists(op):
        raise RuntimeError("worker %s failed (rc %s): %s" % (name, p.returncode, p.stdout.decode("utf-8", "replace")[-1500:]))
    return json.load(open(op, encoding="utf-8"))


def testdata_files():
    return {name: text for name, text in gen_fuzz.corpus(fw.REPO)}


def module_jobs(ctx, n_gen, n_rej):
    """Accepted and rejected modules: [{"id", "files", "main"}]."""
    extra = testdata_files()
    jobs = []
    for name in sorted(extra):
        jobs.append({"id": "corpus:" + name, "files": {}, "shared": True, "main": name})
    r = ctx.rng
    for i in range(n_gen):
        m = gen_expr.ExprModule(r, n_virtual=r.randint(2, 8), depth=r.choice([1, 2, 3]), big=r.random() < 0.3)
        jobs.append({"id": "gen_expr:%d" % i, "files": {"m.emb": m.text()}, "main": "m.emb"})
    # modules with anonymous bits (the counter), in several sizes
    for i in range(max(3, n_gen // 3)):
        jobs.append({"id": "anon:%d" % i, "files": {"m.emb": anon_module(r, "An%d" % i)}, "main": "m.emb"})
    # minimised modules of past findings and other fixed rejected modules: corpus/C17/*.json
    for p in sorted(glob.glob(os.path.join(fw.VERIF, "corpus", "C17", "*.json"))):
        j = json.load(open(p, encoding="utf-8"))
        jobs.append({"id": "rej:" + j["id"], "files": {"m.emb": j["text"]}, "shared": True, "main": "m.emb"})
    # seed-independent: names that are reserved in SEVERAL languages (the sections of compiler/front_end/reserved_words,
    # read from the working tree), as field and as parameter name: a message that enumerates the languages must not
    # depend on set iteration order
    sections, lang = {}, None
    try:
        for line in open(os.path.join(fw.REPO, "compiler", "front_end", "reserved_words"), encoding="utf-8"):
            t = line.strip()
            if not t or t.startswith("#"):
                continue
            if t.startswith("--"):
                lang = t[2:].strip()
            else:
                sections.setdefault(t, set()).add(lang)
    except IOError:
        pass
    snake = [w for w in sorted(sections) if w.islower() and w.isidentifier()]
    multi = sorted((w for w in snake if len(sections[w]) >= 2), key=lambda w: (-len(sections[w]), w))
    single = [w for w in snake if len(sections[w]) == 1]
    for w in multi[:6] + multi[len(multi) // 2:len(multi) // 2 + 3] + single[:2]:
        jobs.append({"id": "rej:reserved-field:%s:%d" % (w, len(sections[w])), "shared": True, "main": "m.emb",
                     "files": {"m.emb": '[$default byte_order: "LittleEndian"]\nstruct Foo:\n  0 [+1]  UInt  %s\n  1 [+1]  UInt  ok_name\n' % w}})
        jobs.append({"id": "rej:reserved-parameter:%s:%d" % (w, len(sections[w])), "shared": True, "main": "m.emb",
                     "files": {"m.emb": '[$default byte_order: "LittleEndian"]\nstruct Foo(%s: UInt:8):\n  0 [+1]  UInt  ok_name\n' % w}})
    seen = set()
    tries = 0
    while len([j for j in jobs if j["id"].startswith("fuzz:")]) < n_rej and tries < 50 * n_rej:
        tries += 1
        lab, text = gen_fuzz.generate(r, fw.REPO)
        fam = lab.split(":")[0]
        if fam in ("bytes", "soup") and r.random() < 0.7:
            continue
        if text in seen or any(ord(c) > 0xffff for c in text):
            continue
        seen.add(text)
        jobs.append({"id": "fuzz:%s:%d" % (lab, len(jobs)), "files": {"m.emb": text}, "shared": True, "main": "m.emb"})
    return jobs


def anon_module(r, tag):
    L = ["struct %s:" % tag]
    off = 0
    for i in range(r.choice([1, 2, 3, 5])):
        L.append("  %d [+1]  bits:" % off)
        L.append("    0 [+%d]  UInt  f%d" % (r.choice([1, 3, 4]), i))
        if r.random() < 0.5:
            L.append("    4 [+1]  Flag  g%d" % i)
        off += 1
    L.append("  %d [+1]  UInt  tail" % off)
    return "\n".join(L) + "\n"


def same_name_jobs():
    """Variants that share every file NAME but differ in contents (of the main file or of the import)."""
    imp_a = "struct Imp:\n  0 [+1]  UInt  v\n"
    imp_b = "struct Imp:\n  0 [+2]  UInt  v\n  2 [+1]  bits:\n    0 [+3]  UInt  lo\n"
    main1 = '[(cpp) namespace: "one::ns"]\nimport "imp.emb" as imp\nstruct Top:\n  0 [+4]  imp.Imp  a\n  4 [+1]  bits:\n    0 [+1]  Flag  f\n'
    main2 = main1.replace("one::ns", "two::ns")
    main3 = '[(cpp) namespace: "one::ns"]\nimport "imp.emb" as imp\nstruct Top:\n  0 [+4]  imp.Imp  a\n  4 [+2]  UInt  extra\n'
    main4 = main1.replace("imp.Imp  a", "imp.Nope  a")          # rejected
    variants = [(main1, imp_a), (main2, imp_a), (main1, imp_b), (main3, imp_a), (main4, imp_a), (main3, imp_b), (main1, imp_a)]
    return [{"id": "same:%d" % i, "files": {"m.emb": m, "imp.emb": im}, "main": "m.emb"} for i, (m, im) in enumerate(variants)]


def falsy_module(r, tag):
    """A module that exercises IR fields with falsy-but-meaningful values: false/0 constants, constant-false
    comparisons, enum value 0, is_signed false, Flag fields, empty documentation, empty arrays, `if false`."""
    def on(p=0.6):
        return r.random() < p
    L = []
    if on(0.4):
        L.append("--")
    if on(0.5):
        L.append("-- ")
    L.append('[$default byte_order: "%s"]' % r.choice(["LittleEndian", "BigEndian"]))
    if on(0.4):
        L.append('[(cpp) namespace: "%s"]' % r.choice(["f", "f::g", "::f::g"]))
    if on(0.3):
        L.append('[(cpp) $default enum_case: "%s"]' % r.choice(["kCamelCase", "SHOUTY_CASE", "SHOUTY_CASE, kCamelCase"]))
    L.append("enum Ee:")
    if on(0.5):
        L.append("  [is_signed: %s]" % r.choice(["false", "true"]))
    if on(0.3):
        L.append("  [maximum_bits: %d]" % r.choice([8, 16, 64]))
    L.append("  ZERO = 0")
    if on(0.3):
        L.append("    --")
    L.append("  ONE = 1")
    L.append("struct Bar%s(q: UInt:8, k: Ee):" % tag)
    L.append("  0 [+1]  UInt  v")
    if on():
        L.append("  let qz = q == 0")
    if on():
        L.append("  let kz = k == Ee.ZERO")
    L.append("struct Foo%s:" % tag)
    if on(0.3):
        L.append("  --")
    L.append("  0 [+1]  UInt  x")
    L.append("  1 [+1]  bits:")
    L.append("    0 [+1]  Flag  fl")
    L.append("    1 [+3]  UInt  lo")
    if on():
        L.append("    4 [+1]  Flag  fl2")
    L.append("  2 [+1]  Ee  e")
    lets = ["k_f = false", "k_t = true", "k_c = 3 < 2", "k_c2 = x < 0", "k_c3 = 0 == 1", "k_z = 0", "k_z2 = x * 0", "k_z3 = 0 - 0", "k_nf = false && true",
            "k_of = false || false", "k_ef = false == false", "k_nt = true != true", "k_ch = false ? 1 : 0", "k_ch2 = (3 < 2) ? x : 0",
            "k_en = Ee.ZERO", "k_ez = Ee.ZERO == Ee.ONE", "k_ezz = e == Ee.ZERO", "k_flz = fl == false", "k_both = fl && false",
            "k_mx = $max(0, 0)", "k_ub = $lower_bound(x)", "k_pr = $present(x) == false", "k_neg = 0 - 1", "k_lz = lo * 0 == 0"]
    names = []
    for l in lets:
        if on(0.55):
            L.append("  let " + l)
            names.append(l.split(" = ")[0])
    if "k_f" in names and on():
        L.append("  let k_ff = k_f || k_f")
    off = 3
    for cond in ["false", "3 < 2", "fl == false", "x == 0", "e == Ee.ZERO", "true"]:
        if on(0.45):
            L.append("  if %s:" % cond)
            L.append("    %d [+1]  UInt  cf%d" % (off, off))
            off += 1
    if on():
        L.append("  %d [+1]  UInt  y" % off)
        L.append("    [requires: %s]" % r.choice(["this >= 0", "this != 0 || false", "false || this == 0", "true"]))
        if on(0.5):
            L.append('    [text_output: "%s"]' % r.choice(["Skip", "Emit"]))
        off += 1
    if on(0.5):
        L.append("  %d [+0]  UInt:8[]  empty" % off)
    if on(0.5):
        L.append("  %d [+1]  UInt:8[0]  none" % off)
    if on():
        L.append("  %d [+1]  Bar%s(0, Ee.ZERO)  b" % (off, tag))
        off += 1
    if on(0.4):
        L.append("  %d [+1]  Int  sg" % off)
        off += 1
    return "\n".join(L) + "\n"


def backend_reject_jobs():
    """Module sets the C++ back end rejects, with the offending attribute in the main file or in an imported file."""
    bad_module_attrs = ['[(cpp) namespace: ""]', '[(cpp) namespace: "::"]', '[(cpp) namespace: "1x"]', '[(cpp) namespace: "a::class"]',
                        '[(cpp) namespace: "a b"]', '[(cpp) bogus: 1]', '[(cpp) namespace: 3]',
                        '[(cpp) $default enum_case: ""]', '[(cpp) $default enum_case: "bogus"]',
                        '[(cpp) $default enum_case: "kCamelCase, kCamelCase"]', '[(cpp) $default enum_case: "kCamelCase,"]']
    bad_enum_attrs = ['[(cpp) $default enum_case: "snake_case"]', '[(cpp) bogus: "x"]', '[(cpp) $default enum_case: "SHOUTY_CASE, ,"]']
    bad_struct_attrs = ['[(cpp) bogus: 1]', '[(cpp) namespace: "x"]']

    def module(type_prefix, mod_attr=None, enum_attr=None, struct_attr=None, imp=None):
        L = []
        if imp:
            L.append('import "%s" as imp' % imp)
        L.append('[$default byte_order: "LittleEndian"]')
        if mod_attr:
            L.append(mod_attr)
        L += ["", "enum %sEe:" % type_prefix, "  -- a documented enum"]
        if enum_attr:
            L.append("  " + enum_attr)
        L += ["  ZERO = 0", "  ONE_TWO = 12", "", "struct %sSs:" % type_prefix]
        if struct_attr:
            L.append("  " + struct_attr)
        L.append("  0 [+2]  UInt  v")
        if imp:
            L.append("  2 [+2]  imp.ImpSs  inner")
        return "\n".join(L) + "\n"

    jobs = []
    variants = [("mod", a) for a in bad_module_attrs] + [("enum", a) for a in bad_enum_attrs] + [("struct", a) for a in bad_struct_attrs]
    for i, (where, attr) in enumerate(variants):
        kw = {"mod_attr": attr} if where == "mod" else {"enum_attr": attr} if where == "enum" else {"struct_attr": attr}
        good_imp, bad_imp = module("Imp"), module("Imp", **kw)
        jobs.append({"id": "be-main:%d" % i, "files": {"m.emb": module("Top", imp="imp.emb", **kw), "imp.emb": good_imp}, "main": "m.emb"})
        jobs.append({"id": "be-import:%d" % i, "files": {"m.emb": module("Top", imp="imp.emb"), "imp.emb": bad_imp}, "main": "m.emb"})
        if i % 4 == 0:
            jobs.append({"id": "be-both:%d" % i, "files": {"m.emb": module("Top", imp="imp.emb", **kw), "imp.emb": bad_imp}, "main": "m.emb"})
    return jobs


def driver_diff(rec):
    """Which observable differs between embossc and front end | back end (None if equal)."""
    a, b = rec["embossc"], rec["split"]
    if a["exc"] or b["exc"]:
        ka = pw.crash_key(a["exc"]) if a["exc"] else None
        kb = pw.crash_key(b["exc"]) if b["exc"] else None
        return None if ka == kb else "uncaught exception (embossc: %s, two-process route: %s)" % (ka, kb)
    rc_split = b["rc1"] if b["rc1"] != 0 else b["rc2"]
    if a["rc"] != rc_split:
        return "exit status"
    if a["stderr"] != b["stderr"]:
        return "diagnostics"
    if a["header_sha"] != b["header_sha"]:
        return "header"
    return None


OUT_KINDS = ("status", "stage", "ir_sha", "header_sha", "formatted", "formatted_nosrc")


def first_diff(a, b, canon=False):
    """Which observable differs between two records of the same job (None if equal)."""
    for k in ("status", "stage"):
        if a.get(k) != b.get(k):
            return k
    if a["status"] == "crash":
        return None if pw.crash_key(a["crash"]) == pw.crash_key(b["crash"]) else "crash"
    for k in (("ir_canon_sha", "header_canon_sha") if canon else ("ir_sha", "header_sha")):
        if a.get(k) != b.get(k):
            return k.replace("_canon", "").replace("_sha", "")
    fa, fb = a.get("formatted"), b.get("formatted")
    if canon and fa and fb:
        fa, fb = pw.canon_anon(fa), pw.canon_anon(fb)
    if fa != fb:
        return "diagnostics"
    return None


def diag_site(a, b):
    """The function that built the first message that differs."""
    ma = [m for g in (a.get("messages") or []) for m in g]
    mb = [m for g in (b.get("messages") or []) for m in g]
    for x, y in itertools.zip_longest(ma, mb):
        if x is None or y is None:
            return (x or y)["creator"]
        if (x["text"], x["loc"], x["file"]) != (y["text"], y["loc"], y["file"]):
            return x["creator"]
    return "?"


# ----------------------------------------------------------------------------
def model_cases(ctx, n, seq_obs):
    from compiler.util import error, parser_types
    from compiler.front_end import lr1, symbol_resolver
    r = ctx.rng
    cases = []

    def add(kind, inp, exp, info):
        cases.append((inp, exp, dict(info, kind=kind)))
        ctx.count("model:" + kind)

    alphabet = ['"["', '"("', "SnakeWord", "Number", '"\\n"', "Indent", "Dedent", "CamelWord", '"$default"', "é", "", "a", "ab", "B",
                '"]"', "Comment", "ShoutyWord", "\U0001F600x", "aé", "a\x00"]
    for _ in range(n):
        l = [r.choice(alphabet) for _ in range(r.choice([0, 1, 2, 3, 5, 9]))]
        add("sorted", "DSorted [%s]" % "; ".join(cstr(x) for x in l), "SList [%s]" % "; ".join(cstr(x) for x in sorted(l)), {"list": l})
    for _ in range(n):
        expected = r.sample(alphabet[:12], r.choice([0, 1, 2, 4, 7]))
        text = r.choice(["Foo", "", "\n", "it's", "3"])
        sym = r.choice(["SnakeWord", "Number", '"\\n"'])
        code = r.choice([None, None, "Custom."])
        tok = parser_types.Token(sym, text, parser_types.SourceLocation((1, 1), (1, 2)))
        orders = [list(expected), list(reversed(expected)), r.sample(expected, len(expected))]
        texts = [error.make_error_from_parse_error("m.emb", lr1.ParseError(code, 0, tok, 0, o))[0].message for o in orders]
        # all enumeration orders of the same set must give one text (the theorem); each is compared with the model
        for o, t in zip(orders, texts):
            add("expected", "DExpected [] %s %s %s [%s]" % (copt(code, cstr), cstr(text), cstr(sym), "; ".join(cstr(x) for x in o)),
                "SText %s" % cstr(t), {"order": o, "texts": texts})
    for _ in range(n // 2):
        cands = []
        for _i in range(r.choice([2, 2, 3])):
            f = r.choice(["", "a.emb", "b.emb", "m.emb"])
            sl, sc = r.choice([1, 2, 10]), r.choice([1, 3, 12])
            cands.append(symbol_resolver.FileLocation(f, parser_types.SourceLocation((sl, sc), (sl, sc + r.choice([1, 4])))))
        loc = parser_types.SourceLocation((3, 4), (3, 7))
        name = r.choice(["Foo", "x"])
        for o in (cands, list(reversed(cands))):
            g = symbol_resolver.ambiguous_name_error("m.emb", loc, name, o)
            co = "[%s]" % "; ".join("(%s, [%d; %d; %d; %d; 0; 0])" % (cstr(c.file), c.location.start.line, c.location.start.column,
                                                                       c.location.end.line, c.location.end.column) for c in o)
            add("ambiguous", "DAmbiguous %s (Some %s) %s %s" % (cstr("m.emb"), cloc(c16.loc_tuple(loc)), cstr(name), co),
                "SGroup [%s]" % "; ".join(c16.cmsg_obj(m) for m in g), {"cands": repr(o)})
    # observed sequences of compilations in fresh processes
    for obs in seq_obs:
        keys, table = {}, []

        def kid(m):
            k = m["src_sha"]
            if k not in keys:
                keys[k] = len(keys) + 1
            return keys[k]

        def key_term(m):
            return "(%s, %s)" % (cstr(m["src_sha"]), cstr(m["file"]))
        seq_terms, exp_terms = [], []
        for step in obs["steps"]:
            mods = step["modules"]
            seq_terms.append("[%s]" % "; ".join(key_term(m) for m in mods))
            for m in mods:
                k = kid(m)
                ent = "(%s, %s)" % (key_term(m), "Some (%d, %d%%nat)" % (k, obs["anon_count"][m["src_sha"]]) if m["parsed"] else "None")
                if ent not in table:
                    table.append(ent)
            bad = [i for i, m in enumerate(mods) if not m["parsed"]]
            if bad:
                exp_terms.append("COut None %d%%nat %d" % (bad[0], step["counter"]))
            else:
                exp_terms.append("COut (Some [%s]) 0%%nat %d" % ("; ".join("(%d, [%s])" % (kid(m), "; ".join(map(str, m["anon"]))) for m in mods),
                                                                  step["counter"]))
        add("state", "DSeq [%s] [%s]" % ("; ".join(table), "; ".join(seq_terms)), "SSeq [%s]" % "; ".join(exp_terms),
            {"sequence": [s["id"] for s in obs["steps"]], "observed": [{"id": s["id"], "counter": s["counter"],
                                                                         "anon": [m["anon"] for m in s["modules"]]} for s in obs["steps"]]})
    return cases


# ----------------------------------------------------------------------------
def run_embossc(ctx, cwd, import_dirs, name, outdir, seed=0, extra_env=None):
    cmd = [fw.PY, os.path.join(fw.REPO, "embossc"), "--color-output", "never", "--output-path", outdir]
    for d in import_dirs:
        cmd += ["--import-dir", d]
    cmd.append(name)
    env = dict(os.environ)
    env.update(fw.repo_env({"PYTHONHASHSEED": str(seed)}))
    p = subprocess.run(cmd, cwd=cwd, env=env, stdin=subprocess.DEVNULL, stdout=subprocess.PIPE, stderr=subprocess.PIPE, timeout=600)
    hp = os.path.join(outdir, name + ".h")
    return {"rc": p.returncode, "stderr": c16.clean_stderr(p.stderr.decode("utf-8", "replace")),
            "header": open(hp, "rb").read() if os.path.exists(hp) else None}


def run_split(ctx, cwd, import_dirs, name, outdir):
    """front end and back end as two processes (IR through a file)."""
    os.makedirs(outdir, exist_ok=True)
    env = dict(os.environ)
    env.update(fw.repo_env())
    irp = os.path.join(outdir, "ir.json")
    cmd = [fw.PY, "-m", "compiler.front_end.emboss_front_end", "--color-output", "never", "--output-file", irp]
    for d in import_dirs:
        cmd += ["--import-dir", d]
    cmd.append(name)
    p1 = subprocess.run(cmd, cwd=cwd, env=env, stdin=subprocess.DEVNULL, stdout=subprocess.PIPE, stderr=subprocess.PIPE, timeout=600)
    res = {"rc1": p1.returncode, "stderr": c16.clean_stderr(p1.stderr.decode("utf-8", "replace")), "header": None, "rc2": None}
    if p1.returncode != 0 or not os.path.exists(irp):
        return res
    hp = os.path.join(outdir, "split.h")
    p2 = subprocess.run([fw.PY, "-m", "compiler.back_end.cpp.emboss_codegen_cpp", "--color-output", "never", "--input-file", irp,
                         "--output-file", hp], cwd=cwd, env=env, stdin=subprocess.DEVNULL, stdout=subprocess.PIPE,
                        stderr=subprocess.PIPE, timeout=600)
    res["rc2"] = p2.returncode
    res["stderr"] += c16.clean_stderr(p2.stderr.decode("utf-8", "replace"))
    res["header"] = open(hp, "rb").read() if os.path.exists(hp) else None
    return res


# ----------------------------------------------------------------------------
def run(ctx):
    ctx.rule = ("modules: every testdata/*.emb (with its imports), gen_expr modules, modules with anonymous bits, fixed rejected modules "
                "(two dependency cycles, prelude-ambiguous name, syntax errors with many expected tokens and at end of input, duplicates, "
                "type and attribute errors, import cycle) and gen_fuzz inputs; each compiled under 8 PYTHONHASHSEED values in fresh "
                "processes, twice per process, in two orders; a case = one (module, configuration) comparison; non-trivial when the "
                "module passes the tokenizer; distinct by (module text, configuration)")
    ctx.trusted = ["Coq 8.16.1 kernel, vm_compute", "harness/props/c17.py, harness/pipe_worker.py, harness/c17_scan.py, harness/gen_fuzz.py",
                   "CPython 3.12 running /repo (fresh interpreters with PYTHONHASHSEED set)"]
    ctx.assumptions = ["the ast scan infers set/dict types syntactically inside one file; values reaching an iteration through an untyped "
                       "parameter are not seen (the hash-seed runs are the net)",
                       "history_irrelevant_output assumes the passes and the back end are equivariant under renaming of anonymous-field "
                       "numbers; the interleaving runs check it on the generated modules"]
    ctx.audit()
    ctx.check_theorems("EmbossV.Pipeline.Properties_C17", "Pipeline/Properties_C17.v", expect_min=20)

    # ---- replay of one recorded violation ---------------------------------------------
    if getattr(ctx, "replay_path", None):
        rp = json.load(open(ctx.replay_path, encoding="utf-8"))
        r = rp.get("replay", {})
        if r.get("kind") == "emb" and r.get("seeds"):
            job = [{"id": "replay", "files": {r["main"]: r["text"]} if r["main"] == "m.emb" else {}, "shared": True, "main": r["main"]}]
            outs = [worker_run(ctx, "replay%d" % s, job, s, ["ir"], 1)["runs"][0][0] for s in r["seeds"]]
            d = first_diff(outs[0], outs[1])
            ctx.case(("replay", r["text"]), nontrivial=True, sample={"replay": ctx.replay_path, "differs": d})
            ctx.obligation("replay: %s no longer fails" % rp.get("key"), not d)
            if d:
                ctx.violation(rp.get("key"), "%s differs between PYTHONHASHSEED=%s and %s" % (d, r["seeds"][0], r["seeds"][1]),
                              dict(r), found_input=True)
            return
        ctx.note("replay file of kind %r: running the whole check" % r.get("kind"))

    # ---- (0) the scan must equal the reviewed list --------------------------------
    scan = c17_scan.scan(fw.REPO)
    reviewed = json.load(open(os.path.join(fw.VERIF, "harness", "c17_sites.json")))["sites"]
    got = {c17_scan.site_id(s): (s["type"], s["sorted"]) for s in scan}
    want = {s["id"]: (s["type"], s["sorted"]) for s in reviewed}
    new_sites = sorted(k for k in got if k not in want or got[k] != want[k])
    stale_sites = sorted(k for k in want if k not in got)
    ctx.obligation("scan: %d iteration/state sites of /repo/compiler equal the reviewed list" % len(got), not new_sites and not stale_sites)
    ctx.extra["scan_sites"] = len(got)
    for cls in sorted({s["class"] for s in reviewed}):
        ctx.count("site-class:" + cls, sum(1 for s in reviewed if s["class"] == cls))
    attributed = set()          # new sites explained by a concrete seed-dependent output

    # ---- jobs ---------------------------------------------------------------------
    thorough = ctx.thorough()
    jobs = module_jobs(ctx, n_gen=(40 if thorough else 10), n_rej=(400 if thorough else 60))
    by_id = {j["id"]: j for j in jobs}
    seeds = SEEDS_FIXED + [ctx.rng.randrange(5, 4000) for _ in range(3)]
    want_out = ["ir", "state", "lr1"]
    order_b = list(reversed(jobs))
    probe_ids = [j for j in jobs if j["id"].startswith(("anon:", "corpus:", "rej:syntax", "gen_expr:"))]
    seq_orders = []
    for k in range(3 if thorough else 2):
        sel = ctx.rng.sample(probe_ids, min(len(probe_ids), 12))
        sel = sel + ctx.rng.sample(sel, min(4, len(sel)))          # repeats: cache hits
        seq_orders.append(sel)

    tasks = {}
    with concurrent.futures.ThreadPoolExecutor(max_workers=min(fw.NPROC, 16)) as ex:
        for s in seeds:
            tasks[("seed", s)] = ex.submit(worker_run, ctx, "seed%d" % s, jobs, s, want_out, 2 if s == seeds[0] else 1)
        tasks[("order", "b")] = ex.submit(worker_run, ctx, "orderb", order_b, seeds[0], ["ir"], 1)
        tasks[("probe", 0)] = ex.submit(worker_run, ctx, "probe", probe_ids, seeds[0], ["modules", "state"], 1)
        for k, sel in enumerate(seq_orders):
            tasks[("seq", k)] = ex.submit(worker_run, ctx, "seq%d" % k, sel, seeds[1 + k], ["modules", "state"], 1)
        # command line drivers: embossc vs emboss_front_end | emboss_codegen_cpp (IR through a file), in worker processes
        drv_jobs = [{"id": "drv-corpus:" + n, "files": {}, "shared": True, "main": n} for n in sorted(testdata_files())]
        for i in range(60 if thorough else 24):
            drv_jobs.append({"id": "drv-falsy:%d" % i, "files": {"m.emb": falsy_module(ctx.rng, "")}, "main": "m.emb"})
        drv_jobs += [dict(j, id="drv-" + j["id"]) for j in jobs if j["id"].startswith(("gen_expr:", "anon:", "rej:"))]
        drv_jobs += backend_reject_jobs()
        n_drv = 8
        shutil.rmtree(os.path.join(ctx.bdir, "drivers"), ignore_errors=True)
        for w in range(n_drv):
            tasks[("drivers", w)] = ex.submit(worker_run, ctx, "drv%d" % w, drv_jobs[w::n_drv], seeds[0], [], 1, "drivers")
        sn_jobs = same_name_jobs()
        tasks[("same", "seq")] = ex.submit(worker_run, ctx, "same_seq", sn_jobs + list(reversed(sn_jobs)), seeds[0], ["ir"], 1)
        for i, j in enumerate(sn_jobs):
            tasks[("same", i)] = ex.submit(worker_run, ctx, "same_%d" % i, [j], seeds[0], ["ir"], 1)
        table_seeds = [0, 3, 4, 11] if thorough else [0, 3]
        for ts in table_seeds:
            tasks[("tables", ts)] = ex.submit(worker_run, ctx, "tables%d" % ts, [], ts, ["parser_tables"], 1)
        res = {k: f.result() for k, f in tasks.items()}

    base = res[("seed", seeds[0])]
    base_run = {r["id"]: r for r in base["runs"][0]}

    shared_files = testdata_files()

    def main_text(job):
        return job["files"].get(job["main"], shared_files.get(job["main"], ""))

    def report(key, desc, job, detail):
        ctx.violation(key, desc, dict(kind="emb", main=job["main"], text=main_text(job),
                                      imports_available="testdata/*.emb of /repo" if job.get("shared") else None, **detail),
                      found_input=True)

    # ---- (1) hash seeds -----------------------------------------------------------
    n_cmp = 0
    hs_bad = {}
    for s in seeds[1:]:
        run = {r["id"]: r for r in res[("seed", s)]["runs"][0]}
        for jid, a in base_run.items():
            b = run[jid]
            n_cmp += 1
            ctx.case(("seed", jid, s), nontrivial=not (a["status"] == "rejected" and a["messages"] and a["messages"][0]
                                                      and a["messages"][0][0]["creator"] in ("_tokenize_line", "tokenize")),
                     sample={"module": jid, "seeds": [seeds[0], s], "outcome": a["status"]})
            d = first_diff(a, b)
            if d:
                site = diag_site(a, b) if d == "diagnostics" else d
                if d != "diagnostics" and new_sites:
                    site = new_sites[0].split("::")[1]
                hs_bad.setdefault(site, []).append((jid, s, d, a, b))
    for jid, a in base_run.items():
        ctx.count("outcome:" + a["status"] + (":" + a["stage"] if a["status"] != "ok" else ""))
    ctx.obligation("hash seeds: %d modules x %d seeds, IR/header/diagnostics byte-identical" % (len(base_run), len(seeds)), not hs_bad)
    for site, lst in sorted(hs_bad.items()):
        lst.sort(key=lambda t: len(main_text(by_id[t[0]])))
        jid, s, d, a, b = lst[0]
        for k in new_sites:
            if site in k:
                attributed.add(k)
        report("hashseed-dependent-output:" + site,
               "%s of %s differs between PYTHONHASHSEED=%d and %d (%d module/seed pairs)" % (d, jid, seeds[0], s, len(lst)),
               by_id[jid], {"seeds": [seeds[0], s], "differs": d,
                            "output_a": (a.get("formatted") or "")[:1500], "output_b": (b.get("formatted") or "")[:1500]})
    # F11: lr1 on a cyclic grammar
    lr = {s: res[("seed", s)].get("lr1") for s in seeds}
    lr_norm = {s: json.dumps({k: (v.get("exception", {}).get("exc") or v) for k, v in (x or {}).items()}, sort_keys=True)
               for s, x in lr.items()}
    same = len(set(lr_norm.values())) == 1
    n_v0 = len(ctx.violations)
    if not same:
        ctx.violation("hashseed-dependent-output:Grammar.parser",
                      "lr1.Grammar('S', [S -> A, S -> a, A -> S]).parser() depends on PYTHONHASHSEED: " +
                      "; ".join("%s: %s" % (s, lr_norm[s][:120]) for s in seeds[:6]),
                      dict(kind="call", call="lr1.Grammar('S', [S -> A, S -> a, A -> S]).parser()", results={str(s): lr[s] for s in seeds}),
                      found_input=True)
    ctx.obligation("hash seeds: lr1.Grammar(...).parser() on three small grammars gives one result under all %d seeds "
                   "(apart from a listed known finding)" % len(seeds), len(ctx.violations) == n_v0)
    tabs = {ts: (res[("tables", ts)].get("expression_parser_sha"), res[("tables", ts)].get("module_parser_sha")) for ts in table_seeds}
    tab_same = len(set(tabs.values())) == 1 and None not in tabs[table_seeds[0]]
    ctx.obligation("hash seeds: LR(1) tables generated by make_parser (expression and module grammar) identical under seeds %s" % table_seeds,
                   tab_same)
    for ts in table_seeds:
        ctx.case(("tables", ts), nontrivial=True)
    if not tab_same:
        ctx.violation("hashseed-dependent-output:make_parser", "make_parser.build_*_parser() tables differ between hash seeds %s" % table_seeds,
                      dict(kind="call", call="generate_cached_parser.as_py_source(make_parser.build_module_parser(), ...)",
                           sha={str(k): v for k, v in tabs.items()}), found_input=True)

    # ---- (2) repetition in one process ---------------------------------------------
    rep_bad = []
    second = {r["id"]: r for r in base["runs"][1]}
    for jid, a in base_run.items():
        d = first_diff(a, second[jid])
        ctx.case(("repeat", jid), nontrivial=True)
        if d:
            rep_bad.append((jid, d, a, second[jid]))
    ctx.obligation("repetition: %d modules compiled twice in one process, byte-identical" % len(base_run), not rep_bad)
    if rep_bad:
        rep_bad.sort(key=lambda t: len(main_text(by_id[t[0]])))
        jid, d, a, b = rep_bad[0]
        report("repeat-dependent-output:" + d, "%s of %s differs between the first and the second compilation in one process (%d modules)"
               % (d, jid, len(rep_bad)), by_id[jid], {"differs": d, "output_a": (a.get("formatted") or "")[:1500],
                                                      "output_b": (b.get("formatted") or "")[:1500]})

    # ---- (3) interleaving with other modules ---------------------------------------
    other = {r["id"]: r for r in res[("order", "b")]["runs"][0]}
    il_bad = []
    renumbered = 0
    for jid, a in base_run.items():
        b = other[jid]
        ctx.case(("order", jid), nontrivial=True)
        if first_diff(a, b):
            renumbered += 1
        d = first_diff(a, b, canon=True)
        if d:
            il_bad.append((jid, d, a, b))
    ctx.count("interleaving:renumbered-only", renumbered - len(il_bad))
    ctx.obligation("interleaving: %d modules compiled in two orders, equal up to the numbering of anonymous fields" % len(base_run), not il_bad)
    if il_bad:
        il_bad.sort(key=lambda t: len(main_text(by_id[t[0]])))
        jid, d, a, b = il_bad[0]
        report("history-dependent-output:" + d, "%s of %s depends on what was compiled before in the process, beyond anonymous-field numbering "
               "(%d modules)" % (d, jid, len(il_bad)), by_id[jid],
               {"differs": d, "compiled_before": [j["id"] for j in order_b[: [j["id"] for j in order_b].index(jid)]][-5:],
                "output_a": (a.get("formatted") or "")[:1500], "output_b": (b.get("formatted") or "")[:1500]})

    # ---- (3b) same file names, different contents: in one process vs each in a fresh process
    sn_seq = res[("same", "seq")]["runs"][0]
    sn_bad = []
    for pos, r in enumerate(sn_seq):
        i = int(r["id"].split(":")[1])
        fresh = res[("same", i)]["runs"][0][0]
        ctx.case(("same-name", pos), nontrivial=True)
        d = first_diff(fresh, r, canon=True)
        if d:
            sn_bad.append((pos, i, d, fresh, r))
    ctx.obligation("same names, different contents: %d compilations in one process equal the fresh-process results" % len(sn_seq), not sn_bad)
    if sn_bad:
        pos, i, d, fresh, r = sn_bad[0]
        job = sn_jobs[i]
        ctx.violation("history-dependent-output:" + d,
                      "%s of a module differs from the fresh-process result after modules with the SAME file names but other contents "
                      "were compiled in the process (step %d of the sequence)" % (d, pos),
                      dict(kind="emb-sequence", main="m.emb", files=job["files"],
                           compiled_before=[dict(x["files"]) for x in (sn_jobs + list(reversed(sn_jobs)))[max(0, pos - 3):pos]],
                           output_fresh=(fresh.get("formatted") or fresh.get("header_canon_sha") or "")[:1500],
                           output_in_sequence=(r.get("formatted") or r.get("header_canon_sha") or "")[:1500]), found_input=True)

    # ---- (4) the state model ---------------------------------------------------------
    probe = res[("probe", 0)]["runs"][0]
    anon_count = {}
    prev_counter = 0
    for r in probe:
        for m in r.get("modules") or []:
            if m["parsed"]:
                anon_count.setdefault(m["src_sha"], len(m["anon"]))
    seq_obs = []
    for k, sel in enumerate(seq_orders):
        steps = []
        ok = True
        for r in res[("seq", k)]["runs"][0]:
            if r["status"] == "crash" or r.get("modules") is None:
                ok = False
                break
            steps.append({"id": r["id"], "modules": r["modules"], "counter": r["state"]["counter"]})
            for m in r["modules"]:
                if m["parsed"] and m["src_sha"] not in anon_count:
                    anon_count[m["src_sha"]] = len(m["anon"])
        if ok:
            seq_obs.append({"steps": steps, "anon_count": anon_count})
        else:
            ctx.count("state-sequence:skipped-crash")
    mc = model_cases(ctx, 60 if thorough else 25, seq_obs)
    runner = fw.CoqCases(ctx, "c17", HEADER, "run_c17", "c17_res_eqb", "c17_call", "c17_res", shard=60, timeout=1500)
    bad = runner.run(mc)
    for a, b, info in mc:
        ctx.case(("model", a), nontrivial=True)
    ctx.obligation("correspondence: %d calls (sorted, expected-token text, ambiguous_name_error, %d observed compile sequences) agree with "
                   "the model" % (len(mc), len(seq_obs)), not bad)
    kinds = {}
    for idx, out in bad:
        kinds.setdefault(mc[idx][2]["kind"], []).append((idx, out))
    for kind, lst in sorted(kinds.items()):
        idx, out = lst[0]
        inp, exp, info = mc[idx]
        if kind == "expected" and len(set(info["texts"])) > 1:
            # the implementation's text depends on the enumeration order of expected_tokens: look for a real input
            continue    # reported through the hash-seed runs above when reachable; otherwise below
        ctx.violation("model-mismatch:" + kind, "the model of %s disagrees with the implementation on %d cases" % (kind, len(lst)),
                      dict(kind="correspondence", correspondence="Pipeline.Exec.run_c17 vs compiler (%s)" % kind, call=inp[:3000],
                           python=exp[:3000], model_outputs=out[:3000], info={k: str(v)[:1500] for k, v in info.items()}),
                      found_input=False)
    order_dep = [info for _, _, info in mc if info["kind"] == "expected" and len(set(info["texts"])) > 1]
    if order_dep and not any(k.startswith("make_error_from_parse_error") for k in hs_bad):
        ctx.violation("hashseed-dependent-output:make_error_from_parse_error",
                      "make_error_from_parse_error's text depends on the enumeration order of expected_tokens (no module in this run "
                      "exposed it across the hash seeds)", dict(kind="correspondence", theorem="order_irrelevant_expected_tokens",
                                                                orders=order_dep[0]["texts"]), found_input=False)

    # ---- (5) import directories in different orders, (6) two processes vs embossc ----
    wd = os.path.join(ctx.bdir, "dirs")
    shutil.rmtree(wd, ignore_errors=True)
    imported = "struct Imp:\n  0 [+1]  bits:\n    0 [+4]  UInt  lo\n  1 [+1]  UInt  v\n"
    mains = {"ok.emb": 'import "imp.emb" as imp\nstruct Top:\n  0 [+2]  imp.Imp  a\n  2 [+1]  bits:\n    0 [+1]  Flag  f\n',
             "bad.emb": 'import "imp.emb" as imp\nstruct Top:\n  0 [+2]  imp.Nope  a\n  let x = 3 3\n'}
    dirs = []
    for i in range(3):
        d = os.path.join(wd, "d%d" % i)
        os.makedirs(d)
        dirs.append(d)
        for n, t in list(mains.items()) + [("imp.emb", imported)]:
            open(os.path.join(d, n), "w").write(t)
    perms = list(itertools.permutations(dirs))
    if not thorough:
        perms = [perms[0], perms[3], perms[5]]
    cli_tasks = {}
    td = sorted(n for n in testdata_files() if not n.endswith(("imported.emb", "imported_genfiles.emb")))
    split_sample = ctx.rng.sample(td, 8 if thorough else 3)
    with concurrent.futures.ThreadPoolExecutor(max_workers=min(fw.NPROC, 16)) as ex:
        for name in mains:
            for pi, perm in enumerate(perms):
                cli_tasks[("perm", name, pi)] = ex.submit(run_embossc, ctx, wd, list(perm), name, os.path.join(wd, "out_%s_%d" % (name, pi)))
        for name in split_sample:
            cli_tasks[("cli", name)] = ex.submit(run_embossc, ctx, fw.REPO, [fw.REPO], name, os.path.join(wd, "cli_" + name.replace("/", "_")))
            cli_tasks[("split", name)] = ex.submit(run_split, ctx, fw.REPO, [fw.REPO], name, os.path.join(wd, "split_" + name.replace("/", "_")))
        cres = {k: f.result() for k, f in cli_tasks.items()}
    perm_bad = []
    for name in mains:
        ref = cres[("perm", name, 0)]
        for pi in range(1, len(perms)):
            o = cres[("perm", name, pi)]
            ctx.case(("perm", name, pi), nontrivial=True)
            if (o["rc"], o["stderr"], o["header"]) != (ref["rc"], ref["stderr"], ref["header"]):
                perm_bad.append((name, pi))
    ctx.obligation("import dirs: %d orders of three directories holding identical files, identical exit status/stderr/header" % len(perms),
                   not perm_bad)
    if perm_bad:
        name, pi = perm_bad[0]
        ctx.violation("import-dir-order-dependent-output", "embossc output for %s depends on the order of --import-dir options" % name,
                      dict(kind="cli", files=dict(mains, **{"imp.emb": imported}), main=name,
                           orders=[[os.path.basename(d) for d in perms[0]], [os.path.basename(d) for d in perms[pi]]],
                           stderr_a=cres[("perm", name, 0)]["stderr"][:1000], stderr_b=cres[("perm", name, pi)]["stderr"][:1000]),
                      found_input=True)
    split_bad = []
    for name in split_sample:
        a, b = cres[("cli", name)], cres[("split", name)]
        ctx.case(("split", name), nontrivial=True)
        if a["rc"] != 0:
            # rejected module: the front end process must reject it with the same diagnostics, no header either way
            if b["rc1"] != a["rc"] or b["stderr"] != a["stderr"] or a["header"] is not None or b["header"] is not None:
                split_bad.append(name)
        elif a["header"] is None or a["header"] != b["header"] or b["rc2"] != 0:
            split_bad.append(name)
        # and the fresh embossc process agrees with the in-process library run up to anonymous numbering
        lib = base_run.get("corpus:" + name)
        if lib and lib["status"] == "ok" and a["header"] is not None:
            h = hashlib.sha1(pw.canon_anon(a["header"].decode("utf-8")).encode("utf-8")).hexdigest()
            if h != lib["header_canon_sha"]:
                split_bad.append(name + " (embossc vs library)")
    ctx.obligation("process split: front end | back end in two processes produce embossc's header (%d modules)" % len(split_sample),
                   not split_bad)
    if split_bad:
        ctx.violation("process-split-differs", "emboss_front_end | emboss_codegen_cpp and embossc produce different headers for %s" % split_bad[0],
                      dict(kind="cli", main=split_bad[0], import_dir="/repo"), found_input=True)

    # ---- (7) the drivers on generated module sets: output AND diagnostics of both routes ---------------
    drv_by_id = {j["id"]: j for j in drv_jobs}
    drv_bad = {}
    n_drv_cmp = 0
    for w in range(n_drv):
        for rec in res[("drivers", w)]["drivers"]:
            n_drv_cmp += 1
            fam = rec["id"].split(":")[0]
            a = rec["embossc"]
            ctx.count("drivers:%s:%s" % (fam, "accepted" if a["rc"] == 0 else "rejected" if a["exc"] is None else "crash"))
            ctx.case(("drivers", rec["id"], drv_by_id[rec["id"]]["files"].get("m.emb", "")), nontrivial=True)
            d = driver_diff(rec)
            if d:
                drv_bad.setdefault(d.split(" (")[0], []).append((rec, d))
    be_recs = [rec for w in range(n_drv) for rec in res[("drivers", w)]["drivers"] if rec["id"].startswith("be-")]
    be_reached = sum(1 for rec in be_recs if rec["embossc"]["rc"] == 1 and "Syntax error" not in rec["embossc"]["stderr"]
                     and "Imports must" not in rec["embossc"]["stderr"])
    ctx.obligation("drivers: %d of %d back-end rejection sets are well formed and rejected after parsing" % (be_reached, len(be_recs)),
                   be_reached >= 0.8 * len(be_recs))
    if be_reached < 0.8 * len(be_recs):
        ctx.violation("harness:backend-reject-generator", "the back-end rejection module sets no longer reach the back end",
                      dict(kind="harness", reached=be_reached, total=len(be_recs)), found_input=False)
    n_v = len(ctx.violations)
    for kind, lst in sorted(drv_bad.items()):
        lst.sort(key=lambda t: sum(len(v) for v in drv_by_id[t[0]["id"]]["files"].values()) or 10 ** 9)
        rec, d = lst[0]
        job = drv_by_id[rec["id"]]
        ctx.violation("process-split-differs:" + kind.replace(" ", "-"),
                      "embossc and emboss_front_end | emboss_codegen_cpp differ in %s on %s (%d module sets)" % (d, rec["id"], len(lst)),
                      dict(kind="cli-set", main=job["main"], files=job["files"] or {"(testdata)": job["main"]},
                           embossc={k: (v if k != "stderr" else v[:1500]) for k, v in rec["embossc"].items()},
                           two_process={k: (v if k != "stderr" else v[:1500]) for k, v in rec["split"].items()}),
                      found_input=True)
    ctx.obligation("drivers: embossc = front end | back end on %d module sets (testdata, falsy-value modules, gen_expr, anonymous bits, "
                   "rejected modules, back-end rejections in main and imported files): exit status, stderr text, header" % n_drv_cmp,
                   len(ctx.violations) == n_v)

    # ---- fail closed on the scan -------------------------------------------------------
    for k in new_sites:
        if k in attributed:
            continue
        ctx.violation("c17-scan:new-site", "iteration/state site not in the reviewed list: %s (%d new)" % (k, len(new_sites)),
                      dict(kind="tie", tie="harness/c17_scan.py result vs harness/c17_sites.json", new_sites=new_sites[:20],
                           stale_sites=stale_sites[:20]), found_input=False)
        break
    if stale_sites and not new_sites:
        ctx.violation("c17-scan:stale-site", "reviewed site no longer present: %s" % stale_sites[0],
                      dict(kind="tie", tie="harness/c17_scan.py result vs harness/c17_sites.json", stale_sites=stale_sites[:20]),
                      found_input=False)
