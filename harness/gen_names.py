"""Generator of .emb modules that stress the C++ identifiers the back end declares (C07),
plus helpers shared with C19."""
import os
import re
import subprocess

from harness import fw

RUNTIME_INCLUDES = ["runtime/cpp/emboss_cpp_util.h", "runtime/cpp/emboss_prelude.h",
                    "runtime/cpp/emboss_enum_view.h", "runtime/cpp/emboss_text_util.h"]
STANDARDS = ["c++11", "c++14", "c++17"]

_MACROS = {}


def system_macros(stds=("c++14",)):
    """Object- and function-like macro names visible after including what a generated header includes
    (asked from the preprocessor of the C++ environment; nothing is copied by hand)."""
    key = tuple(stds)
    if key in _MACROS:
        return _MACROS[key]
    src = "#include <stdint.h>\n#include <string.h>\n#include <algorithm>\n#include <type_traits>\n#include <utility>\n" + \
          "".join('#include "%s"\n' % h for h in RUNTIME_INCLUDES)
    names = set()
    for std in stds:
        p = subprocess.run(["g++", "-dM", "-E", "-x", "c++", "-std=" + std, "-I", fw.REPO, "-"], input=src,
                           stdout=subprocess.PIPE, stderr=subprocess.PIPE, text=True, timeout=120)
        if p.returncode != 0:
            raise RuntimeError("g++ -dM -E failed: " + p.stderr[-1000:])
        for line in p.stdout.splitlines():
            m = re.match(r"#define\s+([A-Za-z_][A-Za-z0-9_]*)", line)
            if m:
                names.add(m.group(1))
    _MACROS[key] = names
    return names


# ------------------------------------------------------------------------------
# module generator
# ------------------------------------------------------------------------------

CPP_KEYWORDS = """alignas alignof and and_eq asm auto bitand bitor bool break case catch char char16_t char32_t class
compl const constexpr const_cast continue decltype default delete do double dynamic_cast else enum explicit export
extern false float for friend goto if inline int long mutable namespace new noexcept not not_eq nullptr operator or
or_eq private protected public register reinterpret_cast return short signed sizeof static static_assert static_cast
struct switch template this thread_local throw true try typedef typeid typename union unsigned using virtual void
volatile wchar_t while xor xor_eq""".split()    # ISO C++11/14/17 [lex.key] + alternative tokens (the specification side)

FIXED_MEMBER_NAMES = ["Ok", "Storage", "Equals", "IsComplete", "CopyFrom", "IsAggregate", "SizeIsKnown", "BackingStorage",
                      "TryToCopyFrom", "UncheckedEquals", "SizeInBytes", "IntrinsicSizeInBytes", "MaxSizeInBytes",
                      "WriteToTextStream", "UpdateFromTextStream"]

SNAKE_RE = re.compile(r"[a-z][a-z_0-9]*\Z")
CAMEL_RE = re.compile(r"[A-Z][a-zA-Z0-9]*[a-z][a-zA-Z0-9]*\Z")
SHOUTY_RE = re.compile(r"[A-Z][A-Z_0-9]*[A-Z_][A-Z_0-9]*\Z")


def snake_to_camel_py(name):
    """Independent re-implementation (checked against the Coq model on every run)."""
    out, start = [], True
    for ch in name:
        if ch == "_":
            start = True
            continue
        out.append(ch.upper() if start else ch.lower())
        start = False
    return "".join(out)


class NamesModule:
    """A module that exercises nested/inline types, parameters, imports, namespaces, virtual fields,
    [requires], conditions, enum_case, and awkward identifier shapes.  `p_bad` scales the probability
    of the features that are known or suspected to produce ill-formed C++."""

    def __init__(self, rng, reserved, macros, p_bad=1.0, force=None):
        self.r = rng
        self.reserved = set(reserved)
        self.macros = set(macros)
        self.p_bad = p_bad
        self.force = force            # name of one bad feature to include for sure (targeted rediscovery)
        self.features = set()
        self.scopes = []
        self.structs = []
        self.enums = []
        self.type_names = set()
        self.files = {}
        self.build()

    # ---- helpers ------------------------------------------------------------
    def bad(self, feature, p):
        if self.force == feature:
            self.force = None
            self.features.add(feature)
            return True
        if self.force is None and self.r.random() < p * self.p_bad:
            self.features.add(feature)
            return True
        return False

    def ok_name(self, s):
        return s not in self.reserved and s not in self.macros

    def snake(self, used):
        r = self.r
        for _ in range(300):
            k = r.random()
            if k < 0.55:
                s = "".join(r.choice("abcdefghijklmnopqrstuvwxyz") for _ in range(r.randint(1, 5)))
                if r.random() < 0.5:
                    s += "_" + "".join(r.choice("abcdefghijklmnopqrstuvwxyz0123456789") for _ in range(r.randint(1, 4)))
            elif k < 0.7:
                s = r.choice("abcxyz") + r.choice(["_", "__", "_1", "1", "1_", "_a_", "__b", "_1_2", "9z"]) + r.choice(["", "a", "b1", "_"])
            elif k < 0.85:
                kw = r.choice(CPP_KEYWORDS)
                s = r.choice([kw + "_", kw + "1", "x" + kw, kw + "_" + kw, "my_" + kw])
            else:
                s = r.choice(["value", "size", "data", "ok", "read", "write", "view", "storage", "type", "std", "emboss",
                              "support", "k", "t", "e", "os", "has", "has1", "generic", "make", "other", "result",
                              "buffer", "length", "count", "self", "it", "end", "begin", "first", "second"])
            if SNAKE_RE.match(s) and s not in used and self.ok_name(s) and not s.startswith("emboss_reserved") \
                    and not s.startswith("has_") and not s.endswith("_"):
                used.add(s)
                return s
        raise RuntimeError("no fresh snake name")

    def snake_trailing(self, used):
        # names that end with '_' but collide with nothing generated
        for _ in range(100):
            s = self.snake(set()) + "_"
            if s not in used and self.ok_name(s) and s not in ("backing_", "parameters_initialized_"):
                used.add(s)
                return s
        raise RuntimeError("no fresh name")

    def camel(self):
        r = self.r
        for _ in range(300):
            k = r.random()
            if k < 0.7:
                s = "".join(r.choice("ABCDEFGHKLMNPQRSTVWXYZ") + "".join(r.choice("abcdefghijklmnopqrstuvwxyz0123456789")
                                                                       for _ in range(r.randint(1, 4)))
                            for _ in range(r.randint(1, 2)))
            else:
                s = r.choice(["Viewer", "Writers", "Gen", "Mak", "Maker", "Aligned", "AlignedThing", "Std", "Emboss", "Support",
                              "Traits", "Enum", "EnumTrait", "Type", "Value", "Maybe", "Prelude", "Uint", "Flagx", "Inner",
                              "Outer", "T1", "Tt", "Okay", "Storages", "Ab1", "A1b"])
            if CAMEL_RE.match(s) and s not in self.type_names and self.ok_name(s) and not s.startswith("EmbossReserved") \
                    and not s.startswith(("Generic", "Make")) and not s.endswith(("View", "Writer")):
                self.type_names.add(s)
                return s
        raise RuntimeError("no fresh CamelCase name")

    def shouty(self, used, plain=False):
        r = self.r
        for _ in range(300):
            if plain or r.random() < 0.6:
                s = "_".join("".join(r.choice("ABCDEFGHIJKLMNOPQRSTUVWXYZ") for _ in range(r.randint(2, 4)))
                             for _ in range(r.randint(1, 3)))
            else:
                s = r.choice("ABCXYZ") + r.choice(["A", "B1", "_A", "_B_C", "A_B1", "AA_1A", "Z9_X"])
            if SHOUTY_RE.match(s) and s not in used and self.ok_name(s) and not s.startswith("EMBOSS_RESERVED"):
                used.add(s)
                return s
        raise RuntimeError("no fresh SHOUTY name")

    # ---- enums --------------------------------------------------------------
    def make_enum(self, name, default_case_outer, indent, big=False):
        """Returns (lines, enum description).  All names have letter boundaries unless a bad feature fires."""
        r = self.r
        used = set()
        n = r.randint(1, 5)
        vals = []
        dc = r.choice([None, None, "kCamelCase", "SHOUTY_CASE", "SHOUTY_CASE, kCamelCase"])
        value = 0
        for i in range(n):
            nm = self.shouty(used, plain=True)
            value += r.choice([0, 1, 1, 2, 5]) if i else r.choice([0, 1, 3])
            attr = r.choice([None, None, None, "kCamelCase", "kCamelCase, SHOUTY_CASE"])
            vals.append([nm, value, attr])
        if big:
            vals.append([self.shouty(used, plain=True), 2**63 + r.randint(0, 5), None])
            vals.append([self.shouty(used, plain=True), 2**64 - 1, None])
        eff = lambda a: a if a is not None else (dc if dc is not None else default_case_outer)
        if self.bad("enum-case-collision", 0.03):
            base = r.choice("ABCXYZ") + r.choice("ABCXYZ")
            a, b = base + "_1", base + "1"
            if a not in used and b not in used:
                vals.append([a, value + 1, "kCamelCase"])
                vals.append([b, value + 2, "kCamelCase"])
        if self.bad("enum-name-is-macro", 0.02):
            cands = sorted(m for m in self.macros if SHOUTY_RE.match(m) and m not in self.reserved
                           and not m.startswith(("EMBOSS_", "_")) and m not in used)
            if cands:
                vals.append([r.choice(cands), value + 3, None])
        lines = ["%senum %s:" % (indent, name)]
        if dc is not None:
            lines.append('%s  [(cpp) $default enum_case: "%s"]' % (indent, dc))
        for nm, v, attr in vals:
            l = "%s  %s = %d" % (indent, nm, v)
            if attr is not None:
                l += '  [(cpp) enum_case: "%s"]' % attr
            lines.append(l)
        desc = dict(name=name, values=[(nm, v, eff(attr)) for nm, v, attr in vals])
        self.scopes.append(dict(kind="enum", where=name, values=desc["values"]))
        return lines, desc

    # ---- structs ------------------------------------------------------------
    def make_struct(self, name, path, depth, default_case, avail_enums, avail_structs, indent="", want_params=False):
        """avail_enums: [(emboss reference text, enum desc, cpp path)], avail_structs: [(ref text, struct desc)]
        Returns (lines, struct description)."""
        r = self.r
        used = set()
        lines = []
        fields = []           # for the class scope
        drv_fields = []       # for the driver
        nested_enums, nested_structs = [], []
        sub_lines = []
        my_enums = list(avail_enums)
        my_structs = list(avail_structs)
        dc = default_case
        attr_lines = []
        if r.random() < 0.15:
            dc = r.choice(["kCamelCase", "SHOUTY_CASE, kCamelCase"])
            attr_lines.append('%s  [(cpp) $default enum_case: "%s"]' % (indent, dc))
        # nested types first
        if depth < 2 and r.random() < 0.45:
            for _ in range(r.choice([1, 1, 2])):
                if r.random() < 0.6:
                    en = self.camel()
                    if self.bad("nested-enum-named-like-member", 0.02):
                        en = r.choice(FIXED_MEMBER_NAMES)
                    if self.bad("nested-type-named-like-generated", 0.015) and nested_structs:
                        en = nested_structs[0] + r.choice(["View", "Writer"])
                    if en in nested_enums or en in nested_structs:
                        continue
                    el, ed = self.make_enum(en, dc, indent + "  ")
                    ed["cpp"] = path + [name, en]
                    self.enums.append(ed)
                    sub_lines += el
                    nested_enums.append(en)
                    my_enums.append((en, ed))
                else:
                    sn = self.camel()
                    sl, sd = self.make_struct(sn, path + [name], depth + 1, dc, my_enums, [], indent + "  ")
                    sub_lines += sl
                    nested_structs.append(sn)
                    if not sd["params"]:
                        my_structs.append((sn, sd))
        # parameters
        params = []
        if want_params or depth > 0 or r.random() < 0.4:
            if want_params or r.random() < (0.35 if depth > 0 else 0.6):
                for _ in range(r.choice([1, 1, 2])):
                    pn = self.snake(used)
                    if self.bad("parameter-named-backing", 0.01):
                        pn = "backing" if "backing" not in used else pn
                        used.add(pn)
                    if my_enums and r.random() < 0.4:
                        ref, ed = r.choice(my_enums)
                        params.append(dict(name=pn, type=ref, enum=ed))
                    else:
                        params.append(dict(name=pn, type="UInt:%d" % r.choice([4, 8, 16, 32]), enum=None))
        head = "%sstruct %s%s:" % (indent, name, ("(" + ", ".join("%s: %s" % (p["name"], p["type"]) for p in params) + ")") if params else "")
        # physical fields
        off = 0
        body = []
        int_fields = []      # names of unsigned integer fields usable in expressions: (name, bits)
        enum_fields = []     # (name, enum desc)
        n_phys = r.randint(1, 5)
        tag = None
        for i in range(n_phys):
            fname = None
            if self.bad("field-has-prefix-collision", 0.015) and fields:
                cand = "has_" + fields[0]["name"]
                if cand not in used:
                    fname = cand
                    used.add(cand)
            if fname is None and self.bad("field-named-private-member", 0.015):
                cand = r.choice(["backing_"] + ([params[0]["name"] + "_"] if params else []) +
                                (["parameters_initialized_"] if params else []))
                if cand not in used:
                    fname = cand
                    used.add(cand)
            if fname is None and self.bad("field-name-is-macro", 0.01):
                cands = sorted(m for m in self.macros if SNAKE_RE.match(m) and m not in self.reserved and m not in used
                               and not m.startswith("_"))
                if cands:
                    fname = r.choice(cands)
                    used.add(fname)
            if fname is None:
                fname = self.snake_trailing(used) if (r.random() < 0.08 and not params) else self.snake(used)
            k = r.random()
            req = ""
            requires = False
            if k < 0.4 or i == 0:
                nbytes = r.choice([1, 1, 2, 4, 8, 3])
                ty = r.choice(["UInt", "UInt", "Int", "UInt:%d" % (nbytes * 8)]) if i else "UInt"
                if i == 0:
                    nbytes = r.choice([1, 2, 4, 4, 8])
                cls = "int" if ty == "Int" else "uint"
                if r.random() < 0.25:
                    requires = True
                    req = "    [requires: this %s %d]" % (r.choice(["<", ">", "!=", "<=", ">="]), r.randint(0, 100))
                body.append("%s  %d [+%d]  %s  %s%s" % (indent, off, nbytes, ty, fname, ""))
                if req:
                    body.append(indent + req)
                if cls == "uint":
                    int_fields.append((fname, nbytes * 8))
                    if tag is None:
                        tag = (fname, nbytes * 8)
                drv_fields.append(dict(name=fname, cls=cls, bits=nbytes * 8))
                off += nbytes
            elif k < 0.5:
                nbytes = r.choice([1, 2, 4])
                body.append("%s  %d [+%d]  Bcd  %s" % (indent, off, nbytes, fname))
                drv_fields.append(dict(name=fname, cls="uint"))
                off += nbytes
            elif k < 0.57:
                nbytes = r.choice([4, 8])
                body.append("%s  %d [+%d]  Float  %s" % (indent, off, nbytes, fname))
                drv_fields.append(dict(name=fname, cls="float"))
                off += nbytes
            elif k < 0.7 and my_enums:
                ref, ed = r.choice(my_enums)
                nbytes = r.choice([1, 2, 4, 8])
                body.append("%s  %d [+%d]  %s  %s" % (indent, off, nbytes, ref, fname))
                drv_fields.append(dict(name=fname, cls="enum"))
                enum_fields.append((fname, ed))
                off += nbytes
            elif k < 0.8 and my_structs:
                ref, sd = r.choice(my_structs)
                body.append("%s  %d [+%d]  %s  %s" % (indent, off, sd["size"], ref, fname))
                drv_fields.append(dict(name=fname, cls="struct", _sd=sd))
                off += sd["size"]
            elif k < 0.88:
                cnt = r.choice([1, 2, 3])
                eb = r.choice([1, 2])
                body.append("%s  %d [+%d]  UInt:%d[%d]  %s" % (indent, off, cnt * eb, eb * 8, cnt, fname))
                drv_fields.append(dict(name=fname, cls="array"))
                off += cnt * eb
            else:
                # inline bits with a flag, a small uint and maybe an enum
                cb = r.choice([1, 2, 4])
                u2 = set()
                f1, f2 = self.snake(used), self.snake(used)
                body.append("%s  %d [+%d]  bits:" % (indent, off, cb))
                body.append("%s    0 [+1]  Flag  %s" % (indent, f1))
                body.append("%s    1 [+%d]  UInt  %s" % (indent, cb * 8 - 2, f2))
                fields.append(dict(name=f1, kind="alias", requires=False))
                fields.append(dict(name=f2, kind="alias", requires=False))
                drv_fields.append(dict(name=f1, cls="flag"))
                drv_fields.append(dict(name=f2, cls="uint"))
                used.discard(fname)
                off += cb
                continue
            fields.append(dict(name=fname, kind="physical", requires=requires))
        # conditional fields on the tag (switch pattern); either operand order: `tag == K` and `K == tag`
        def cond(a, b):
            if r.random() < 0.4:
                self.features.add("condition-constant-on-left")
                if "." in b:
                    self.features.add("enum-condition-constant-on-left")
                return "%s == %s" % (b, a)
            return "%s == %s" % (a, b)
        if tag is not None and r.random() < 0.65:
            tname, tbits = tag
            consts = [0, 1, 2, 3, 7, 2**tbits - 1]
            r.shuffle(consts)
            chosen = consts[:r.randint(1, 4)]
            if r.random() < 0.35:
                chosen.append(chosen[0])              # repeated case label
            if tbits >= 32 and self.bad("switch-negative-label-on-unsigned", 0.06):
                chosen.append(-1)
            for c in chosen:
                fn = self.snake(used)
                body.append("%s  if %s:" % (indent, cond(tname, str(c))))
                body.append("%s    %d [+1]  UInt  %s" % (indent, off, fn))
                fields.append(dict(name=fn, kind="physical", requires=False))
                drv_fields.append(dict(name=fn, cls="uint"))
            off += 1
        if enum_fields and r.random() < 0.55:
            fnm, ed = r.choice(enum_fields)
            ref = [x for x in my_enums if x[1] is ed][0][0]
            evs = list(ed["values"][:3])
            if r.random() < 0.35:
                evs.append(evs[0])                    # repeated case label
            for (vn, vv, va) in evs:
                fn = self.snake(used)
                body.append("%s  if %s:" % (indent, cond(fnm, "%s.%s" % (ref, vn))))
                body.append("%s    %d [+1]  UInt  %s" % (indent, off, fn))
                fields.append(dict(name=fn, kind="physical", requires=False))
                drv_fields.append(dict(name=fn, cls="uint"))
            off += 1
        # parameterised sub-structure field
        param_structs = [(ref, sd) for ref, sd in self.param_structs_visible(path, name)] if depth == 0 else []
        if param_structs and r.random() < 0.6:
            ref, sd = r.choice(param_structs)
            args = []
            ok = True
            for p in sd["params"]:
                if p["enum"] is None:
                    args.append(str(r.randint(0, 7)) if not int_fields or r.random() < 0.5 else r.choice(int_fields)[0])
                else:
                    want = p["enum"]
                    cands = [(fnm, ed) for fnm, ed in enum_fields if ed is want]
                    others = [(fnm, ed) for fnm, ed in enum_fields if ed is not want]
                    if others and self.bad("enum-parameter-type-mismatch", 0.03):
                        args.append(others[0][0])
                    elif cands and r.random() < 0.5:
                        args.append(cands[0][0])
                    else:
                        eref = [x for x in my_enums if x[1] is want]
                        if not eref:
                            ok = False
                            break
                        args.append("%s.%s" % (eref[0][0], want["values"][0][0]))
            if ok:
                fn = self.snake(used)
                body.append("%s  %d [+%d]  %s(%s)  %s" % (indent, off, sd["size"], ref, ", ".join(args), fn))
                fields.append(dict(name=fn, kind="physical", requires=False))
                drv_fields.append(dict(name=fn, cls="struct", _sd=sd))
                off += sd["size"]
        # parameterised sub-structures at dynamic offsets / with dynamic sizes, arguments taken from fields
        dynamic = False
        small = [n for n, b in int_fields if b == 8]
        while param_structs and len(small) < 2 and r.random() < 0.8:
            extra = self.snake(used)
            body.append("%s  %d [+1]  UInt  %s" % (indent, off, extra))
            fields.append(dict(name=extra, kind="physical", requires=False))
            drv_fields.append(dict(name=extra, cls="uint"))
            int_fields.append((extra, 8))
            small = small + [extra]
            off += 1
        if param_structs and small and r.random() < 0.75:
            for _ in range(r.choice([1, 1, 2, 3])):
                ref, sd = r.choice(param_structs)
                args, ok, field_valued = [], True, False
                for p in sd["params"]:
                    if p["enum"] is None:
                        k = r.random()
                        if k < 0.55:
                            args.append(r.choice(small))
                            field_valued = True
                        elif k < 0.8:
                            args.append("%s %s %d" % (r.choice(small), r.choice("+*"), r.randint(1, 3)))
                            field_valued = True
                        else:
                            args.append(str(r.randint(0, 7)))
                    else:
                        want = p["enum"]
                        cands = [fnm for fnm, ed in enum_fields if ed is want]
                        eref = [x for x in my_enums if x[1] is want]
                        if cands and r.random() < 0.7:
                            args.append(cands[0])
                            field_valued = True
                        elif eref:
                            args.append("%s.%s" % (eref[0][0], want["values"][0][0]))
                        else:
                            ok = False
                            break
                if not ok:
                    continue
                fn = self.snake(used)
                # the location prefers a field that is not an argument (distinct temporaries in the generated code)
                free = [n for n in small if not any(n == x or x.startswith(n + " ") for x in args)]
                a = r.choice(free) if free and r.random() < 0.8 else r.choice(small)
                shape = r.choice(["start", "start", "start-expr", "next", "size"])
                if self.bad("array-of-parameterised-structs", 0.25):
                    shape = r.choice(["array-dynamic", "array-static-after-dynamic"])
                if shape == "next" and not dynamic:
                    shape = "start"
                sz = sd["size"]
                cls = "struct"
                if shape == "start":
                    loc = "%s [+%d]" % (a, sz)
                elif shape == "start-expr":
                    loc = "%s + %d [+%d]" % (a, r.randint(1, 4), sz)
                elif shape == "next":
                    loc = "$next [+%d]" % sz
                elif shape == "size":
                    loc = "%d [+%s]" % (off, a)
                elif shape == "array-dynamic":
                    loc = "%d [+%s * %d]" % (off, a, sz)
                    cls = "sarray"
                else:
                    loc = "%s [+%d]" % (a, sz * 2)
                    cls = "sarray"
                tyx = "%s(%s)%s" % (ref, ", ".join(args), "[]" if shape == "array-dynamic" else "[2]" if cls == "sarray" else "")
                body.append("%s  %s  %s  %s" % (indent, loc, tyx, fn))
                fields.append(dict(name=fn, kind="physical", requires=False))
                drv_fields.append(dict(name=fn, cls=cls, _sd=(sd if cls == "struct" else None)))
                dynamic = True
                self.features.add("param-struct-dynamic-location")
                if field_valued and a in free and shape != "next":
                    self.features.add("param-struct-field-argument-dynamic-location")
        # virtual fields
        virt = []
        if int_fields:
            narrow = [n for n, b in int_fields if b <= 32]
            for _ in range(r.choice([0, 1, 1, 2, 3])):
                vn = self.snake(used)
                a = r.choice(int_fields)[0]
                k = r.random()
                extra_meta = {}
                if k < 0.5 and narrow:
                    a = r.choice(narrow)
                    op = r.choice("+-*")
                    body.append("%s  let %s = %s %s %d" % (indent, vn, a, op, r.randint(1, 9)))
                    # `x + c` and `x - c` are invertible: the virtual field is writable; `x * c` is read-only
                    kind, cls = "virtual", ("vint_w" if op in "+-" else "vint")
                    extra_meta = dict(bits=36, virt=True)
                    virt.append(vn)
                elif k < 0.65:
                    body.append("%s  let %s = %s > %d" % (indent, vn, a, r.randint(0, 9)))
                    kind, cls = "virtual", "vbool"
                elif k < 0.8:
                    cv = r.choice([0, 5, 255, 2**31, 2**32, 2**63 - 1, -2**63, -1, 2**64 - 1])
                    body.append("%s  let %s = %d" % (indent, vn, cv))
                    kind, cls = "virtual", "vconst"
                    extra_meta = dict(const=cv)
                else:
                    body.append("%s  let %s = %s" % (indent, vn, a))
                    kind, cls = "alias", "uint"
                    extra_meta = dict(bits=dict(int_fields)[a])
                if r.random() < 0.2 and kind == "virtual" and cls in ("vint", "vint_w"):
                    body.append("%s    [requires: this < %d]" % (indent, r.randint(100, 10**6)))
                fields.append(dict(name=vn, kind=kind, requires=False))
                drv_fields.append(dict(name=vn, cls=cls, **extra_meta))
            if self.bad("virtual-view-name-collision", 0.03):
                a = r.choice(int_fields)[0]
                base = r.choice(["foo", "ab", "x1", "val"])
                a = r.choice(narrow) if narrow else a
                n1, n2 = base + "_bar", base + "__bar"
                if narrow and n1 not in used and n2 not in used and self.ok_name(n1):
                    used.update([n1, n2])
                    body.append("%s  let %s = %s + 1" % (indent, n1, a))
                    body.append("%s  let %s = %s + 2" % (indent, n2, a))
                    for nn in (n1, n2):
                        fields.append(dict(name=nn, kind="virtual", requires=False))
                        drv_fields.append(dict(name=nn, cls="vint"))
            if virt and self.bad("alias-of-virtual", 0.03):
                vn = self.snake(used)
                body.append("%s  let %s = %s" % (indent, vn, virt[0]))
                fields.append(dict(name=vn, kind="alias", requires=False))
                drv_fields.append(dict(name=vn, cls="vint"))
        self.dotted_virtuals(indent, body, fields, drv_fields, used)
        if enum_fields and r.random() < 0.5:
            fnm, ed = r.choice(enum_fields)
            ref = [x for x in my_enums if x[1] is ed][0][0]
            vn = self.snake(used)
            vname = ed["values"][-1][0]
            if r.random() < 0.5:
                body.append("%s  let %s = %s.%s" % (indent, vn, ref, vname))
                cls = "venum"
            else:
                body.append("%s  let %s = %s == %s.%s" % (indent, vn, fnm, ref, vname))
                cls = "vbool"
            if ed["values"][-1][1] >= 2**63:
                self.features.add("enum-constant-above-int64-in-expression")
            fields.append(dict(name=vn, kind="virtual", requires=False))
            drv_fields.append(dict(name=vn, cls=cls))
        if self.bad("validator-name-collision", 0.02) and len(int_fields) >= 1:
            base = r.choice(["foo", "ab", "x1"])
            n1, n2 = base + "_req", base + "__req"
            if n1 not in used and n2 not in used:
                used.update([n1, n2])
                for nn in (n1, n2):
                    body.append("%s  %d [+1]  UInt  %s" % (indent, off, nn))
                    body.append("%s    [requires: this < 200]" % indent)
                    fields.append(dict(name=nn, kind="physical", requires=True))
                    drv_fields.append(dict(name=nn, cls="uint"))
                    off += 1
        struct_req = []
        if int_fields and r.random() < 0.15:
            struct_req = ["%s  [requires: %s < %d]" % (indent, int_fields[0][0], 2**int_fields[0][1] - 1)]
        lines = [head] + attr_lines + struct_req + sub_lines + body
        desc = dict(name=name, cpp=path + [name], params=params, size=off, fields=drv_fields, nested=bool(nested_structs or nested_enums),
                    dynamic=dynamic)
        self.structs.append(desc)
        self.scopes.append(dict(kind="class", where=".".join(path + [name]), name=name, units="bytes", fields=fields,
                                params=[p["name"] for p in params], enums=nested_enums))
        self.scopes.append(dict(kind="ns", where=".".join(path + [name]) + "::", validated=[f["name"] for f in fields if f["requires"]],
                                structs=nested_structs, enums=nested_enums))
        return lines, desc

    # ---- virtual fields over dotted references into nested structures ----------------
    @staticmethod
    def field_meta(f):
        """(value kind, writable by the language rule, is a non-alias virtual, bits or None)"""
        cls = f["cls"]
        val = {"uint": "int", "int": "int", "flag": "bool", "enum": "enum", "vint": "int", "vint_w": "int", "vbool": "bool",
               "vconst": "int", "venum": "enum"}.get(cls)
        w = cls in ("uint", "int", "flag", "enum", "vint_w")
        virt = cls in ("vint", "vint_w", "vbool", "vconst", "venum")
        bits = f.get("bits")
        if cls == "vconst":
            bits = 41 if abs(f.get("const", 2**63)) < 2**40 else None
        return val, w, virt, bits

    def dotted_virtuals(self, indent, body, fields, drv_fields, used):
        r = self.r
        subs = [f for f in drv_fields if f["cls"] == "struct" and f.get("_sd")]
        if not subs or r.random() > 0.75:
            return
        for _ in range(r.choice([1, 2, 2, 3, 4])):
            sf = r.choice(subs)
            path, sd = [sf["name"]], sf["_sd"]
            inner = [f for f in sd["fields"] if f["cls"] == "struct" and f.get("_sd")]
            if inner and r.random() < 0.4:                       # two levels deep
                g = r.choice(inner)
                path.append(g["name"])
                sd = g["_sd"]
                self.features.add("dotted-virtual-two-levels")
            cands = [f for f in sd["fields"] if self.field_meta(f)[0] is not None]
            if not cands:
                continue
            t = r.choice(cands)
            ro = [f for f in cands if self.field_meta(f)[0] == "int" and not self.field_meta(f)[1]
                  and (self.field_meta(f)[3] or 99) <= 41]
            force_chain = False
            if ro and r.random() < 0.5:        # an invertible chain over a read-only target must stay read-only
                t, force_chain = r.choice(ro), True
            val, w, virt, bits = self.field_meta(t)
            ref = ".".join(path + [t["name"]])
            vn = self.snake(used)
            requires = None
            narrow = val == "int" and bits is not None and bits <= 40
            k = 0.0 if force_chain else r.random()
            if val == "int" and narrow and k < 0.55:
                c, d = r.randint(1, 9), r.randint(1, 9)
                expr = r.choice(["%s + %d" % (ref, c), "%s - %d" % (ref, c), "%d + %s" % (c, ref), "%d - %s" % (c + 300, ref),
                                 "%s + %d - %d" % (ref, c, d), "(%s - %d) + %d" % (ref, c, d)])
                kind, cls = "virtual", ("vint_w" if w else "vint")
                if not w:
                    self.features.add("dotted-virtual-readonly-target")   # invertible chain over a read-only target
            elif val == "int" and narrow and k < 0.7:
                expr = r.choice(["%s * 2" % ref, "%s + %s" % (ref, ref), "$max(%s, 3)" % ref])
                kind, cls = "virtual", "vint"
            elif val == "int" and k < 0.8:
                expr = "%s > %d" % (ref, r.randint(0, 9))
                kind, cls = "virtual", "vbool"
            else:
                # alias; of a virtual target it is the known alias-of-virtual class
                if virt and t["cls"] != "vconst" and not self.bad("alias-of-virtual", 0.1):
                    continue
                if t["cls"] == "vconst":
                    continue
                expr = ref
                kind, cls = "alias", t["cls"]
                if val == "int" and narrow and not virt and r.random() < 0.3:
                    # an alias with an additional requirement is a transform, not an alias
                    requires = "this < %d" % r.randint(200, 10**6)
                    kind, cls = "virtual", ("vint_w" if w else "vint")
                    if not w:
                        self.features.add("dotted-virtual-readonly-target")
            body.append("%s  let %s = %s" % (indent, vn, expr))
            if requires:
                body.append("%s    [requires: %s]" % (indent, requires))
            self.features.add("dotted-virtual")
            fields.append(dict(name=vn, kind=kind, requires=False))
            drv_fields.append(dict(name=vn, cls=cls, bits=(44 if cls in ("vint", "vint_w") else bits)))

    def param_structs_visible(self, path, name):
        return [(sd["name"], sd) for sd in self.structs if sd["params"] and len(sd["cpp"]) == 1 and sd["name"] != name]

    # ---- module -------------------------------------------------------------
    def build(self):
        r = self.r
        L = ['[$default byte_order: "%s"]' % r.choice(["LittleEndian", "BigEndian"])]
        ns = None
        if r.random() < 0.6:
            comps = [r.choice(["a", "abc", "x1", "emboss_test", "my_ns", "std2", "detail", "_u", "A", "Zz9"]) for _ in range(r.randint(1, 3))]
            sep = r.choice(["::", "::", " :: ", ":: "])
            txt = sep.join(comps)
            if r.random() < 0.2:
                txt = "::" + txt
            if r.random() < 0.15:
                txt = " " + txt + " "
            ns = comps
            L.append('[(cpp) namespace: "%s"]' % txt)
        self.namespace = ns if ns is not None else ["emboss_generated_code"]
        mdc = None
        if r.random() < 0.3:
            mdc = r.choice(["kCamelCase", "SHOUTY_CASE, kCamelCase", "SHOUTY_CASE"])
            L.append('[(cpp) $default enum_case: "%s"]' % mdc)
        L.append("")
        top_enums, top_structs = [], []
        avail_enums, avail_structs = [], []
        imports = self.make_imports()
        if imports:
            L[0:0] = ['import "%s" as %s' % (path, alias) for path, alias in imports["import_lines"]] + [""]
            avail_enums += imports["enums"]
            avail_structs += imports["structs"]
        for _ in range(r.choice([0, 1, 1, 2])):
            en = self.camel()
            el, ed = self.make_enum(en, mdc, "", big=(r.random() < 0.12))
            ed["cpp"] = [en]
            self.enums.append(ed)
            top_enums.append(en)
            avail_enums.append((en, ed))
            L += el + [""]
        n_structs = r.choice([1, 2, 2, 3, 3])
        for i in range(n_structs):
            sn = self.camel()
            sl, sd = self.make_struct(sn, [], 0, mdc, avail_enums, avail_structs,
                                      want_params=(i == 0 and n_structs > 1 and r.random() < 0.6))
            top_structs.append(sn)
            if not sd["params"] and not sd.get("dynamic"):
                avail_structs.append((sn, sd))
            L += sl + [""]
        if top_structs and self.bad("type-named-like-generated", 0.03):
            en = r.choice(["", "Generic", "Make"]) + top_structs[0] + r.choice(["View", "Writer"])
            if en.startswith("Generic"):
                en = "Generic" + top_structs[0] + "View"
            if en.startswith("Make"):
                en = "Make" + top_structs[0] + "View"
            L += ["enum %s:" % en, "  AA_BB = 1", ""]
            top_enums.append(en)
            self.enums.append(dict(name=en, values=[("AA_BB", 1, mdc)], cpp=[en]))
            self.scopes.append(dict(kind="enum", where=en, values=[("AA_BB", 1, mdc)]))
        if top_enums and self.bad("type-named-enumtraits", 0.01):
            L += ["struct EnumTraits:", "  0 [+1]  UInt  et_field", ""]
            top_structs.append("EnumTraits")
            self.structs.append(dict(name="EnumTraits", cpp=["EnumTraits"], params=[], size=1, fields=[dict(name="et_field", cls="uint")], nested=False))
            self.scopes.append(dict(kind="class", where="EnumTraits", name="EnumTraits", units="bytes",
                                    fields=[dict(name="et_field", kind="physical", requires=False)], params=[], enums=[]))
        self.scopes.append(dict(kind="ns", where="<module>", validated=[], structs=top_structs, enums=top_enums))
        main = self.main
        self.files[main] = "\n".join(L) + "\n"
        # the main file first, then the imported files in dependency order (importer before imported)
        self.files = {main: self.files[main], **{k: v for k, v in self.files.items() if k != main}}

    # ---- imported files ---------------------------------------------------------
    LAYOUTS = [
        # (feature, main path, [(path, [indexes of the files it imports], imported by main?)])
        ("import", "m.emb", [("imp.emb", [], True)]),
        ("import-same-base-name", "m.emb", [("sensors/common.emb", [], True), ("motors/common.emb", [], True)]),
        ("import-same-base-name", "common.emb", [("sensors/common.emb", [], True)]),
        ("import-same-base-name", "app/main.emb", [("lib/main.emb", [1], True), ("lib/util/main.emb", [], False)]),
        ("import-chain", "m.emb", [("lib/b.emb", [1], True), ("lib/sub/c.emb", [2], False), ("lib/sub/deep/d.emb", [], False)]),
        ("import-diamond", "top/m.emb", [("left/x.emb", [2], True), ("right/x.emb", [2], True), ("base/d.emb", [], True)]),
        ("import-punctuation", "m.emb", [("pkg-one/a-b.v2.emb", [], True), ("Pkg_Two/A.B.emb", [2], True), ("x.y/z.emb", [], True)]),
        ("import-deep-path", "m.emb", [("a/b/c/d/e/f/leaf.emb", [], True), ("a/b/c/leaf.emb", [0], True)]),
    ]
    GUARD_COLLIDING = [("a-b.emb", "a_b.emb"), ("x/y.emb", "x_y.emb"), ("a__b.emb", "a_b.emb"), ("a.b.emb", "a_b.emb"),
                       ("Common.emb", "common.emb"), ("dir.one/t.emb", "dir/one_t.emb")]

    def make_imports(self):
        r = self.r
        self.main = "m.emb"
        layout = None
        if self.bad("header-guard-normalised-collision", 0.02):
            a, b = r.choice(self.GUARD_COLLIDING)
            layout = ("header-guard-normalised-collision", "m.emb", [(a, [], True), (b, [], True)])
        elif self.force in [l[0] for l in self.LAYOUTS]:
            layout = r.choice([l for l in self.LAYOUTS if l[0] == self.force])
            self.force = None
        elif r.random() < 0.4:
            layout = r.choice(self.LAYOUTS)
        if layout is None:
            return None
        feat, main, files = layout
        self.features.add(feat)
        self.features.add("import")
        self.main = main
        descs = []
        for i, (path, deps, by_main) in enumerate(files):
            descs.append(dict(path=path, ns=["imp%d" % i, "ns"], enum="Shared%d" % i, struct="Piece%d" % i, size=3, deps=deps))
        # sizes: a file's struct embeds the structs of the files it imports (dependencies have larger indexes or are resolved lazily)
        def size_of(i, seen=()):
            d = descs[i]
            return 3 + sum(size_of(j, seen + (i,)) for j in d["deps"] if j not in seen)
        for i, d in enumerate(descs):
            d["size"] = size_of(i)
        out = dict(import_lines=[], enums=[], structs=[])
        for i, (path, deps, by_main) in enumerate(files):
            d = descs[i]
            T = ['[$default byte_order: "LittleEndian"]', '[(cpp) namespace: "%s"]' % "::".join(d["ns"])]
            T = ['import "%s" as dep%d' % (descs[j]["path"], j) for j in deps] + ([""] if deps else []) + T
            T += ["enum %s:" % d["enum"], "  SH%d_ONE = 1" % i, "  SH%d_TWO = 2" % i,
                  "struct %s:" % d["struct"], "  0 [+2]  UInt  word", "  2 [+1]  %s  sh" % d["enum"]]
            off = 3
            flds = [dict(name="word", cls="uint"), dict(name="sh", cls="enum")]
            for j in deps:
                T.append("  %d [+%d]  dep%d.%s  inner%d" % (off, descs[j]["size"], j, descs[j]["struct"], j))
                flds.append(dict(name="inner%d" % j, cls="struct"))
                off += descs[j]["size"]
            self.files[path] = "\n".join(T) + "\n"
            ed = dict(name=d["enum"], values=[("SH%d_ONE" % i, 1, None), ("SH%d_TWO" % i, 2, None)], cpp=[d["enum"]], ns=d["ns"], file=path)
            sd = dict(name=d["struct"], cpp=[d["struct"]], params=[], size=off, fields=flds, nested=False, ns=d["ns"], file=path)
            self.enums.append(ed)
            self.structs.append(sd)
            self.type_names.update([d["enum"], d["struct"]])
            if by_main:
                alias = "imp%d" % i
                out["import_lines"].append((path, alias))
                out["enums"].append(("%s.%s" % (alias, d["enum"]), ed))
                out["structs"].append(("%s.%s" % (alias, d["struct"]), sd))
        return out

    def to_dict(self):
        def clean_struct(sd):
            d = dict(name=sd["name"], cpp=sd["cpp"], size=sd["size"], nested=sd.get("nested", False),
                     fields=[{k: v for k, v in f.items() if not k.startswith("_")} for f in sd["fields"]],
                     dynamic=sd.get("dynamic", False),
                     params=[dict(name=p["name"], type=p["type"],
                                  enum=(p["enum"]["cpp"] if p["enum"] else None),
                                  enum_ns=(p["enum"].get("ns") if p["enum"] else None),
                                  enum_first=(p["enum"]["values"][0][0] if p["enum"] else None),
                                  enum_first_attr=(p["enum"]["values"][0][2] if p["enum"] else None)) for p in sd["params"]])
            if sd.get("ns"):
                d["ns"], d["file"] = sd["ns"], sd["file"]
            return d

        def clean_enum(e):
            d = dict(name=e["name"], cpp=e["cpp"], values=[list(v) for v in e["values"]])
            if e.get("ns"):
                d["ns"], d["file"] = e["ns"], e["file"]
            return d
        return dict(files=self.files, main=self.main, namespace=self.namespace, features=sorted(self.features), scopes=self.scopes,
                    structs=[clean_struct(s) for s in self.structs], enums=[clean_enum(e) for e in self.enums if e.get("cpp")])


def header_guard_py(path):
    """The documented include-guard rule (whole path): upper case, every character outside [A-Za-z0-9_] becomes '_',
    a '_' is appended, runs of '_' collapse.  Independent re-implementation, checked against the Coq model each run."""
    g = re.sub(r"[^A-Za-z0-9_]", "_", (path + ".h").upper()) + "_"
    return re.sub(r"__+", "_", g)
