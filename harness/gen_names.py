"""Generator of .emb modules that stress the C++ identifiers the back end declares (C07),
plus helpers shared with C19."""
import os
import re
import subprocess

from harness import fw

RUNTIME_INCLUDES = ["runtime/cpp/emboss_cpp_util.h", "runtime/cpp/emboss_prelude.h",
                    "runtime/cpp/emboss_enum_view.h", "runtime/cpp/emboss_text_util.h"]
STANDARDS = ["c++11", "c++14", "c++17"]

_MACROS = {}


def system_macros(stds=("c++14",)):
    """Object- and function-like macro names visible after including what a generated header includes
    (asked from the preprocessor of the C++ environment; nothing is copied by hand)."""
    key = tuple(stds)
    if key in _MACROS:
        return _MACROS[key]
    src = "#include <stdint.h>\n#include <string.h>\n#include <algorithm>\n#include <type_traits>\n#include <utility>\n" + \
          "".join('#include "%s"\n' % h for h in RUNTIME_INCLUDES)
    names = set()
    for std in stds:
        p = subprocess.run(["g++", "-dM", "-E", "-x", "c++", "-std=" + std, "-I", fw.REPO, "-"], input=src,
                           stdout=subprocess.PIPE, stderr=subprocess.PIPE, text=True, timeout=120)
        if p.returncode != 0:
            raise RuntimeError("g++ -dM -E failed: " + p.stderr[-1000:])
        for line in p.stdout.splitlines():
            m = re.match(r"#define\s+([A-Za-z_][A-Za-z0-9_]*)", line)
            if m:
                names.add(m.group(1))
    _MACROS[key] = names
    return names
