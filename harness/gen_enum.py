"""Generator of .emb modules centred on enums (C19; reused by C07).

Every decision is recorded on the objects so that the model-side input can be
built from the *generator's* knowledge of the source text (names, value
literals, explicit attributes, the innermost applicable enum_case attribute),
never from what the implementation computed.
"""
import re

SHOUTY_RE = re.compile(r"[A-Z][A-Z_0-9]*[A-Z_][A-Z_0-9]*\Z")

VALUE_EDGES = [0, 1, 2, 3, 7, 8, 15, 16, 65, 127, 128, 129, 255, 256, 32767, 32768, 65535, 65536,
               2**31 - 1, 2**31, 2**32 - 1, 2**32, 2**53, 2**63 - 1, 2**63, 2**64 - 2, 2**64 - 1]
NEG_EDGES = [-1, -2, -8, -127, -128, -129, -32768, -32769, -2**31, -2**31 - 1, -2**63 + 1, -2**63]
OUT_OF_64 = [2**64, 2**64 + 1, -2**63 - 1, 2**70]

CASE_ATTRS_VALID = ["SHOUTY_CASE", "kCamelCase", "SHOUTY_CASE, kCamelCase", "kCamelCase, SHOUTY_CASE",
                    "kCamelCase,SHOUTY_CASE", " kCamelCase ", "SHOUTY_CASE ,kCamelCase,", "kCamelCase,",
                    "  SHOUTY_CASE,  kCamelCase  ,  "]
CASE_ATTRS_INVALID = ["", ",", "kCamelCase,,SHOUTY_CASE", "snake_case", "CamelCase", "kCamelCase, kCamelCase",
                      "SHOUTY_CASE, shouty_case", ",kCamelCase", "k CamelCase", "SHOUTY_CASE; kCamelCase"]


def width_needed(v):
    """(bits as unsigned or None, bits as signed)"""
    if v >= 0:
        u = max(1, v.bit_length())
        return u, u + 1
    return None, max(1, (-v - 1).bit_length() + 1)


class NameGen:
    """Random SHOUTY / snake / Camel names with awkward shapes, avoiding a forbidden set."""

    def __init__(self, rng, forbidden=()):
        self.rng = rng
        self.forbidden = set(forbidden)

    def shouty(self, used):
        r = self.rng
        for _ in range(200):
            k = r.random()
            if k < 0.35:
                parts = ["".join(r.choice("ABCDEFGHIJKLMNOPQRSTUVWXYZ") for _ in range(r.randint(1, 4)))
                         for _ in range(r.randint(1, 3))]
                s = "_".join(parts)
            elif k < 0.6:
                # words that mix letters and digits
                parts = []
                for _ in range(r.randint(1, 3)):
                    w = "".join(r.choice("ABCXYZ0123456789") for _ in range(r.randint(1, 3)))
                    parts.append(w)
                s = r.choice("ABCXYZ") + "_".join(parts)
            elif k < 0.8:
                # underscore oddities: doubled, trailing, before digits
                base = "".join(r.choice("ABQZ") for _ in range(r.randint(1, 3)))
                s = base + r.choice(["_", "__", "_1", "__1", "_1_", "1_", "_A_", "_A1", "_1A", "_A__B", "___"])
            else:
                s = r.choice("ABCDEFGH") + r.choice("ABCDEFGH0123456789_") + "".join(
                    r.choice("AB01_") for _ in range(r.randint(0, 3)))
            if SHOUTY_RE.match(s) and s not in used and s not in self.forbidden and not s.startswith("EMBOSS_RESERVED"):
                return s
        raise RuntimeError("could not generate a fresh SHOUTY name")

    def collide_with(self, name, used):
        """A different SHOUTY name that snake_to_camel maps to the same text, if one can be built."""
        r = self.rng
        cands = []
        for i, ch in enumerate(name):
            if ch == "_":
                cands.append(name[:i] + "_" + name[i:])            # double an underscore
                if i + 1 < len(name) and name[i + 1].isdigit():
                    cands.append(name[:i] + name[i + 1:])           # drop '_' before a digit
            elif ch.isdigit() and i > 0 and name[i - 1] != "_":
                cands.append(name[:i] + "_" + name[i:])             # insert '_' before a digit
        cands.append(name + "_")
        if name.endswith("_") and len(name) > 2:
            cands.append(name[:-1])
        r.shuffle(cands)
        for c in cands:
            if SHOUTY_RE.match(c) and c not in used and c not in self.forbidden:
                return c
        return None

    def camel(self, used):
        r = self.rng
        for _ in range(200):
            s = "".join(r.choice("ABCDEFGHKMNPQRSTVWXYZ") + "".join(r.choice("abcdefghijklmnopqrstuvwxyz0123456789")
                                                                  for _ in range(r.randint(1, 4)))
                        for _ in range(r.randint(1, 2)))
            if re.match(r"[A-Z][a-zA-Z0-9]*[a-z][a-zA-Z0-9]*\Z", s) and s not in used and s not in self.forbidden \
                    and not s.startswith("EmbossReserved"):
                return s
        raise RuntimeError("could not generate a fresh CamelCase name")

    def snake(self, used):
        r = self.rng
        for _ in range(200):
            s = r.choice("abcdefghijklmnopqrstuvwxyz") + "".join(
                r.choice("abcdefghijklmnopqrstuvwxyz0123456789_") for _ in range(r.randint(1, 6)))
            if s not in used and s not in self.forbidden and not s.startswith("emboss_reserved"):
                return s
        raise RuntimeError("could not generate a fresh snake_case name")


def literal(rng, v):
    """Source text of an integer constant (decimal with optional grouping, hex, binary; '-' prefix)."""
    a = abs(v)
    k = rng.random()
    if k < 0.6:
        t = str(a)
    elif k < 0.7 and a >= 1000:
        t = "{:,}".format(a).replace(",", "_")
    elif k < 0.9:
        t = hex(a)
    else:
        t = bin(a)
    return ("-" + t) if v < 0 else t


class EnumSpec:
    def __init__(self):
        self.name = None
        self.values = []          # [dict(name, value, text, attr)]   attr = value-level enum_case text or None
        self.signed = None        # explicit is_signed or None
        self.bits = None          # explicit maximum_bits or None
        self.default_case = None  # enum-level $default enum_case text or None
        self.outer = None         # name of the enclosing struct (nested enum) or None
        self.after_struct = False # top-level enum declared after the struct
        self.outer_default_case = None

    def cpp_name(self):
        return (self.outer + "::" + self.name) if self.outer else self.name

    def effective_signed(self):
        return self.signed if self.signed is not None else any(v["value"] < 0 for v in self.values)

    def effective_bits(self):
        return self.bits if self.bits is not None else 64

    def body_lines(self, indent):
        out = []
        if self.signed is not None:
            out.append("%s[is_signed: %s]" % (indent, "true" if self.signed else "false"))
        if self.bits is not None:
            out.append("%s[maximum_bits: %d]" % (indent, self.bits))
        if self.default_case is not None:
            out.append('%s[(cpp) $default enum_case: "%s"]' % (indent, self.default_case))
        for v in self.values:
            line = "%s%s = %s" % (indent, v["name"], v["text"])
            if v["attr"] is not None:
                line += '  [(cpp) enum_case: "%s"]' % v["attr"]
            out.append(line)
        return out


class EnumModule:
    """One module: 1..3 enums (some nested in a struct), and a struct with fields of the enum types."""

    def __init__(self, rng, forbidden=(), p_invalid=0.12, p_collision=0.06, p_bad_case=0.05, want_fields=True, shape=None):
        self.shape = shape
        self.rng = rng
        self.names = NameGen(rng, forbidden)
        self.module_default_case = None
        self.enums = []
        self.fields = []     # [dict(struct, name, enum(EnumSpec), kbits, container_bits, offset_bits, in_bits)]
        self.features = set()
        self.p_invalid, self.p_collision, self.p_bad_case = p_invalid, p_collision, p_bad_case
        self.want_fields = want_fields
        self.build()

    # ---- construction -------------------------------------------------------
    def case_attr(self):
        r = self.rng
        if r.random() < self.p_bad_case:
            self.features.add("invalid-enum_case")
            return r.choice(CASE_ATTRS_INVALID)
        return r.choice(CASE_ATTRS_VALID)

    def pick_value(self, want_signed):
        r = self.rng
        k = r.random()
        if k < 0.35:
            return r.choice(VALUE_EDGES)
        if k < 0.55 and want_signed:
            return r.choice(NEG_EDGES)
        if k < 0.8:
            return r.randint(0, 300) if not want_signed else r.randint(-150, 150)
        if k < 0.95:
            e = r.choice([8, 16, 32, 63, 64])
            return r.randint(0, 2**e - 1) if not want_signed else r.randint(-2**(e - 1), 2**(e - 1) - 1)
        return r.choice(VALUE_EDGES + NEG_EDGES)

    def make_enum(self, used_types):
        r = self.rng
        e = EnumSpec()
        e.name = self.names.camel(used_types)
        used_types.add(e.name)
        want_signed = r.random() < 0.4
        n = r.choice([1, 2, 3, 4, 5, 6, 8, 12])
        used = set()
        for _ in range(n):
            if e.values and r.random() < self.p_collision:
                c = self.names.collide_with(r.choice(e.values)["name"], used)
                if c:
                    nm = c
                    self.features.add("camel-collision-pair")
                else:
                    nm = self.names.shouty(used)
            else:
                nm = self.names.shouty(used)
            used.add(nm)
            if e.values and r.random() < 0.25:
                val = r.choice(e.values)["value"]          # duplicate value
                self.features.add("duplicate-value")
            else:
                val = self.pick_value(want_signed)
            attr = self.case_attr() if r.random() < 0.2 else None
            e.values.append(dict(name=nm, value=val, text=literal(r, val), attr=attr))
        if r.random() < 0.02 and len(e.values) >= 2:
            e.values[-1]["name"] = e.values[0]["name"]      # duplicate name: rejected by the front end
            self.features.add("duplicate-name")
        # explicit attributes
        vals = [v["value"] for v in e.values]
        neg = any(v < 0 for v in vals)
        if r.random() < 0.45:
            e.signed = neg if r.random() < 0.8 else (not neg)
        s = e.effective_signed()
        need = 1
        for v in vals:
            u, sg = width_needed(v)
            need = max(need, sg if s else (u if u is not None else 65))
        if r.random() < 0.6:
            k = r.random()
            if k < 0.45:
                e.bits = min(64, need)
            elif k < 0.8:
                e.bits = min(64, r.choice([b for b in (8, 16, 32, 64, need + 1, need + 3) if b >= min(need, 64)]))
            elif k < 0.9:
                e.bits = max(1, min(64, need) - 1)           # one bit short: rejected unless need > 64
            else:
                e.bits = r.choice([0, 65, 100, 1, 7, 9, 33, 63])
        if r.random() < self.p_invalid / 3:
            i = r.randrange(len(e.values))
            v = r.choice(OUT_OF_64)
            e.values[i]["value"], e.values[i]["text"] = v, literal(r, v)
            self.features.add("value-outside-64-bit")
        if r.random() < 0.3:
            e.default_case = self.case_attr()
        return e

    def build(self):
        r = self.rng
        if r.random() < 0.35:
            self.module_default_case = self.case_attr()
        used_types = set()
        n_enums = r.choice([1, 1, 2, 2, 3, 3, 4])
        if self.shape == "scoped-default":
            n_enums = r.choice([2, 3, 4])
        for _ in range(n_enums):
            self.enums.append(self.make_enum(used_types))
        # one of the enums may be nested in the struct that uses it
        self.struct_name = self.names.camel(used_types)
        used_types.add(self.struct_name)
        self.struct_default_case = None
        if r.random() < 0.25:
            self.struct_default_case = self.case_attr()
        if r.random() < 0.3:
            e = r.choice(self.enums)
            e.outer = self.struct_name
            e.outer_default_case = self.struct_default_case
        for e in self.enums:
            if e.outer is None and r.random() < 0.35:
                e.after_struct = True
        if self.shape == "scoped-default":
            # a $default enum_case on an EARLIER type (not on the module) followed by types without the attribute:
            # by the language's scoping rule the later types keep the default spelling
            self.features.add("scoped-default-then-plain-enum")
            self.module_default_case = None
            one = r.choice(["kCamelCase", "kCamelCase", "SHOUTY_CASE, kCamelCase"])
            for e in self.enums:
                e.outer, e.outer_default_case, e.after_struct, e.default_case = None, None, False, None
                for v in e.values:
                    v["attr"] = None
            if r.random() < 0.5:
                self.enums[0].default_case = one            # earlier enum carries the default
                self.struct_default_case = None
                for e in self.enums[1:]:
                    e.after_struct = r.random() < 0.5
            else:
                self.struct_default_case = one              # the struct carries it, plain enums follow the struct
                if len(self.enums) > 2 and r.random() < 0.5:
                    self.enums[0].outer, self.enums[0].outer_default_case = self.struct_name, one
                for e in self.enums[1:]:
                    e.after_struct = True
        if self.want_fields:
            self.make_fields()

    def make_fields(self):
        r = self.rng
        used = set()
        off = 0   # in bytes
        for e in self.enums:
            mb = e.effective_bits()
            if not (1 <= mb <= 64):
                continue
            for _ in range(r.choice([1, 1, 2])):
                if r.random() < 0.5 and mb >= 8:
                    # whole-byte field in the struct
                    nbytes = r.choice([b for b in (1, 2, 3, 4, 5, 7, 8) if b * 8 <= mb])
                    if r.random() < 0.5:
                        nbytes = max(b for b in (1, 2, 3, 4, 5, 6, 7, 8) if b * 8 <= mb)
                    nm = self.names.snake(used)
                    used.add(nm)
                    self.fields.append(dict(name=nm, enum=e, kbits=nbytes * 8, container_bits=nbytes * 8,
                                            offset=off, in_bits=False, bit_offset=0))
                    off += nbytes
                else:
                    cbytes = r.choice([1, 2, 4, 8, 3])
                    cbits = cbytes * 8
                    k = r.choice([x for x in (1, 2, 3, 4, 7, 8, 9, 15, 16, 31, 32, 33, 63, 64, mb) if x <= min(mb, cbits)])
                    bo = r.randint(0, cbits - k)
                    nm = self.names.snake(used)
                    used.add(nm)
                    self.fields.append(dict(name=nm, enum=e, kbits=k, container_bits=cbits, offset=off,
                                            in_bits=True, bit_offset=bo))
                    off += cbytes
        self.struct_size = off

    # ---- derived ------------------------------------------------------------
    def effective_case_attr(self, e, v):
        if v["attr"] is not None:
            return v["attr"]
        if e.default_case is not None:
            return e.default_case
        if e.outer is not None and e.outer_default_case is not None:
            return e.outer_default_case
        return self.module_default_case

    def all_case_attrs(self):
        out = []
        if self.module_default_case is not None:
            out.append(self.module_default_case)
        if self.struct_default_case is not None:
            out.append(self.struct_default_case)
        for e in self.enums:
            if e.default_case is not None:
                out.append(e.default_case)
            out += [v["attr"] for v in e.values if v["attr"] is not None]
        return out

    def text(self):
        L = ['[$default byte_order: "LittleEndian"]']
        if self.module_default_case is not None:
            L.append('[(cpp) $default enum_case: "%s"]' % self.module_default_case)
        L.append("")
        for e in self.enums:
            if e.outer is None and not e.after_struct:
                L.append("enum %s:" % e.name)
                L += e.body_lines("  ")
                L.append("")
        L.append("struct %s:" % self.struct_name)
        if self.struct_default_case is not None:
            L.append('  [(cpp) $default enum_case: "%s"]' % self.struct_default_case)
        for e in self.enums:
            if e.outer is not None:
                L.append("  enum %s:" % e.name)
                L += e.body_lines("    ")
        n = 0
        for f in self.fields:
            tn = f["enum"].name
            if f["in_bits"]:
                L.append("  %d [+%d]  bits:" % (f["offset"], f["container_bits"] // 8))
                L.append("    %d [+%d]  %s  %s" % (f["bit_offset"], f["kbits"], tn, f["name"]))
            else:
                L.append("  %d [+%d]  %s  %s" % (f["offset"], f["kbits"] // 8, tn, f["name"]))
            n += 1
        if n == 0:
            L.append("  0 [+1]  UInt  filler")
        L.append("")
        for e in self.enums:
            if e.outer is None and e.after_struct:
                L.append("enum %s:" % e.name)
                L += e.body_lines("  ")
                L.append("")
        return "\n".join(L)
