"""IR translator for the view model (EmbossV.View.Model) and generator of the C++
observation driver.  Fail-closed: OutOfModel on anything not understood.

The Coq term built here mirrors what header_generator.py renders:
  * sub-expressions whose annotation is constant become XK constants
    (_render_expression looks at the annotation first),
  * field references become XField paths of field indices, $present becomes XHas,
  * the view type of a physical field follows _get_cpp_view_type_for_physical_type.
"""
from compiler.util import ir_data
from compiler.util import ir_util

from harness.irx import OutOfModel, _z

FM = ir_data.FunctionMapping
_CMP = {FM.EQUALITY: "CEq", FM.INEQUALITY: "CNe", FM.LESS: "CLt", FM.LESS_OR_EQUAL: "CLe",
        FM.GREATER: "CGt", FM.GREATER_OR_EQUAL: "CGe"}
_DOLLAR = {"$size_in_bits": "IntrinsicSizeInBits", "$size_in_bytes": "IntrinsicSizeInBytes",
           "$max_size_in_bits": "MaxSizeInBits", "$min_size_in_bits": "MinSizeInBits",
           "$max_size_in_bytes": "MaxSizeInBytes", "$min_size_in_bytes": "MinSizeInBytes"}


def hashable(name):
    return (name.module_file,) + tuple(name.object_path)


class ViewTranslator:
    def __init__(self, ir):
        self.ir = ir
        self.types = []            # TypeDefinition with .structure
        self.tid = {}
        for mod in ir.module:
            if not mod.source_file_name:
                continue           # prelude
            for t in mod.type:
                self._collect(t)

    def _collect(self, t):
        if t.has_field("structure"):
            self.tid[hashable(t.name.canonical_name)] = len(self.types)
            self.types.append(t)
        for s in t.subtype:
            self._collect(s)

    # ---- names / indices -------------------------------------------------------
    def member_names(self, t):
        return [hashable(p.name.canonical_name) for p in t.runtime_parameter] + \
               [hashable(f.name.canonical_name) for f in t.structure.field]

    def path_indices(self, t, path):
        """field-reference path -> list of member indices, walking through field types."""
        idx = []
        cur = t
        for k, ref in enumerate(path):
            names = self.member_names(cur)
            h = hashable(ref.canonical_name)
            if h not in names:
                raise OutOfModel("path element %r not a member of %r" % (h, hashable(cur.name.canonical_name)))
            i = names.index(h)
            idx.append(i)
            if k + 1 < len(path):
                np = len(cur.runtime_parameter)
                if i < np:
                    raise OutOfModel("member of parameter")
                f = cur.structure.field[i - np]
                cur = self._struct_of_field(f)
        return idx

    def _struct_of_field(self, f):
        if ir_util.field_is_virtual(f):
            # alias: follow
            if f.write_method.which_method == "alias":
                tgt = ir_util.find_object(f.write_method.alias.path[-1], self.ir)
                return self._struct_of_field(tgt)
            raise OutOfModel("member of virtual field")
        ty = f.type
        if not ty.has_field("atomic_type"):
            raise OutOfModel("member of array")
        td = ir_util.find_object(ty.atomic_type.reference, self.ir)
        if not td.has_field("structure"):
            raise OutOfModel("member of non-structure")
        return td

    # ---- expressions -----------------------------------------------------------
    def const_of(self, e):
        t = e.type
        if t.which_type == "integer" and t.integer.modulus == "infinity":
            return "(XK (VInt %s))" % _z(t.integer.modular_value)
        if t.which_type == "boolean" and t.boolean.has_field("value"):
            return "(XK (VBool %s))" % ("true" if t.boolean.value else "false")
        if t.which_type == "enumeration" and t.enumeration.has_field("value"):
            return "(XK (VEnum %s))" % _z(t.enumeration.value)
        return None

    def expr(self, e, t, self_field=None):
        c = self.const_of(e)
        if c is not None:
            return c
        w = e.which_expression
        if w == "field_reference":
            if self_field is not None and len(e.field_reference.path) == 1 and \
                    e.field_reference.path[0].canonical_name == self_field.name.canonical_name:
                return "XSelf"
            return "(XField %s)" % self._path(t, e.field_reference.path)
        if w == "builtin_reference":
            if e.builtin_reference.canonical_name.object_path[-1] == "$logical_value":
                return "XSelf"
            raise OutOfModel("builtin")
        if w == "function":
            f = e.function.function
            args = e.function.args
            if f == FM.PRESENCE:
                return "(XHas %s)" % self._path(t, args[0].field_reference.path)
            a = [self.expr(x, t, self_field) for x in args]
            if f == FM.ADDITION:
                return "(XAdd %s %s)" % tuple(a)
            if f == FM.SUBTRACTION:
                return "(XSub %s %s)" % tuple(a)
            if f == FM.MULTIPLICATION:
                return "(XMul %s %s)" % tuple(a)
            if f in _CMP:
                wt = args[0].type.which_type
                if wt == "integer":
                    return "(XCmp %s %s %s)" % (_CMP[f], a[0], a[1])
                if f in (FM.EQUALITY, FM.INEQUALITY):
                    return "(XEq %s %s %s)" % ("true" if f == FM.INEQUALITY else "false", a[0], a[1])
                raise OutOfModel("ordering on non-integers")
            if f == FM.AND:
                return "(XAnd %s %s)" % tuple(a)
            if f == FM.OR:
                return "(XOr %s %s)" % tuple(a)
            if f == FM.CHOICE:
                return "(XChoice %s %s %s)" % tuple(a)
            if f == FM.MAXIMUM:
                return "(XMax [%s])" % "; ".join(a)
            raise OutOfModel("function %s" % f)
        raise OutOfModel("expression %r" % w)

    def _path(self, t, path):
        return "[%s]%%nat" % "; ".join(str(i) for i in self.path_indices(t, path))

    # ---- types -----------------------------------------------------------------
    def ftype(self, f, ty, t, size_bits, byte_order):
        unit = t.addressable_unit
        if ir_util.is_array(ty):
            base = ty.array_type.base_type
            esz = ir_util.fixed_size_of_type_in_bits(base, self.ir)
            if not esz or esz % unit:
                raise OutOfModel("array element size")
            return "(FArray %s %s)" % (self.ftype(f, base, t, esz, byte_order), _z(esz // unit))
        ref = ty.atomic_type.reference
        td = ir_util.find_object(ref, self.ir)
        bo = {"LittleEndian": "LE", "BigEndian": "BE", "Null": "NullBO", "": "LE"}.get(byte_order)
        if bo is None:
            raise OutOfModel("byte order %r" % byte_order)
        if td.has_field("external"):
            name = tuple(td.name.canonical_name.object_path)
            kinds = {("UInt",): "KU", ("Int",): "KI", ("Bcd",): "KBcd", ("Flag",): "KFlag", ("Float",): "KFloat"}
            if td.name.canonical_name.module_file or name not in kinds:
                raise OutOfModel("external %r" % (name,))
            if size_bits is None:
                raise OutOfModel("scalar of unknown size")
            if name == ("Float",) and size_bits not in (32, 64):
                raise OutOfModel("float width")
            return "(FScalar %s %s %s)" % (kinds[name], _z(size_bits), bo)
        if td.has_field("enumeration"):
            sg = ir_util.get_boolean_attribute(td.attribute, "is_signed")
            if size_bits is None:
                raise OutOfModel("enum of unknown size")
            return "(FScalar (KEnum %s) %s %s)" % ("true" if sg else "false", _z(size_bits), bo)
        if td.has_field("structure"):
            h = hashable(td.name.canonical_name)
            if h not in self.tid:
                raise OutOfModel("structure type not collected")
            args = [self.expr(p, t) for p in ty.atomic_type.runtime_parameter]
            adapt = "None"
            if unit == 8 and td.addressable_unit == 1:
                if size_bits is None:
                    raise OutOfModel("bits of unknown size")
                adapt = "(Some (%s, %s))" % (_z(size_bits), bo)
            return "(FStruct %d [%s] %s)" % (self.tid[h], "; ".join(args), adapt)
        raise OutOfModel("type definition kind")

    def _phys_type(self, f, t):
        unit = t.addressable_unit
        size_bits = None
        if f.type.has_field("size_in_bits"):
            size_bits = ir_util.constant_value(f.type.size_in_bits)
        elif ir_util.is_constant(f.location.size):
            size_bits = ir_util.constant_value(f.location.size) * unit
        boa = ir_util.get_attribute(f.attribute, "byte_order")
        byte_order = boa.string_constant.text if boa else ""
        return self.ftype(f, f.type, t, size_bits, byte_order)

    def field(self, f, t):
        cond = self.expr(f.existence_condition, t)
        if ir_util.field_is_virtual(f):
            if f.write_method.which_method == "alias":
                tgt = f
                while ir_util.field_is_virtual(tgt):
                    if tgt.write_method.which_method != "alias":
                        raise OutOfModel("alias-of-virtual")
                    tgt = ir_util.find_object(tgt.write_method.alias.path[-1], self.ir)
                owner = ir_util.find_parent_object(tgt.name.canonical_name, self.ir)
                body = "(Alias %s %s)" % (self._path(t, f.write_method.alias.path), self._phys_type(tgt, owner))
            else:
                rq = ir_util.get_attribute(f.attribute, "requires")
                rqs = "None" if rq is None else "(Some %s)" % self.expr(rq.expression, t, self_field=f)
                body = "(Virt %s %s)" % (self.expr(f.read_transform, t), rqs)
        else:
            rq = ir_util.get_attribute(f.attribute, "requires")
            rqs = "None" if rq is None else "(Some %s)" % self.expr(rq.expression, t, self_field=f)
            body = "(Phys %s %s %s %s)" % (self.expr(f.location.start, t), self.expr(f.location.size, t),
                                           self._phys_type(f, t), rqs)
        return "(mk_field %s %s)" % (cond, body)

    def sdef(self, t):
        np = len(t.runtime_parameter)
        fields = ["(mk_field (XK (VBool true)) (Param %d))" % i for i in range(np)]
        fields += [self.field(f, t) for f in t.structure.field]
        order = list(range(np)) + [np + i for i in t.structure.fields_in_dependency_order]
        size_idx = None
        for i, f in enumerate(t.structure.field):
            if f.name.name.text in ("$size_in_bits", "$size_in_bytes"):
                size_idx = np + i
        if size_idx is None:
            raise OutOfModel("no $size field")
        rq = ir_util.get_attribute(t.attribute, "requires")
        rqs = "None" if rq is None else "(Some %s)" % self.expr(rq.expression, t)
        return "(mk_sdef %d %d%%nat [%s] [%s]%%nat %d%%nat %s)" % (
            t.addressable_unit, np, ";\n   ".join(fields), "; ".join(map(str, order)), size_idx, rqs)

    def module(self):
        return "[" + ";\n ".join(self.sdef(t) for t in self.types) + "]"

    # ---- C++ driver ------------------------------------------------------------
    def cpp_ns(self, t):
        mod = ir_util.find_object((t.name.canonical_name.module_file,), self.ir)
        ns = None
        for a in mod.attribute:
            if a.name.text == "namespace" and a.back_end.text == "cpp":
                ns = a.value.string_constant.text
        ns = (ns or "emboss_generated_code").strip(":")
        return "::" + ns

    def field_cpp_name(self, f):
        n = f.name.name.text
        return _DOLLAR.get(n, n)

    def _dump_value(self, expr_read, which):
        if which == "enumeration":
            # through the enum's own underlying type, so that an unsigned 64-bit value keeps its sign
            return ("outv(static_cast<typename ::std::underlying_type<typename ::std::decay<decltype(%s)>::type>::type>(%s));"
                    % (expr_read, expr_read))
        if which == "boolean":
            return "out((%s) ? 1 : 0);" % expr_read
        if which == "float":
            # the model carries the bit pattern of a Float field (View.Model.KFloat)
            return "outv(float_bits(%s));" % expr_read
        return "outv(%s);" % expr_read

    def _dump_type(self, ty, t, acc, depth):
        """C++ statements printing the observations of view expression `acc` of type ty
        (after has/ok have been printed): mirrors View.Model.observe."""
        unit = t.addressable_unit
        if ir_util.is_array(ty):
            base = ty.array_type.base_type
            i = "i%d" % depth
            e = "e%d" % depth
            inner = self._dump_elem(base, t, e, depth + 1)
            return ("out((long long)%s.ElementCount()); for (::std::size_t %s = 0; %s < %s.ElementCount(); ++%s) { "
                    "auto %s = %s[%s]; out(-1); %s }" % (acc, i, i, acc, i, e, acc, i, inner))
        td = ir_util.find_object(ty.atomic_type.reference, self.ir)
        if td.has_field("structure"):
            return "dump_T%d(%s);" % (self.tid[hashable(td.name.canonical_name)], acc)
        which = "enumeration" if td.has_field("enumeration") else (
            "boolean" if tuple(td.name.canonical_name.object_path) == ("Flag",) else
            "float" if tuple(td.name.canonical_name.object_path) == ("Float",) else "integer")
        return "if (%s.Ok()) { %s }" % (acc, self._dump_value(acc + ".Read()", which))

    def _dump_elem(self, base, t, e, depth):
        if ir_util.is_array(base):
            raise OutOfModel("multidimensional array")
        td = ir_util.find_object(base.atomic_type.reference, self.ir)
        if td.has_field("structure"):
            return "out(%s.Ok() ? 1 : 0); dump_T%d(%s);" % (e, self.tid[hashable(td.name.canonical_name)], e)
        return "out(%s.Ok() ? 1 : 0); %s" % (e, self._dump_type(base, t, e, depth))

    def dump_function(self, k, t):
        unit = "Bytes" if t.addressable_unit == 8 else "Bits"
        L = ["template <class V> void dump_T%d(const V &v) {" % k,
             "  out(v.IsComplete() ? 1 : 0);",
             "  if (v.SizeIsKnown()) { out(1); out((long long)v.SizeIn%s()); } else { out(0); }" % unit]
        for p in t.runtime_parameter:
            n = p.name.name.text
            which = p.type.which_type
            L.append("  outm(v.has_%s()); out(v.%s().Ok() ? 1 : 0); if (v.%s().Ok()) { %s }"
                     % (n, n, n, self._dump_value("v.%s().Read()" % n, which)))
        for f in t.structure.field:
            n = self.field_cpp_name(f)
            L.append("  outm(v.has_%s()); { auto f = v.%s(); out(f.Ok() ? 1 : 0);" % (n, n))
            if ir_util.field_is_virtual(f) and f.write_method.which_method != "alias":
                which = f.read_transform.type.which_type
                # Ok() of a virtual field's view does not include its existence condition while Read() CHECKs it
                # (finding virtual-ok-ignores-existence, probed by the C04 check): an absent but Ok() virtual field
                # is read through UncheckedRead(), which returns the same value without the CHECK
                L.append("    if (f.Ok()) { %s }" % self._dump_value("(v.has_%s().ValueOr(false) ? f.Read() : f.UncheckedRead())" % n, which))
            else:
                tgt = f
                while ir_util.field_is_virtual(tgt):
                    tgt = ir_util.find_object(tgt.write_method.alias.path[-1], self.ir)
                owner = ir_util.find_parent_object(tgt.name.canonical_name, self.ir)
                L.append("    " + self._dump_type(tgt.type, owner, "f", 0))
            L.append("  }")
        L.append("}")
        return "\n".join(L)

    def driver(self, header, top_index, param_values, buffers, probes=None):
        """C++ source: for every buffer, construct the top view and dump observations on one line.
        probes: names of scalar fields of the top structure whose IsComplete()/Read() are printed on an
        extra Q line per buffer (compared with a by-construction oracle, not with the model)."""
        t = self.types[top_index]
        name = "::".join([self.cpp_ns(t)] + list(t.name.canonical_name.object_path[:-1])
                         + ["Make%sView" % t.name.canonical_name.object_path[-1]])
        ptxt = []
        for p, v in zip(t.runtime_parameter, param_values):
            if p.type.which_type == "enumeration":
                en = ir_util.find_object(p.type.enumeration.name, self.ir) if False else None
                raise OutOfModel("enum parameter at top level")
            ptxt.append("%dLL, " % v)
        L = ['#include <cstdio>', '#include <cstdint>', '#include <vector>', '#include <string>', '#include <array>',
             '#include <cstring>', '#include <cstdlib>', '#include <type_traits>', '#include <limits>', '#include <algorithm>', '#include <iterator>', '#include <utility>',
             '#include "runtime/cpp/emboss_cpp_util.h"', '#include "runtime/cpp/emboss_prelude.h"',
             '#include "runtime/cpp/emboss_enum_view.h"', '#include "runtime/cpp/emboss_text_util.h"',
             '#define private public', header if header.startswith('/*INLINE*/') else '#include "%s"' % header, '#undef private',
             'static void out(long long x) { ::std::printf(" %lld", x); }',
             'static void outv(unsigned long long x) { ::std::printf(" %llu", x); }',
             'static void outv(long long x) { ::std::printf(" %lld", x); }',
             'static void outv(unsigned long x) { ::std::printf(" %lu", x); }',
             'static void outv(long x) { ::std::printf(" %ld", x); }',
             'static void outv(unsigned x) { ::std::printf(" %u", x); }',
             'static void outv(int x) { ::std::printf(" %d", x); }',
             'static void outv(unsigned short x) { ::std::printf(" %u", (unsigned)x); }',
             'static void outv(short x) { ::std::printf(" %d", (int)x); }',
             'static void outv(unsigned char x) { ::std::printf(" %u", (unsigned)x); }',
             'static void outv(signed char x) { ::std::printf(" %d", (int)x); }',
             'static void outv(bool x) { ::std::printf(" %d", x ? 1 : 0); }',
             'static unsigned long long float_bits(float f) { ::std::uint32_t u; ::std::memcpy(&u, &f, sizeof u); return u; }',
             'static unsigned long long float_bits(double d) { ::std::uint64_t u; ::std::memcpy(&u, &d, sizeof u); return u; }',
             'static void outm(::emboss::support::Maybe<bool> m) { out(m.Known() ? (m.ValueOrDefault() ? 1 : 0) : -1); }']
        # forward declarations then definitions (mutual nesting)
        for k, tt in enumerate(self.types):
            L.append("template <class V> void dump_T%d(const V &v);" % k)
        for k, tt in enumerate(self.types):
            L.append(self.dump_function(k, tt))
        L.append("int main() {")
        for bi, b in enumerate(buffers):
            arr = ", ".join(str(x) for x in b) if b else ""
            L.append("  { static const unsigned char init[] = {%s0}; const ::std::size_t n = %d;" % (arr + (", " if arr else ""), len(b)))
            L.append("    unsigned char *buf = static_cast<unsigned char *>(::std::malloc(n ? n : 1)); ::std::memcpy(buf, init, n);")
            L.append("    auto v = %s(%sbuf, n);" % (name, "".join(ptxt)))
            L.append('    ::std::printf("B%d");  out(-1); out(v.Ok() ? 1 : 0); dump_T%d(v); ::std::printf("\\n");' % (bi, top_index))
            if probes:
                L.append('    ::std::printf("Q%d");' % bi + " ".join(
                    '{ outm(v.has_%s()); auto f = v.%s(); if (f.Ok()) outv(f.Read()); else ::std::printf(" x"); }' % (nm, nm) for nm in probes)
                    + ' ::std::printf("\\n");')
            L.append('    ::std::free(buf); }')
        L.append("  return 0; }")
        return "\n".join(L) + "\n"


# ---------------------------------------------------------------------------
# C04: a driver that exercises the whole checked API under sanitizers
# ---------------------------------------------------------------------------
def _scalar_paths(tr, t, acc, depth, out):
    """C++ statements that try writes on every writable scalar reachable from view expression acc."""
    for f in t.structure.field:
        n = tr.field_cpp_name(f)
        if ir_util.field_is_virtual(f):
            wm = f.write_method.which_method
            if wm == "transform" and not n.startswith("Intrinsic"):
                out.append("try_writes_small(%s.%s());" % (acc, n))
            continue
        if f.name.is_anonymous and False:
            continue
        ty = f.type
        if ir_util.is_array(ty):
            base = ty.array_type.base_type
            if ir_util.is_array(base):
                continue
            td = ir_util.find_object(base.atomic_type.reference, tr.ir)
            if td.has_field("structure"):
                if depth < 3:
                    inner = []
                    _scalar_paths(tr, td, "el", depth + 1, inner)
                    out.append("{ auto arr = %s.%s(); for (::std::size_t i = 0; i < arr.ElementCount() && i < 4; ++i) { auto el = arr[i]; %s } }"
                               % (acc, n, " ".join(inner)))
            else:
                fn = "try_writes_float" if tuple(td.name.canonical_name.object_path) == ("Float",) and not td.name.canonical_name.module_file else "try_writes"
                out.append("{ auto arr = %s.%s(); for (::std::size_t i = 0; i < arr.ElementCount() && i < 4; ++i) { %s(arr[i]); } }" % (acc, n, fn))
            continue
        td = ir_util.find_object(ty.atomic_type.reference, tr.ir)
        if td.has_field("structure"):
            if depth < 3:
                _scalar_paths(tr, td, "%s.%s()" % (acc, n), depth + 1, out)
        elif tuple(td.name.canonical_name.object_path) == ("Float",) and not td.name.canonical_name.module_file:
            out.append("try_writes_float(%s.%s());" % (acc, n))
        else:
            out.append("try_writes(%s.%s());" % (acc, n))


def safety_driver(tr, header, top_index, buffers):
    base = tr.driver(header, top_index, [], [])
    head = base[: base.index("int main() {")]
    t = tr.types[top_index]
    name = "::".join([tr.cpp_ns(t)] + list(t.name.canonical_name.object_path[:-1])
                     + ["Make%sView" % t.name.canonical_name.object_path[-1]])
    writes = []
    _scalar_paths(tr, t, "v", 0, writes)
    skip_names = set()
    for ty in tr.types:
        if ty.has_field("structure"):
            for f in ty.structure.field:
                if ir_util.field_is_virtual(f) and f.write_method.which_method == "transform":
                    skip_names.add(f.name.name.text)
    L = [head,
         "template <class T> struct is_bool_t { static const bool value = false; };",
         "template <> struct is_bool_t<bool> { static const bool value = true; };",
         "static volatile long long sink = 0;",
         "template <class F> void try_writes(F f) {",
         "  typedef typename ::std::decay<decltype(::std::declval<F>().Read())>::type VT;",
         "  (void)f.Ok();",
         "  const long long vals[] = {0, 1, 2, 9, 10, 127, 128, 255, 256, 1000, 65535, 65536, -1, -128, -129, 2147483647LL, -2147483647LL - 1, 4294967295LL};",
         "  for (long long x : vals) { VT y = static_cast<VT>(x); bool c = f.CouldWriteValue(y); bool w = f.TryToWrite(y); sink += c + w; if (f.Ok()) sink += static_cast<long long>(f.Read()); }",
         "}",
         "template <class F> void try_writes_float(F f) {",
         "  typedef typename ::std::decay<decltype(::std::declval<F>().Read())>::type VT;",
         "  (void)f.Ok();",
         "  const VT vals[] = {VT(0), -VT(0), VT(1), VT(-2.5), ::std::numeric_limits<VT>::infinity(), -::std::numeric_limits<VT>::infinity(), ::std::numeric_limits<VT>::quiet_NaN(), ::std::numeric_limits<VT>::denorm_min(), ::std::numeric_limits<VT>::max()};",
         "  for (VT y : vals) { bool c = f.CouldWriteValue(y); bool w = f.TryToWrite(y); sink += c + w; if (f.Ok()) sink += static_cast<long long>(float_bits(f.Read()) & 0xff); }",
         "}",
         "template <class F> void try_writes_small(F f) {   // virtual fields: arguments inside the int32 range of the transform (finding F8 is probed separately)",
         "  typedef typename ::std::decay<decltype(::std::declval<F>().Read())>::type VT;",
         "  const long long vals[] = {0, 1, 2, 9, 10, 127, 128, 255, 256, 1000, -1, -100};",
         "  for (long long x : vals) { VT y = static_cast<VT>(x); bool c = f.CouldWriteValue(y); bool w = f.TryToWrite(y); sink += c + w; if (f.Ok()) sink += static_cast<long long>(f.Read()); }",
         "}",
         "// adversarial numerals for the text reader: every numeric token of a written text replaced by literals at and just",
         "// beyond the limits of every integer type, in every base, with signs, separators and malformed shapes",
         "static const char *const kLiterals[] = {\"-0x8000000000000001\", \"-0x800000000000000f\", \"-0x8000000000000000\", \"-0x80000001\", \"-0x8000000f\",",
         "  \"-0x80000000\", \"-0x8001\", \"-0x8000\", \"-0x81\", \"-0x80\", \"-0b10000001\", \"-0b10000000\", \"-0b1000000000000001\",",
         "  \"-0b10000000000000000000000000000001\", \"-0b1000000000000000000000000000000000000000000000000000000000000001\",",
         "  \"-9223372036854775809\", \"-9223372036854775808\", \"9223372036854775807\", \"9223372036854775808\", \"18446744073709551615\", \"18446744073709551616\",",
         "  \"0xffffffffffffffff\", \"0x1_0000_0000_0000_0000\", \"0xffff_ffff_ffff_ffff_f\", \"-2147483649\", \"-2147483648\", \"2147483648\", \"4294967296\", \"-32769\", \"65536\", \"-129\", \"-128\", \"256\",",
         "  \"-0\", \"0b\", \"0x\", \"-\", \"_1\", \"1_\", \"1__2\", \"--1\", \"+1\", \"1e5\", \"0x-1\", \"99999999999999999999999999999999\", \"-99999999999999999999999999999999\", \"true\", \"NaN\", \"-Inf\"};",
         "// writable add/subtract virtual fields are left out here: their known overflow (finding F8) is probed separately and would end the run",
         "static const char *const kSkipNames[] = {%s\"\"};" % "".join('"%s", ' % n for n in sorted(skip_names)),
         "static bool num_start(const ::std::string &t, ::std::size_t i) { return (t[i] >= '0' && t[i] <= '9') || (t[i] == '-' && i + 1 < t.size() && t[i + 1] >= '0' && t[i + 1] <= '9'); }",
         "static bool num_char(char c) { return (c >= '0' && c <= '9') || (c >= 'a' && c <= 'f') || (c >= 'A' && c <= 'F') || c == 'x' || c == 'X' || c == '_' || c == '-'; }",
         "static bool skipped_name(const ::std::string &t, ::std::size_t i) {   // is the numeral at i the value of a field in kSkipNames?",
         "  ::std::size_t e = i; while (e > 0 && t[e - 1] == ' ') --e; if (e == 0 || t[e - 1] != ':') return false; --e;",
         "  ::std::size_t b = e; while (b > 0 && ((t[b - 1] >= 'a' && t[b - 1] <= 'z') || (t[b - 1] >= '0' && t[b - 1] <= '9') || t[b - 1] == '_')) --b;",
         "  ::std::string nm = t.substr(b, e - b); for (const char *k : kSkipNames) if (nm == k) return true; return false; }",
         "template <class V> void text_literals(V w, const ::std::string &t) {",
         "  for (::std::size_t i = 0; i < t.size(); ++i) {",
         "    if (num_start(t, i) && skipped_name(t, i)) { while (i < t.size() && num_char(t[i])) ++i; continue; }",
         "    if (!num_start(t, i) || (i > 0 && (num_char(t[i - 1]) || (t[i - 1] >= 'g' && t[i - 1] <= 'z') || (t[i - 1] >= 'G' && t[i - 1] <= 'Z')))) continue;",
         "    ::std::size_t j = i + 1; while (j < t.size() && num_char(t[j])) ++j;",
         "    for (const char *lit : kLiterals) { ::std::string m = t.substr(0, i) + lit + t.substr(j); sink += ::emboss::UpdateFromText(w, m); }",
         "    i = j;",
         "  }",
         "}",
         "static int cur_len = -1;",
         "static void mark(const char *what, int b) { ::std::printf(\"@ buffer=%d op=%s\\n\", b, what); ::std::fflush(stdout); }",
         "int main() {"]
    for bi, b in enumerate(buffers):
        # every prefix length of the base content is exercised (exact-size allocations), so every
        # field boundary is hit as an end of buffer
        arr = ", ".join(str(x) for x in b)
        L.append("  { static const unsigned char init[] = {%s0}; const ::std::size_t full = %d;" % (arr + (", " if arr else ""), len(b)))
        L.append("   for (::std::size_t n = 0; n <= full; ++n) {")
        L.append("    unsigned char *buf = static_cast<unsigned char *>(::std::malloc(n ? n : 1)); ::std::memcpy(buf, init, n);")
        L.append("    unsigned char *buf2 = static_cast<unsigned char *>(::std::malloc(n ? n : 1)); ::std::memcpy(buf2, init, n);")
        L.append("    auto v = %s(buf, n); auto w = %s(buf2, n);" % (name, name))
        L.append('    mark("observe", %d); ::std::printf("B%d len=%%d", (int)n); out(v.Ok() ? 1 : 0); dump_T%d(v); ::std::printf("\\n");' % (bi, bi, top_index))
        L.append('    mark("aligned_view", %d); { auto va = %s<unsigned char, 8>(buf, n); ::std::printf("L%d len=%%d", (int)n); out(va.Ok() ? 1 : 0); dump_T%d(va); ::std::printf("\\n"); }'
                 % (bi, name.replace("::Make", "::MakeAligned"), bi, top_index))
        L.append('    mark("text", %d); { ::std::string t1 = ::emboss::WriteToString(v, ::emboss::TextOutputOptions().WithAllowPartialOutput(true));' % bi)
        L.append('      ::std::string t2 = ::emboss::WriteToString(v, ::emboss::TextOutputOptions().WithAllowPartialOutput(true).Multiline(true).WithComments(true).WithDigitGrouping(true).WithNumericBase(16));')
        L.append('      // every numeric base, with and without digit grouping (the digit buffers of the integer writer)')
        L.append('      for (int base : {2, 10, 16}) for (int grp = 0; grp < 2; ++grp) { ::std::string t3 = ::emboss::WriteToString(v, ::emboss::TextOutputOptions().WithAllowPartialOutput(true).WithNumericBase(base).WithDigitGrouping(grp != 0)); sink += (long long)t3.size(); sink += ::emboss::UpdateFromText(w, t3); }')
        L.append('      mark("update_from_text", %d); sink += ::emboss::UpdateFromText(w, t1); sink += ::emboss::UpdateFromText(w, t2); sink += ::emboss::UpdateFromText(w, "{ bogus: 1 }"); sink += ::emboss::UpdateFromText(w, "{"); }' % bi)
        L.append('    if (n == full) { mark("text_literals", %d); text_literals(w, ::emboss::WriteToString(v, ::emboss::TextOutputOptions().WithAllowPartialOutput(true))); }' % bi)
        L.append('    mark("copy_equals", %d); sink += w.TryToCopyFrom(v); if (v.Ok() && w.Ok()) { sink += v.Equals(w); sink += w.Equals(v); }' % bi)
        L.append('    mark("copy_other_length", %d); { unsigned char *buf3 = static_cast<unsigned char *>(::std::malloc(full ? full : 1)); ::std::memcpy(buf3, init, full);' % bi)
        L.append('      auto vf = %s(buf3, full); sink += w.TryToCopyFrom(vf); sink += vf.TryToCopyFrom(v); if (vf.Ok() && v.Ok()) sink += vf.Equals(v) + v.Equals(vf); ::std::free(buf3); }' % name)
        L.append('    mark("writes", %d); %s' % (bi, " ".join(writes)))
        L.append('    mark("observe_after_writes", %d); ::std::printf("A%d"); out(v.Ok() ? 1 : 0); dump_T%d(v); ::std::printf("\\n");' % (bi, bi, top_index))
        L.append("    ::std::free(buf); ::std::free(buf2); } }")
    L.append('  ::std::printf("DONE\\n"); return 0; }')
    return "\n".join(L) + "\n"


# ---------------------------------------------------------------------------
# C20: Equals / TryToCopyFrom on two views over one allocation
# ---------------------------------------------------------------------------
def pair_driver(tr, header, top_index, cases):
    """cases: list of (mem bytes, (o1, l1), (o2, l2)); v1 is the destination, v2 the source."""
    base = tr.driver(header, top_index, [], [])
    head = base[: base.index("int main() {")]
    t = tr.types[top_index]
    name = "::".join([tr.cpp_ns(t)] + list(t.name.canonical_name.object_path[:-1])
                     + ["Make%sView" % t.name.canonical_name.object_path[-1]])
    L = [head, "int main() {"]
    for ci, (mem, (o1, l1), (o2, l2)) in enumerate(cases):
        arr = ", ".join(str(x) for x in mem)
        L.append("  { static const unsigned char init[] = {%s0}; const ::std::size_t n = %d;" % (arr + (", " if arr else ""), len(mem)))
        L.append("    unsigned char *mem = static_cast<unsigned char *>(::std::malloc(n ? n : 1)); ::std::memcpy(mem, init, n);")
        L.append("    auto v1 = %s(mem + %d, (::std::size_t)%d); auto v2 = %s(mem + %d, (::std::size_t)%d);" % (name, o1, l1, name, o2, l2))
        L.append('    ::std::printf("P%d"); bool k1 = v1.Ok(), k2 = v2.Ok(); out(k1); out(k2);' % ci)
        L.append("    if (k1 && k2) { out(v1.Equals(v2) ? 1 : 0); out(v2.Equals(v1) ? 1 : 0); }")
        L.append("    bool r = v1.TryToCopyFrom(v2); out(r ? 1 : 0); for (::std::size_t i = 0; i < n; ++i) out(mem[i]);")
        L.append("    if (r) { bool j1 = v1.Ok(), j2 = v2.Ok(); out(j1); if (j1 && j2) out(v1.Equals(v2) ? 1 : 0); }")
        L.append('    ::std::printf("\\n"); ::std::free(mem); }')
    L.append("  return 0; }")
    return "\n".join(L) + "\n"
