"""cpp_build.py -- generate headers with the working tree's embossc, build C++ drivers, run them.

The tree used is fw.REPO (environment variable EMBOSS_REPO, default /repo): its
`embossc` is run with PYTHONPATH=fw.REPO (so a scratch copy is really used), and
drivers are compiled with `-I fw.REPO`, i.e. runtime headers are included as
"runtime/cpp/...", exactly as generated headers do.

API (keep it small; C01/C04/C06/C19/C20 reuse it)

  CppJob(name, emb, driver, defines=(), cxx="g++", cxxflags=None, run_args=(), extra_drivers=None)
      name     unique identifier ([A-Za-z0-9_]+); the module is written to <workdir>/<name>/<name>.emb
      emb      text of the .emb file, or a dict {relative_file_name: text} whose first key is compiled
               (further files are importable); None = no module, driver only
      driver   C++ source; it should `#include "<name>.emb.h"` (the directory is on the include path)
      defines  e.g. ["EMBOSS_NO_OPTIMIZATIONS"]   (-D flags)
      cxxflags default ["-std=c++14", "-O0"]; pass e.g. sanitizer flags for C04
      extra_drivers  optional {tag: C++ source}: further drivers built against the same generated header (compiled
               concurrently with the main one, same flags); their outcome is in CppResult.extra[tag] = CppResult-like
               object with .ok .stage .rc .log .lines (the job's .ok does not depend on them)
  run_jobs(workdir, jobs, parallel=16, timeout=300) -> {name: CppResult}
      Runs embossc -> compiler -> binary for every job, up to `parallel` jobs at once.
  CppResult
      .ok        True when all three stages exited 0
      .stage     "embossc" | "compile" | "run" | "done"  (stage reached / failed)
      .rc .log   exit status and combined stderr/stdout of the failing stage ("" on success)
      .lines     stdout lines of the driver (one observation per line)
      .header    path of the generated header;  .dir  the job directory;  .times  {stage: seconds}
  parse_observations(lines) -> [(tag, {key: value})]
      line format:  TAG key=value key=value ...   (values without blanks)
  hexbuf(b) / unhex(s)   bytes <-> lowercase hex

Everything is run under a timeout with stdin closed; nothing is cached between runs.
"""
import concurrent.futures
import os
import shutil
import subprocess
import threading
import time

from harness import fw


class CppJob:
    def __init__(self, name, emb, driver, defines=(), cxx="g++", cxxflags=None, run_args=(), extra_drivers=None):
        self.name, self.emb, self.driver = name, emb, driver
        self.extra_drivers = dict(extra_drivers or {})
        self.defines = list(defines)
        self.cxx = cxx
        self.cxxflags = list(cxxflags) if cxxflags is not None else ["-std=c++14", "-O0"]
        self.run_args = list(run_args)


class CppResult:
    def __init__(self, name, d):
        self.name, self.dir = name, d
        self.ok, self.stage, self.rc, self.log = False, "embossc", None, ""
        self.lines, self.header, self.times = [], None, {}
        self.extra = {}

    def __repr__(self):
        return "CppResult(%s ok=%s stage=%s rc=%s)" % (self.name, self.ok, self.stage, self.rc)


def _run(cmd, cwd, timeout, env=None, capture_stdout_separately=False):
    e = dict(os.environ)
    if env:
        e.update(env)
    try:
        p = subprocess.run(cmd, cwd=cwd, env=e, stdin=subprocess.DEVNULL, stdout=subprocess.PIPE,
                           stderr=subprocess.PIPE if capture_stdout_separately else subprocess.STDOUT,
                           timeout=timeout, text=True, errors="replace")
        return p.returncode, p.stdout, (p.stderr if capture_stdout_separately else "")
    except subprocess.TimeoutExpired as ex:
        out = ex.stdout or ""
        if isinstance(out, bytes):
            out = out.decode(errors="replace")
        return 124, out, "[timeout after %ss]" % timeout


def _one(workdir, job, timeout):
    d = os.path.join(workdir, job.name)
    shutil.rmtree(d, ignore_errors=True)
    os.makedirs(d)
    res = CppResult(job.name, d)
    # --- embossc
    if job.emb is not None:
        files = job.emb if isinstance(job.emb, dict) else {job.name + ".emb": job.emb}
        first = None
        for rel, text in files.items():
            first = first or rel
            p = os.path.join(d, rel)
            os.makedirs(os.path.dirname(p), exist_ok=True)
            with open(p, "w") as f:
                f.write(text)
        t0 = time.time()
        rc, out, _ = _run([fw.PY, os.path.join(fw.REPO, "embossc"), "--color-output", "never",
                           "--import-dir", d, "--output-path", d, first],
                          d, timeout, env=fw.repo_env())
        res.times["embossc"] = time.time() - t0
        res.header = os.path.join(d, first + ".h")
        if rc != 0 or not os.path.exists(res.header):
            res.rc, res.log = rc, "\n".join(l for l in out.splitlines() if "WARNING conda" not in l)[-6000:]
            return res
    # --- compile + run (extra drivers concurrently)
    def build_run(tag, text, r):
        r.stage = "compile"
        src = os.path.join(d, "driver%s.cc" % tag)
        with open(src, "w") as f:
            f.write(text)
        exe = os.path.join(d, "driver%s" % tag)
        t0 = time.time()
        rc, out, _ = _run([job.cxx] + job.cxxflags + ["-D" + x for x in job.defines] +
                          ["-I", fw.REPO, "-I", d, src, "-o", exe], d, timeout)
        r.times["compile"] = time.time() - t0
        if rc != 0:
            r.rc, r.log = rc, out[-6000:]
            return r
        r.stage = "run"
        t0 = time.time()
        rc, out, err = _run([exe] + job.run_args, d, timeout, capture_stdout_separately=True)
        r.times["run"] = time.time() - t0
        r.lines = out.splitlines()
        if rc != 0:
            r.rc, r.log = rc, (err or "")[-4000:] + "\n[last stdout lines]\n" + "\n".join(r.lines[-5:])
            return r
        r.stage, r.ok, r.rc = "done", True, 0
        return r

    threads = []
    for tag, text in job.extra_drivers.items():
        er = CppResult(job.name + ":" + tag, d)
        er.header = res.header
        res.extra[tag] = er
        th = threading.Thread(target=build_run, args=("_" + tag, text, er))
        th.start()
        threads.append(th)
    build_run("", job.driver, res)
    for th in threads:
        th.join()
    return res


def run_jobs(workdir, jobs, parallel=16, timeout=300):
    os.makedirs(workdir, exist_ok=True)
    names = [j.name for j in jobs]
    assert len(set(names)) == len(names), "duplicate job names"
    out = {}
    with concurrent.futures.ThreadPoolExecutor(max_workers=max(1, min(parallel, 16))) as ex:
        futs = {ex.submit(_one, workdir, j, timeout): j for j in jobs}
        for f in concurrent.futures.as_completed(futs):
            r = f.result()
            out[r.name] = r
    return out


def parse_observations(lines):
    obs = []
    for l in lines:
        parts = l.split()
        if not parts:
            continue
        kv = {}
        for p in parts[1:]:
            k, _, v = p.partition("=")
            kv[k] = v
        obs.append((parts[0], kv))
    return obs


def hexbuf(b):
    return bytes(b).hex()


def unhex(s):
    return bytes.fromhex(s)
