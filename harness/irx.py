"""IR translator: real front-end IR expressions -> terms of EmbossV.Bounds.Model.expr.

Fail-closed: anything it does not understand raises OutOfModel (counted and
reported by callers, never silently dropped).
"""
from compiler.util import ir_data
from compiler.util import ir_util

FM = ir_data.FunctionMapping


class OutOfModel(Exception):
    pass


_CMP = {FM.EQUALITY: "CEq", FM.INEQUALITY: "CNe", FM.LESS: "CLt", FM.LESS_OR_EQUAL: "CLe",
        FM.GREATER: "CGt", FM.GREATER_OR_EQUAL: "CGe"}


def _z(n):
    n = int(n)
    return "(%d)" % n if n < 0 else "%d" % n


class Translator:
    """Translates expressions of one IR; integer leaves are numbered and described by
    (kind, size) so that the model recomputes the leaf ranges itself."""

    def __init__(self, ir):
        self.ir = ir
        self.int_leaves = {}     # key -> index
        self.int_specs = []      # index -> (kind, size|None)
        self.bool_leaves = {}
        self.enum_leaves = {}
        self._stack = []

    # -- leaves ---------------------------------------------------------------
    def _leaf_spec(self, field_path, field):
        if isinstance(field, ir_data.Field):
            rtype = field.type
        else:
            rtype = field.physical_type_alias
        if rtype is None or not rtype.has_field("atomic_type"):
            raise OutOfModel("integer leaf without atomic type")
        size = None
        if rtype.has_field("size_in_bits"):
            size = ir_util.constant_value(rtype.size_in_bits)
        elif isinstance(field, ir_data.Field):
            fs = ir_util.constant_value(field.location.size)
            if fs is not None:
                parent = ir_util.find_parent_object(field_path, self.ir)
                size = fs * parent.addressable_unit
        name = tuple(rtype.atomic_type.reference.canonical_name.object_path)
        if rtype.atomic_type.reference.canonical_name.module_file:
            raise OutOfModel("integer leaf of non-prelude type")
        kinds = {("UInt",): "KUInt", ("Int",): "KInt", ("Bcd",): "KBcd"}
        if name not in kinds:
            raise OutOfModel("integer leaf of type %r" % (name,))
        return kinds[name], size

    def _leaf(self, expression):
        fr = expression.field_reference
        key = ir_util.hashable_form_of_field_reference(fr)
        field = ir_util.find_object(fr.path[-1], self.ir)
        wt = expression.type.which_type
        if isinstance(field, ir_data.Field) and ir_util.field_is_virtual(field):
            if key in self._stack:
                raise OutOfModel("cyclic virtual reference")
            self._stack.append(key)
            try:
                return "(ERef %s)" % self.expr(field.read_transform)
            finally:
                self._stack.pop()
        if wt == "integer":
            if key not in self.int_leaves:
                self.int_leaves[key] = len(self.int_specs)
                self.int_specs.append(self._leaf_spec(fr.path[-1], field))
            return "(EVar %d)" % self.int_leaves[key]
        if wt == "boolean":
            return "(EBVar %d)" % self.bool_leaves.setdefault(key, len(self.bool_leaves))
        if wt == "enumeration":
            return "(EEVar %d)" % self.enum_leaves.setdefault(key, len(self.enum_leaves))
        raise OutOfModel("leaf of type %s" % wt)

    # -- expressions ----------------------------------------------------------
    def expr(self, e):
        w = e.which_expression
        if w == "constant":
            return "(EConst %s)" % _z(e.constant.value)
        if w == "boolean_constant":
            return "(EBool %s)" % ("true" if e.boolean_constant.value else "false")
        if w == "constant_reference":
            obj = ir_util.find_object(e.constant_reference.canonical_name, self.ir)
            if isinstance(obj, ir_data.EnumValue):
                v = ir_util.constant_value(obj.value)
                if v is None:
                    raise OutOfModel("enum value not constant")
                return "(EEnum %s)" % _z(v)
            if isinstance(obj, ir_data.Field) and ir_util.field_is_virtual(obj):
                return "(ECRef %s)" % self.expr(obj.read_transform)
            raise OutOfModel("constant_reference to %s" % type(obj).__name__)
        if w == "field_reference":
            return self._leaf(e)
        if w == "builtin_reference":
            raise OutOfModel("builtin " + e.builtin_reference.canonical_name.object_path[0])
        if w == "function":
            f = e.function.function
            args = e.function.args
            if f == FM.PRESENCE:
                field = ir_util.find_object(args[0].field_reference.path[-1], self.ir)
                if not isinstance(field, ir_data.Field):
                    raise OutOfModel("$present of non-field")
                return "(ERef %s)" % self.expr(field.existence_condition)
            a = [self.expr(x) for x in args]
            if f == FM.ADDITION:
                return "(EAdd %s %s)" % tuple(a)
            if f == FM.SUBTRACTION:
                return "(ESub %s %s)" % tuple(a)
            if f == FM.MULTIPLICATION:
                return "(EMul %s %s)" % tuple(a)
            if f in _CMP:
                t = args[0].type.which_type
                if t == "integer":
                    return "(ECmp %s %s %s)" % (_CMP[f], a[0], a[1])
                if t == "enumeration" and f in (FM.EQUALITY, FM.INEQUALITY):
                    return "(EECmp %s %s %s)" % ("true" if f == FM.INEQUALITY else "false", a[0], a[1])
                if t == "boolean" and f in (FM.EQUALITY, FM.INEQUALITY):
                    return "(EBop %s %s %s)" % ("BNe" if f == FM.INEQUALITY else "BEq", a[0], a[1])
                raise OutOfModel("comparison %s on %s" % (f, t))
            if f in (FM.AND, FM.OR):
                if len(a) != 2:
                    raise OutOfModel("n-ary and/or")
                return "(EBop %s %s %s)" % ("BAnd" if f == FM.AND else "BOr", a[0], a[1])
            if f == FM.CHOICE:
                return "(EChoice %s %s %s)" % tuple(a)
            if f == FM.MAXIMUM:
                return "(EMax [%s])" % "; ".join(a)
            if f == FM.UPPER_BOUND:
                return "(EUpper %s)" % a[0]
            if f == FM.LOWER_BOUND:
                return "(ELower %s)" % a[0]
            raise OutOfModel("function %s" % f)
        raise OutOfModel("expression kind %r" % w)

    def tenv(self):
        """Coq term for the list of leaf specs."""
        return "[" + "; ".join("(%s, %s)" % (k, "None" if s is None else "Some %s" % _z(s))
                                for k, s in self.int_specs) + "]"


def _ext(s):
    if s == "infinity":
        return "PosInf"
    if s == "-infinity":
        return "NegInf"
    return "(Fin %s)" % _z(s)


def annotation(e):
    """Coq term (ares) for the type annotation the real pass attached to e, or None if not annotated."""
    t = e.type
    w = t.which_type
    if w == "integer":
        i = t.integer
        if not (i.modulus and i.minimum_value and i.maximum_value and i.modular_value is not None):
            return None
        if i.modular_value in ("infinity", "-infinity"):
            return None
        md = "None" if i.modulus == "infinity" else "(Some %s)" % _z(i.modulus)
        return "(AInt (mk_aval %s %s %s %s))" % (_ext(i.minimum_value), _ext(i.maximum_value), md, _z(i.modular_value))
    if w == "boolean":
        if t.boolean.has_field("value"):
            return "(ABool (Some %s))" % ("true" if t.boolean.value else "false")
        return "(ABool None)"
    if w == "enumeration":
        if t.enumeration.has_field("value"):
            return "(AEnum (Some %s))" % _z(t.enumeration.value)
        return "(AEnum None)"
    return None


def preorder_annotations(e):
    """Annotations of e and its sub-expressions in pre-order, the way the model's
    `annots` enumerates them (not descending below $present)."""
    out = [annotation(e)]
    if e.which_expression == "function" and e.function.function != FM.PRESENCE:
        for a in e.function.args:
            out += preorder_annotations(a)
    return out


def top_level_expressions(ir, module_index=0):
    """All maximal Expression nodes of one module with a short description of where they sit."""
    from compiler.util import traverse_ir
    found = []

    def visit(expression, source_file_name=None, type_definition=None, field=None, in_attribute=None):
        where = []
        if type_definition is not None and type_definition.name is not None:
            where.append(".".join(type_definition.name.canonical_name.object_path))
        if field is not None and field.name is not None and field.name.name is not None:
            where.append(field.name.name.text)
        found.append((expression, "/".join(where), in_attribute.name.text if in_attribute is not None else None))

    def attr_action(a):
        return {"in_attribute": a}

    traverse_ir.fast_traverse_ir_top_down(
        ir.module[module_index], [ir_data.Expression], visit,
        skip_descendants_of={ir_data.Expression},
        incidental_actions={ir_data.Attribute: attr_action},
        parameters={"in_attribute": None},
    )
    return found
