"""C18 worker: runs the three command-line mains (embossc; emboss_front_end then
emboss_codegen_cpp) on module trees written to disk, with the exact argument
vectors given (several --import-dir options, any order, duplicates, missing
directories), from the given working directory, and reports for each route the
return code, stderr, header and serialized IR.  It also computes the reference
result: the files chosen by the documented first-match rule
(emboss_front_end._find_in_dirs_and_read: directories in command-line order,
"." first because it is argparse's default entry, first directory that has the
file wins), compiled in process.

usage: irser_cli_worker.py job.json result.json        (PYTHONPATH = repository)
"""
import contextlib
import hashlib
import io
import json
import os
import sys
import traceback

REPO = os.environ.get("EMBOSS_REPO", "/repo")


def _embossc_main():
    import importlib.machinery
    import importlib.util
    loader = importlib.machinery.SourceFileLoader("embossc_driver", os.path.join(REPO, "embossc"))
    spec = importlib.util.spec_from_loader("embossc_driver", loader)
    mod = importlib.util.module_from_spec(spec)
    loader.exec_module(mod)
    return mod.main


def captured(fn):
    err, out = io.StringIO(), io.StringIO()
    rc, exc = None, None
    try:
        with contextlib.redirect_stderr(err), contextlib.redirect_stdout(out):
            rc = fn()
    except SystemExit as ex:
        rc = ex.code if isinstance(ex.code, int) else 2
    except Exception as ex:      # a driver that dies is an observation
        tb = traceback.extract_tb(ex.__traceback__)
        exc = "%s in %s: %s" % (type(ex).__name__, tb[-1].name, str(ex)[:200])
    return rc, err.getvalue(), exc


def read(p):
    return open(p, encoding="utf-8").read() if os.path.exists(p) else None


def sha(x):
    return None if x is None else hashlib.sha1(x.encode("utf-8", "surrogatepass")).hexdigest()


def reference(cwd, dirs, main):
    """First-match rule, in process."""
    from compiler.front_end import glue
    from compiler.back_end.cpp import header_generator
    from compiler.util import ir_data_utils
    chosen = {}

    def reader(name):
        for d in ["."] + list(dirs):
            p = os.path.join(cwd, d, name) if not os.path.isabs(d) else os.path.join(d, name)
            try:
                with open(p) as f:
                    text = f.read()
                chosen[name] = os.path.normpath(p)
                return text, None
            except IOError:
                continue
        return None, ["not found: " + name]

    ir, dbg, errs = glue.parse_emboss_file(main, reader)
    if errs or ir is None:
        return {"ok": False, "chosen": chosen}
    header, herrs = header_generator.generate_header(ir, header_generator.Config(include_enum_traits=True))
    return {"ok": not herrs, "chosen": chosen, "header": header, "ir": ir_data_utils.IrDataSerializer(ir).to_json()}


def run_scenario(sc, base, emb_main):
    from compiler.front_end import emboss_front_end
    from compiler.back_end.cpp import emboss_codegen_cpp
    root = os.path.join(base, sc["id"])
    for rel, text in sc["tree"].items():
        fp = os.path.join(root, rel)
        os.makedirs(os.path.dirname(fp), exist_ok=True)
        with open(fp, "w", encoding="utf-8", newline="") as f:
            f.write(text)
    cwd = os.path.join(root, sc["cwd"])
    os.makedirs(cwd, exist_ok=True)
    dirs = [d.replace("$ROOT", root) for d in sc["dirs"]]
    flags = []
    for d in dirs:
        flags += ["--import-dir", d]
    main = sc["main"]
    out1, irp, hp2 = os.path.join(root, "out_embossc"), os.path.join(root, "ir.json"), os.path.join(root, "split.h")
    old = os.getcwd()
    os.chdir(cwd)
    try:
        rc, err, exc = captured(lambda: emb_main(["embossc", "--color-output", "never", "--output-path", out1] + flags + [main]))
        a = {"rc": rc, "stderr": err, "exc": exc, "header": read(os.path.join(out1, main + ".h"))}
        rc1, err1, exc1 = captured(lambda: emboss_front_end.main(emboss_front_end._parse_command_line(
            ["emboss_front_end", "--color-output", "never", "--output-file", irp] + flags + [main])))
        b = {"rc1": rc1, "rc2": None, "stderr": err1, "exc": exc1, "header": None, "ir": read(irp)}
        if rc1 == 0 and exc1 is None and b["ir"] is not None:
            rc2, err2, exc2 = captured(lambda: emboss_codegen_cpp.main(emboss_codegen_cpp._parse_command_line(
                ["emboss_codegen_cpp", "--color-output", "never", "--input-file", irp, "--output-file", hp2])))
            b.update(rc2=rc2, stderr=err1 + err2, exc=exc2, header=read(hp2))
        ref = reference(cwd, dirs, main)
    finally:
        os.chdir(old)
    # which file did the two-program route read?  the IR carries the source text of every module
    texts = {}
    if b["ir"] is not None:
        try:
            for m in json.loads(b["ir"]).get("module", []):
                if m.get("source_file_name"):
                    texts[m["source_file_name"]] = m.get("source_text")
        except ValueError:
            pass
    ref_texts = {name: read(p) for name, p in ref["chosen"].items()}
    res = {"id": sc["id"],
           "embossc": {"rc": a["rc"], "exc": a["exc"], "stderr": a["stderr"][-600:], "header_sha": sha(a["header"])},
           "split": {"rc1": b["rc1"], "rc2": b["rc2"], "exc": b["exc"], "stderr": b["stderr"][-600:],
                     "header_sha": sha(b["header"]), "ir_sha": sha(b["ir"]),
                     "module_texts_sha": {k: sha(v) for k, v in texts.items()}},
           "reference": {"ok": ref["ok"], "chosen": {k: os.path.relpath(v, root) for k, v in ref["chosen"].items()},
                         "header_sha": sha(ref.get("header")), "ir_sha": sha(ref.get("ir")),
                         "module_texts_sha": {k: sha(v) for k, v in ref_texts.items()}}}
    return res


def main(argv):
    job = json.load(open(argv[1], encoding="utf-8"))
    emb_main = _embossc_main()
    out = []
    for sc in job["scenarios"]:
        try:
            out.append(run_scenario(sc, job["base"], emb_main))
        except Exception as ex:
            out.append({"id": sc["id"], "worker_error": traceback.format_exc()[-1500:]})
    with open(argv[2], "w", encoding="utf-8") as f:
        json.dump({"results": out}, f)
    return 0


if __name__ == "__main__":
    sys.exit(main(sys.argv))
