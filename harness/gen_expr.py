"""Generator of .emb modules that are rich in expressions (typed, always accepted
up to the 64-bit gate), used by C05 and reused by other checks."""

INT_EDGES = [0, 1, 2, 3, 4, 5, 7, 8, 10, 12, 15, 16, 20, 100, 255, 256, 1000, 65535, 2**31 - 1, 2**31, 2**32 - 1,
             2**32, 2**40, 2**62, 2**63 - 1, 2**63, 2**64 - 1]


class ExprModule:
    def __init__(self, rng, n_virtual=8, depth=3, big=False):
        self.rng = rng
        self.depth = depth
        self.big = big
        self.int_names = []     # names usable as integer operands
        self.bool_names = []
        self.enum_names = []
        self.lines = []
        self.n_virtual = n_virtual
        self.build()

    def const(self):
        r = self.rng
        if r.random() < 0.75:
            return str(r.choice([0, 1, 2, 3, 4, 5, 6, 7, 8, 9, 10, 12, 16, 20, 24, 32, 100]))
        v = r.choice(INT_EDGES)
        if not self.big and v > 2**40:
            v = r.choice(INT_EDGES[:20])
        return str(v)

    def int_expr(self, d):
        r = self.rng
        if d <= 0 or r.random() < 0.25:
            if self.int_names and r.random() < 0.6:
                return r.choice(self.int_names)
            c = self.const()
            return c if r.random() < 0.85 else "(0-%s)" % c
        k = r.random()
        a = lambda: self.int_expr(d - 1)
        if k < 0.25:
            return "(%s + %s)" % (a(), a())
        if k < 0.45:
            return "(%s - %s)" % (a(), a())
        if k < 0.65:
            return "(%s * %s)" % (a(), a())
        if k < 0.80:
            return "(%s ? %s : %s)" % (self.bool_expr(d - 1), a(), a())
        if k < 0.92:
            n = r.choice([1, 2, 2, 3, 4])
            return "$max(%s)" % ", ".join(a() for _ in range(n))
        # (constant arguments are fine since fix 5ad5b76 gave the bound functions a constant_value)
        arg = self.nonconst_int(d - 1) if r.random() < 0.6 else self.int_expr(d - 1)
        if k < 0.96:
            return "$upper_bound(%s)" % arg
        return "$lower_bound(%s)" % arg

    def nonconst_int(self, d):
        # an expression that mentions at least one field (so that ir_util.constant_value is None)
        if not self.int_names:
            return "0"
        base = self.rng.choice(self.int_names)
        if d <= 0 or self.rng.random() < 0.4:
            return base
        return "(%s %s %s)" % (base, self.rng.choice("+-*"), self.int_expr(d - 1))

    def bool_expr(self, d):
        r = self.rng
        if d <= 0 or r.random() < 0.15:
            if self.bool_names and r.random() < 0.6:
                return r.choice(self.bool_names)
            return r.choice(["true", "false"])
        k = r.random()
        if k < 0.5:
            op = r.choice(["==", "!=", "<", "<=", ">", ">="])
            return "(%s %s %s)" % (self.int_expr(d - 1), op, self.int_expr(d - 1))
        if k < 0.65:
            return "(%s && %s)" % (self.bool_expr(d - 1), self.bool_expr(d - 1))
        if k < 0.8:
            return "(%s || %s)" % (self.bool_expr(d - 1), self.bool_expr(d - 1))
        if k < 0.88 and self.enum_names:
            return "(%s %s %s)" % (self.enum_expr(d - 1), r.choice(["==", "!="]), self.enum_expr(d - 1))
        if k < 0.94:
            return "(%s %s %s)" % (self.bool_expr(d - 1), r.choice(["==", "!="]), self.bool_expr(d - 1))
        if self.present_names and r.random() < 0.8:
            return "$present(%s)" % r.choice(self.present_names)
        return "(%s ? %s : %s)" % (self.bool_expr(d - 1), self.bool_expr(d - 1), self.bool_expr(d - 1))

    def enum_expr(self, d):
        r = self.rng
        if d <= 0 or r.random() < 0.7:
            if self.enum_names and r.random() < 0.5:
                return r.choice(self.enum_names)
            return "Ee." + r.choice(["AA", "BB", "CC"])
        return "(%s ? %s : %s)" % (self.bool_expr(d - 1), self.enum_expr(d - 1), self.enum_expr(d - 1))

    def build(self):
        r = self.rng
        L = self.lines
        L.append('[$default byte_order: "%s"]' % r.choice(["LittleEndian", "BigEndian"]))
        L.append("enum Ee:")
        L.append("  AA = %d" % r.choice([0, 1, 5]))
        L.append("  BB = %d" % r.choice([1, 2, 7]))
        L.append("  CC = %d" % r.choice([1, 3, 300]))
        with_param = r.random() < 0.4
        psize = r.choice([4, 8, 16, 32])
        L.append("struct Ss%s:" % ("(p: UInt:%d)" % psize if with_param else ""))
        self.present_names = []
        if with_param:
            self.int_names.append("p")
        off = 0
        nphys = r.randint(2, 6)
        for i in range(nphys):
            kind = r.choice(["UInt", "UInt", "Int", "Bcd"])
            size = r.choice([1, 1, 2, 4, 8] if self.big else [1, 1, 2, 2, 4])
            name = "f%d" % i
            cond = ""
            if i > 0 and r.random() < 0.3:
                cond = "if %s: " % self.bool_expr(1)
                L.append("  if %s:" % self.bool_expr(1))
                L.append("    %d [+%d]  %s  %s" % (off, size, kind, name))
            else:
                L.append("  %d [+%d]  %s  %s" % (off, size, kind, name))
            off += size
            self.int_names.append(name)
            self.present_names.append(name)
        # one bits block with a flag, small ints and an enum
        L.append("  %d [+2]  bits:" % off)
        L.append("    0 [+1]  Flag  fl")
        w1 = r.randint(1, 7)
        L.append("    1 [+%d]  UInt  bu" % w1)
        L.append("    8 [+4]  Int  bi")
        L.append("    12 [+4]  Ee  en")
        self.bool_names.append("fl")
        self.int_names += ["bu", "bi"]
        self.enum_names.append("en")
        off += 2
        for i in range(self.n_virtual):
            k = r.random()
            name = "v%d" % i
            if k < 0.6:
                L.append("  let %s = %s" % (name, self.int_expr(self.depth)))
                self.int_names.append(name)
            elif k < 0.9:
                L.append("  let %s = %s" % (name, self.bool_expr(self.depth)))
                self.bool_names.append(name)
            else:
                L.append("  let %s = %s" % (name, self.enum_expr(self.depth)))
                self.enum_names.append(name)
        # a dynamically placed field whose location uses expressions
        if r.random() < 0.5:
            L.append("  %s [+%s]  UInt:8[]  tail" % (self.nonconst_int(1), self.nonconst_int(1)))

    def text(self):
        return "\n".join(self.lines) + "\n"
