"""Input generators for C16/C17 (owned by the pipeline checks).

  random_bytes      arbitrary code points (controls, line separators, non-ASCII) and raw byte strings
  token_soup        random sequences of tokens drawn from tokenizer.LITERAL_TOKEN_PATTERNS and the
                    examples / shapes of tokenizer.REGEX_TOKEN_PATTERNS, with random layout
  grammar_derived   random derivations from module_ir.PRODUCTIONS (syntactically valid, semantically
                    arbitrary), identifiers from a small pool so that references sometimes resolve
  semantic_soup     structurally valid modules whose expressions / types / attributes are drawn from a
                    catalogue of rarely combined constructs (parameters in odd places, builtins on
                    constants, zero widths, recursion, imports, ...)
  targeted          the families that are known to reach unguarded code (blocks opened at end of file,
                    $present(parameter), parameter.member, $upper_bound(constant) in comparisons,
                    zero-width integers)
  mutate            line and token mutations of a given text

All randomness comes from the `rng` argument.  Every generator returns (label, text) with
text <= ~300 lines.
"""
import glob
import os
import re

MAX_LINES = 300

SNAKE = ["a", "b", "c", "x", "y", "n", "len", "tag", "f0", "f1", "p", "q", "payload", "flag", "e", "inner"]
CAMEL = ["Foo", "Bar", "Baz", "UInt", "Int", "Flag", "Bcd", "Float", "Ee", "Inner"]
SHOUTY = ["AA", "BB", "CC", "MAX_VALUE"]
NUMBERS = ["0", "1", "2", "3", "4", "7", "8", "16", "32", "64", "65", "255", "0x10", "0b101", "1_000",
           "4294967296", "18446744073709551615", "18446744073709551616", "99999999999999999999999"]
STRINGS = ['"LittleEndian"', '"BigEndian"', '"Null"', '"x"', '""', '"a\\nb"', '"Emit"', '"Skip"', '"kCamelCase"',
           '"SHOUTY_CASE"', '"a::b"']


def _cap(text):
    lines = text.split("\n")
    if len(lines) > MAX_LINES:
        text = "\n".join(lines[:MAX_LINES]) + "\n"
    return text


# ----------------------------------------------------------------------------
def random_bytes(rng):
    kind = rng.randrange(5)
    n = rng.choice([0, 1, 2, 5, 20, 80, 300])
    if kind == 0:      # arbitrary 8-bit
        s = "".join(chr(rng.randrange(256)) for _ in range(n))
    elif kind == 1:    # printable ASCII with line structure
        s = "".join(rng.choice(" \n\t:[]()+-*=<>!&|?.,$#\"'\\_09azAZ") for _ in range(n))
    elif kind == 2:    # unicode incl. line/paragraph separators and spaces
        pool = [0x0b, 0x0c, 0x1c, 0x1d, 0x1e, 0x85, 0xa0, 0x2028, 0x2029, 0x3000, 0x1680, 0xfeff, 0x10ffff, 0xe9,
                0x0a, 0x0d, 0x20, 0x09, 0x61, 0x3a]
        s = "".join(chr(rng.choice(pool)) for _ in range(n))
    elif kind == 3:    # valid prefix followed by garbage
        s = "struct Foo:\n  0 [+1]  UInt  x\n" + "".join(chr(rng.randrange(1, 0x250)) for _ in range(n))
    else:              # garbage inside strings / comments / documentation
        g = "".join(chr(rng.choice([rng.randrange(32, 127), rng.randrange(128, 0x3000)])) for _ in range(n % 40))
        g = g.replace("\u2028", " ").replace("\u2029", " ").replace("\x85", " ")
        s = rng.choice(['-- %s\nstruct Foo:\n  0 [+1]  UInt  x  # %s\n', 'struct Foo:\n  -- %s\n  0 [+1]  UInt  x\n    [text_output: "%s"]\n',
                        '[$default byte_order: "%s"]\n# %s\n']) % (g, g.replace('"', "'").replace("\\", "/"))
    return ("bytes:%d" % kind, _cap(s))


# ----------------------------------------------------------------------------
def _token_pool():
    from compiler.front_end import tokenizer
    pool = list(tokenizer.LITERAL_TOKEN_PATTERNS)
    for p in tokenizer.REGEX_TOKEN_PATTERNS:
        if p.symbol is not None and p.example:
            pool.append(p.example)
    pool += SNAKE + CAMEL + SHOUTY + NUMBERS + STRINGS + ["true", "false", "-- doc", "# c", "emboss_reserved_x",
                                                           "EmbossReservedX", "aB", "0x", "1__0", "$bogus", "--x"]
    return pool


def token_soup(rng):
    pool = _token_pool()
    lines = []
    indent = 0
    for _ in range(rng.choice([1, 2, 5, 12, 40])):
        k = rng.random()
        if k < 0.25:
            indent = max(0, indent + rng.choice([-2, -1, 1, 2, 2]))
        n = rng.choice([0, 1, 2, 3, 5, 8])
        lines.append(" " * indent + " ".join(rng.choice(pool) for _ in range(n)))
    return ("soup", _cap("\n".join(lines) + rng.choice(["\n", "", "\n\n"])))


# ----------------------------------------------------------------------------
class Grammar:
    _cache = None

    def __init__(self):
        from compiler.front_end import module_ir
        self.start = module_ir.START_SYMBOL
        self.by_lhs = {}
        for p in module_ir.PRODUCTIONS:
            self.by_lhs.setdefault(p.lhs, []).append(p.rhs)
        self.height = {}
        changed = True
        while changed:
            changed = False
            for lhs, alts in self.by_lhs.items():
                for rhs in alts:
                    hs = [0 if s not in self.by_lhs else self.height.get(s) for s in rhs]
                    if any(h is None for h in hs):
                        continue
                    h = 1 + max(hs + [0])
                    if self.height.get(lhs) is None or h < self.height[lhs]:
                        self.height[lhs] = h
                        changed = True

    @classmethod
    def get(cls):
        if cls._cache is None:
            cls._cache = Grammar()
        return cls._cache

    def rhs_height(self, rhs):
        return 1 + max([self.height.get(s, 0) if s in self.by_lhs else 0 for s in rhs] + [0])

    def derive(self, rng, budget=14, max_tokens=900):
        out = []

        def go(sym, depth):
            if len(out) > max_tokens:
                depth = 0
            if sym not in self.by_lhs:
                out.append(sym)
                return
            alts = self.by_lhs[sym]
            if depth <= 0:
                m = min(self.rhs_height(r) for r in alts)
                alts = [r for r in alts if self.rhs_height(r) == m]
            else:
                ok = [r for r in alts if self.rhs_height(r) <= depth + 6]
                alts = ok or alts
                # prefer non-empty alternatives a little so that output is not trivial
                if sym.endswith("*") and rng.random() < (0.55 if depth > 4 else 0.25):
                    ne = [r for r in alts if r]
                    alts = ne or alts
            rhs = rng.choice(alts)
            for s in rhs:
                go(s, depth - 1)

        go(self.start, budget)
        return out


def _terminal_text(rng, sym):
    if sym.startswith('"'):
        return sym[1:-1]
    if sym == "SnakeWord":
        return rng.choice(SNAKE)
    if sym == "CamelWord":
        return rng.choice(CAMEL)
    if sym == "ShoutyWord":
        return rng.choice(SHOUTY)
    if sym == "Number":
        return rng.choice(NUMBERS)
    if sym == "String":
        return rng.choice(STRINGS)
    if sym == "BooleanConstant":
        return rng.choice(["true", "false"])
    if sym == "Documentation":
        return "-- doc"
    if sym == "Comment":
        return "# c"
    raise ValueError(sym)


def render_tokens(rng, syms):
    lines, cur, level = [], [], 0
    for s in syms:
        if s == '"\\n"':
            lines.append("  " * level + " ".join(cur))
            cur = []
        elif s == "Indent":
            level += 1
        elif s == "Dedent":
            level = max(0, level - 1)
        else:
            cur.append(_terminal_text(rng, s))
    if cur:
        lines.append("  " * level + " ".join(cur))
    return "\n".join(lines) + "\n"


def grammar_derived(rng):
    g = Grammar.get()
    syms = g.derive(rng, budget=rng.choice([8, 12, 16, 22]))
    return ("grammar", _cap(render_tokens(rng, syms)))


# ----------------------------------------------------------------------------
class Soup:
    """Structurally valid modules with semantically arbitrary contents."""

    def __init__(self, rng):
        self.r = rng
        self.params = []
        self.fields = []
        self.enums = ["Ee"]
        self.types = ["Foo", "Bar", "Inner"]

    def atom(self):
        r = self.r
        k = r.random()
        if k < 0.25:
            return r.choice(NUMBERS[:14])
        if k < 0.45 and self.fields:
            return r.choice(self.fields)
        if k < 0.6 and self.params:
            return r.choice(self.params)
        if k < 0.68:
            return r.choice(["true", "false"])
        if k < 0.76:
            return "Ee." + r.choice(["AA", "BB", "ZZ"])
        if k < 0.82:
            return r.choice(["$next", "$size_in_bytes", "$size_in_bits", "$max_size_in_bytes", "$min_size_in_bits",
                             "$is_statically_sized", "$static_size_in_bits"])
        if k < 0.90:
            base = r.choice((self.fields + self.params) or ["x"])
            return base + "." + r.choice(SNAKE + ["$size_in_bytes", "$max_size_in_bits"])
        if k < 0.95:
            return r.choice(self.types + ["UInt", "Ee"])
        return r.choice(SNAKE)

    def expr(self, d):
        r = self.r
        if d <= 0 or r.random() < 0.3:
            return self.atom()
        k = r.random()
        a = lambda: self.expr(d - 1)
        if k < 0.3:
            return "(%s %s %s)" % (a(), r.choice(["+", "-", "*"]), a())
        if k < 0.5:
            return "(%s %s %s)" % (a(), r.choice(["==", "!=", "<", "<=", ">", ">="]), a())
        if k < 0.6:
            return "(%s %s %s)" % (a(), r.choice(["&&", "||"]), a())
        if k < 0.72:
            return "(%s ? %s : %s)" % (a(), a(), a())
        if k < 0.8:
            return "$max(%s)" % ", ".join(a() for _ in range(r.choice([0, 1, 2, 3])))
        if k < 0.86:
            return "$present(%s)" % a()
        if k < 0.93:
            return "%s(%s)" % (r.choice(["$upper_bound", "$lower_bound"]), a())
        return "%s(%s)" % (r.choice(["$static_size_in_bits", "$is_statically_sized", "$size_in_bytes"]), a())

    def type_ref(self):
        r = self.r
        t = r.choice(["UInt", "UInt", "Int", "Bcd", "Flag", "Float", "Ee", "Inner", "Foo", "Bar", "Nope", "UInt:8", "UInt:0",
                      "Int:1", "UInt:64", "UInt:65", "Float:32", "Flag:1", "Ee:8", "Ee:0", "Inner:8"])
        k = r.random()
        if k < 0.15:
            t += "(%s)" % ", ".join(self.expr(1) for _ in range(r.choice([0, 1, 2])))
        if k > 0.75:
            t += "[%s]" % r.choice(["", "0", "2", self.expr(1)])
            if r.random() < 0.2:
                t += "[%s]" % r.choice(["", "3"])
        return t

    def attribute(self):
        r = self.r
        name = r.choice(["byte_order", "requires", "text_output", "fixed_size_in_bits", "is_signed", "static_requirements",
                         "addressable_unit_size", "maximum_bits", "is_integer", "namespace", "enum_case", "bogus"])
        val = r.choice(STRINGS + [self.expr(1), "true", "8", "0"])
        ctx = r.choice(["", "", "", "(cpp) ", "(x) "])
        dflt = "$default " if r.random() < 0.15 else ""
        return "[%s%s%s: %s]" % (ctx, dflt, name, val)

    def struct(self, name, kind="struct", depth=0):
        r = self.r
        L = []
        self.params = []
        self.fields = []
        ptxt = ""
        if r.random() < 0.5:
            ps = []
            for i in range(r.choice([1, 1, 2])):
                pn = r.choice(["p", "q", "n"]) if i == 0 else "p%d" % i
                ps.append("%s: %s" % (pn, r.choice(["UInt:8", "Int:16", "UInt:64", "Ee", "Flag", "UInt", "UInt:0", "Inner", "Foo"])))
                self.params.append(pn)
            ptxt = "(%s)" % ", ".join(ps)
        L.append("%s %s%s:" % (kind, name, ptxt))
        if r.random() < 0.3:
            L.append("  " + self.attribute())
        nf = r.choice([0, 1, 2, 3, 5])
        for i in range(nf):
            fname = r.choice(SNAKE) if r.random() < 0.25 else "f%d" % i
            k = r.random()
            ind = "  "
            if k < 0.2:
                L.append("  if %s:" % self.expr(2))
                ind = "    "
            k = r.random()
            if k < 0.55:
                loc = r.choice(["%d" % i, "$next", self.expr(1)])
                size = r.choice(["1", "2", "4", "8", "0", "9", self.expr(1)])
                line = "%s%s [+%s]  %s  %s" % (ind, loc, size, self.type_ref(), fname)
                L.append(line)
                if r.random() < 0.25:
                    L.append(ind + "  " + self.attribute())
            elif k < 0.75:
                L.append("%slet %s = %s" % (ind, fname, self.expr(r.choice([1, 2, 3]))))
            elif k < 0.88 and depth < 2:
                L.append("%s%s [+%s]  bits:" % (ind, r.choice(["%d" % i, "$next"]), r.choice(["1", "2", "4", "0", "9"])))
                for j in range(r.choice([0, 1, 2])):
                    L.append("%s  %s [+%s]  %s  %s" % (ind, r.choice(["%d" % (4 * j), "$next"]), r.choice(["1", "4", "0", "8"]),
                                                       r.choice(["UInt", "Flag", "Int", "Ee", "Bcd", "Float"]), "b%d%d" % (i, j)))
                    self.fields.append("b%d%d" % (i, j))
            elif k < 0.94:
                L.append("%s%s [+1]  enum  %s:" % (ind, "%d" % i, fname))
                L.append("%s  %s = %s" % (ind, r.choice(SHOUTY), r.choice(NUMBERS)))
            else:
                L.append("%s%s [+%s]  %s  %s (%s)" % (ind, "%d" % i, "1", self.type_ref(), fname, r.choice(SNAKE)))
            self.fields.append(fname)
        if nf == 0 and r.random() < 0.7:
            L.append("  0 [+1]  UInt  z")
        return L

    def module(self):
        r = self.r
        L = []
        if r.random() < 0.4:
            L.append('[$default byte_order: "%s"]' % r.choice(["LittleEndian", "BigEndian", "Null", "x"]))
        if r.random() < 0.15:
            L.append("[(cpp) namespace: %s]" % r.choice(['"a::b"', '""', '"::"', '"1x"', "3"]))
        if r.random() < 0.1:
            L.append('import "%s" as %s' % (r.choice(["m.emb", "nope.emb", "", "other.emb"]), r.choice(["m", "o", "x"])))
        L.append("enum Ee:")
        if r.random() < 0.15:
            L.append("  " + self.attribute())
        for nm in ["AA", "BB"][: r.choice([1, 2, 2])]:
            L.append("  %s = %s" % (nm, r.choice(NUMBERS + ["-1", "AA", "1 + 1", "-9223372036854775809"])))
        L += self.struct("Inner", r.choice(["struct", "bits"]))
        L += self.struct("Foo", r.choice(["struct", "struct", "bits"]))
        if r.random() < 0.4:
            L += self.struct("Bar")
        if r.random() < 0.1:
            L.append("external Ext:")
            L.append("  " + self.attribute())
        return "\n".join(L) + "\n"


def semantic_soup(rng):
    return ("semantic", _cap(Soup(rng).module()))


# ----------------------------------------------------------------------------
_BASES = [
    "struct Foo:\n  0 [+1]  UInt  x\n",
    "struct Foo:\n  0 [+4]  bits:\n    0 [+1]  Flag  f\n",
    "enum Ee:\n  AA = 1\nstruct Foo:\n  0 [+1]  Ee  e\n",
    '[$default byte_order: "LittleEndian"]\nstruct Foo:\n  0 [+2]  UInt  a\n  2 [+a]  UInt:8[]  b\n',
    "bits Foo:\n  0 [+3]  UInt  a\n",
]

_OPENERS = ["struct Bar:", "bits Bar:", "enum Xx:", "external Ext:", "  4 [+4]  bits:", "  4 [+1]  enum  ee:",
            "  if x == 0:", "struct Bar(p: UInt:8):", "  4 [+4]  bits  named:"]


def targeted(rng):
    r = rng
    k = r.randrange(13)
    if k == 9:   # attributes (module, type and field level) whose value is an arbitrary expression
        sp = Soup(r)
        sp.fields = ["x"]
        e = r.choice([sp.expr(r.choice([0, 1, 2])), "y", "x.y", "$is_statically_sized + $max()", "$present()", "$upper_bound()",
                      "$present() ? 1 : $present()", "$next", "Foo", "Ee.AA", "x"])
        name = r.choice(["x", "requires", "byte_order", "fixed_size_in_bits", "namespace", "is_signed", "text_output", "bogus"])
        ctx = r.choice(["", "", "(cpp) ", "(len) "])
        attr = "[%s%s%s: %s]" % (ctx, r.choice(["", "$default "]), name, e)
        where = r.randrange(4)
        if where == 0:
            return ("attribute-expression", attr + "\nstruct Foo:\n  0 [+1]  UInt  x\n")
        if where == 1:
            return ("attribute-expression", "struct Foo:\n  " + attr + "\n  0 [+1]  UInt  x\n")
        if where == 2:
            return ("attribute-expression", "struct Foo:\n  0 [+1]  UInt  x\n    " + attr + "\n")
        return ("attribute-expression", "enum Ee:\n  " + attr + "\n  AA = 1\n")
    if k == 10:  # arguments of the wrong kind / number for type parameters
        pty = r.choice(["UInt:8", "Int:8", "Flag", "Ee", "UInt:64"])
        arg = r.choice(["true", "1", "Ee.AA", "x", "x == 1", "-1", "999999999999999999999", "Foo", "", "1, 2", "$next"])
        return ("param-argument", "enum Ee:\n  AA = 1\nstruct Foo:\n  0 [+1]  UInt  x\n  1 [+1]  Bar(%s)  y\nstruct Bar(p: %s):\n  0 [+1]  UInt  z\n"
                % (arg, pty))
    if k == 11:  # builtins with the wrong number / kind of arguments
        f = r.choice(["$max", "$present", "$upper_bound", "$lower_bound", "$static_size_in_bits", "$is_statically_sized", "$size_in_bytes"])
        args = r.choice(["", "x", "x, x", "true", "Foo", "UInt", "1", "x.y", "$next", "Ee.AA"])
        ctxs = r.choice(["  let y = %s\n", "  if %s:\n    1 [+1]  UInt  y\n", "  1 [+%s]  UInt:8[]  y\n", "  %s [+1]  UInt  y\n",
                         "  1 [+1]  UInt  y\n    [requires: %s]\n", "  let y = %s + 1\n", "  let y = %s ? 1 : 2\n", "  let y = true ? %s : %s\n"])
        return ("builtin-arguments", "enum Ee:\n  AA = 1\nstruct Foo:\n  0 [+1]  UInt  x\n" + ctxs.replace("%s", "%s(%s)" % (f, args)))
    if k == 12:  # import aliases and type names used as values; self/empty imports
        imp = r.choice(['import "" as m', 'import "m.emb" as m', 'import "testdata/imported.emb" as m'])
        use = r.choice(["  let y = m\n", "  0 [+m]  UInt:8[]  y\n", "  let y = m.x\n", "  let y = true ? 1 : m\n", "  1 [+1]  m  y\n",
                        "  1 [+1]  m.Nope  y\n", "  let y = m.Foo\n", "  if m:\n    1 [+1]  UInt  y\n"])
        return ("import-alias-value", imp + "\nstruct Foo:\n  0 [+1]  UInt  x\n" + use)
    if k == 0:   # a block opened on the last line
        base = r.choice(_BASES)
        opener = r.choice(_OPENERS)
        tail = r.choice(["\n", "", "\n\n", "  # c\n", "\n  \n", "\n# c\n"])
        return ("eof-block", base + opener + tail)
    if k == 1:   # truncate a corpus file / base right after a line ending in ':'
        base = r.choice(_BASES + [_expr_module_text(r)])
        lines = base.split("\n")
        idx = [i for i, l in enumerate(lines) if l.rstrip().endswith(":")]
        if idx:
            i = r.choice(idx)
            return ("eof-truncated", "\n".join(lines[: i + 1]) + r.choice(["\n", ""]))
        return ("eof-truncated", base)
    if k == 2:   # $present of a parameter
        ty = r.choice(["UInt:8", "Int:32", "Ee", "Flag"])
        use = r.choice(["  if $present(p):\n    0 [+1]  UInt  y\n", "  0 [+1]  UInt  y\n  let z = $present(p)\n",
                        "  0 [+1]  UInt  y\n    [requires: $present(p)]\n", "  0 [+1]  UInt  y\n  let z = $present(p) ? 1 : 2\n"])
        return ("present-param", "enum Ee:\n  AA = 1\nstruct Foo(p: %s):\n%s" % (ty, use))
    if k == 3:   # member access on a parameter
        ty = r.choice(["UInt:8", "Int:32", "Ee", "Flag"])
        use = r.choice(["  p.x [+1]  UInt  y\n", "  0 [+p.x]  UInt  y\n", "  0 [+1]  UInt  y\n  let z = p.x\n",
                        "  if p.x == 1:\n    0 [+1]  UInt  y\n", "  0 [+1]  UInt  y\n  let z = p.$size_in_bytes\n"])
        return ("param-member", "enum Ee:\n  AA = 1\nstruct Foo(p: %s):\n%s" % (ty, use))
    if k == 4:   # bound functions of constants inside comparisons / choices / arithmetic
        f = r.choice(["$upper_bound", "$lower_bound"])
        c = r.choice(["5", "0", "(1 + 2)", "x", "Ee.AA", "true"])
        ctx = r.choice(["%s == 5", "%s < x", "true ? %s : 3", "%s + 1", "$max(%s, 2)", "%s", "(%s) * 2 == 10", "%s == %s"])
        e = ctx.replace("%s", "%s(%s)" % (f, c))
        where = r.choice(["  let u = %s\n", "  if %s:\n    1 [+1]  UInt  y\n", "  1 [+%s]  UInt:8[]  y\n", "  1 [+1]  UInt  y\n    [requires: %s]\n"])
        return ("bound-of-constant", "enum Ee:\n  AA = 1\nstruct Foo:\n  0 [+1]  UInt  x\n" + where % e)
    if k == 5:   # zero-width integers
        kind = r.choice(["UInt", "Int", "Bcd", "UInt:0", "Int:0"])
        decl = r.choice(["  0 [+0]  %s  x\n" % kind, "  0 [+1]  bits:\n    0 [+0]  %s  x\n" % kind.split(":")[0]])
        use = r.choice(["  let y = x + 1\n", "  let y = x\n", "  if x == 0:\n    1 [+1]  UInt  z\n", "  1 [+x]  UInt:8[]  z\n", "", "  let y = x * x\n"])
        return ("zero-width", "struct Foo:\n" + decl + use)
    if k == 6:   # recursion / self reference / odd imports
        t = r.choice([
            "struct Foo:\n  0 [+1]  Foo  x\n",
            "struct Foo:\n  0 [+$size_in_bytes]  UInt:8[]  x\n",
            "struct Foo:\n  $size_in_bytes [+1]  UInt  x\n",
            "struct Foo:\n  if $max_size_in_bytes == 1:\n    0 [+1]  UInt  x\n",
            "bits Foo:\n  if $min_size_in_bits == 0:\n    0 [+1]  UInt  x\n",
            "struct Foo:\n  0 [+1]  UInt  x\n  let y = $size_in_bytes\n  y [+1]  UInt  z\n",
            "struct Foo:\n  0 [+1]  UInt  x\n  let y = y\n",
            "struct Foo:\n  0 [+x]  UInt:8[]  x\n",
            'import "m.emb" as m\nstruct Foo:\n  0 [+1]  m.Foo  x\n',
            'import "nope.emb" as m\nstruct Foo:\n  0 [+1]  UInt  x\n',
            'import "" as m\nstruct Foo:\n  0 [+1]  UInt  x\n',
            "struct Foo:\n  0 [+1]  UInt  x\n  let y = Foo\n",
            "struct Foo:\n  0 [+1]  UInt  x\n  let y = UInt\n",
            "struct Foo:\n  0 [+1]  UInt  x\n  let y = x.x\n",
            "struct Foo:\n  0 [+1]  UInt  x\n  let y = $next\n",
            "struct Foo:\n  $next [+1]  UInt  x\n",
            "struct Foo:\n  0 [+1]  UInt  x (x)\n",
            "struct Foo:\n  0 [+1]  UInt  x (y)\n  let y = 1\n",
            "enum Ee:\n  AA = AA\n",
            "enum Ee:\n  AA = BB\n  BB = AA\n",
            "enum Ee:\n  AA = 1\n  AA = 2\n",
            "struct Foo:\n  0 [+1]  UInt  x\nstruct Foo:\n  0 [+1]  UInt  y\n",
            "struct Foo(p: Foo):\n  0 [+1]  UInt  x\n",
            "struct Foo(p: UInt:8, p: UInt:8):\n  0 [+1]  UInt  x\n",
            "struct Foo:\n  0 [+1]  Bar(1)  x\nstruct Bar:\n  0 [+1]  UInt  y\n",
            "struct Foo:\n  0 [+1]  Bar  x\nstruct Bar(p: UInt:8):\n  0 [+p]  UInt:8[]  y\n",
            "struct Foo:\n  0 [+1]  Bar(true)  x\nstruct Bar(p: UInt:8):\n  0 [+1]  UInt  y\n",
            "struct Foo:\n  0 [+1]  Bar(x)  x\nstruct Bar(p: UInt:8):\n  0 [+1]  UInt  y\n",
            "struct Foo:\n  0 [+1]  UInt  x\n  1 [+1]  Bar(x, x)  y\nstruct Bar(p: UInt:8):\n  0 [+1]  UInt  y\n",
        ])
        return ("odd-reference", t)
    if k == 7:   # several independent dependency cycles, ambiguous names (C17 relevant)
        n = r.choice([2, 3, 4])
        names = r.sample(["a", "b", "c", "d", "e", "f", "g", "h", "k", "m"], 2 * n)
        L = ["struct Foo:"]
        for i in range(n):
            L.append("  %s [+1]  UInt  %s" % (names[2 * i], names[2 * i + 1]))
            L.append("  %s [+1]  UInt  %s" % (names[2 * i + 1], names[2 * i]))
        return ("multi-cycle", "\n".join(L) + "\n")
    # deep nesting of parentheses / choices (<= 40)
    d = r.choice([10, 25, 40])
    e = "x"
    for i in range(d):
        e = r.choice(["(%s + 1)", "(%s)", "(true ? %s : 0)", "$max(%s, 1)"]) % e
    return ("deep-nesting", "struct Foo:\n  0 [+1]  UInt  x\n  let y = %s\n" % e)


# ----------------------------------------------------------------------------
# every `$`-keyword (regenerated from tokenizer.LITERAL_TOKEN_PATTERNS) in every expression position
def dollar_keywords():
    from compiler.front_end import tokenizer
    return [t for t in tokenizer.LITERAL_TOKEN_PATTERNS if t.startswith("$")] + ["this"]


_KW_FORMS = ["%s", "%s + 1", "%s == 3", "%s(x)", "x.%s", "%s.x"]

_KW_POSITIONS = [
    ("let", "struct Foo:\n  0 [+1]  UInt  x\n  let y = {E}\n"),
    ("if", "struct Foo:\n  0 [+1]  UInt  x\n  if {E}:\n    1 [+1]  UInt  y\n"),
    ("array-size", "struct Foo:\n  0 [+1]  UInt  x\n  1 [+4]  UInt:8[{E}]  y\n"),
    ("field-size", "struct Foo:\n  0 [+1]  UInt  x\n  1 [+{E}]  UInt:8[]  y\n"),
    ("field-start", "struct Foo:\n  0 [+1]  UInt  x\n  {E} [+1]  UInt  y\n"),
    ("second-start", "struct Foo:\n  0 [+1]  UInt  x\n  1 [+1]  UInt  y\n  ({E}) * 2 [+1]  UInt  z\n"),
    ("bits-size", "bits Foo:\n  0 [+4]  UInt  x\n  4 [+{E}]  UInt  y\n"),
    ("field-attribute", "struct Foo:\n  0 [+1]  UInt  x\n    [requires: {E}]\n"),
    ("struct-attribute", "struct Foo:\n  [requires: {E}]\n  0 [+1]  UInt  x\n"),
    ("module-attribute", "[(cpp) namespace: {E}]\nstruct Foo:\n  0 [+1]  UInt  x\n"),
    ("enum-value", "enum Ee:\n  AA = {E}\nstruct Foo:\n  0 [+1]  UInt  x\n"),
    ("parameter-argument", "struct Foo:\n  0 [+1]  UInt  x\n  1 [+1]  Bar({E})  y\nstruct Bar(p: UInt:8):\n  0 [+1]  UInt  z\n"),
    ("function-argument", "struct Foo:\n  0 [+1]  UInt  x\n  let y = $max({E}, 1)\n"),
    ("choice-branch", "struct Foo:\n  0 [+1]  UInt  x\n  let y = x == 1 ? {E} : 2\n"),
    ("present-argument", "struct Foo:\n  0 [+1]  UInt  x\n  let y = $present({E})\n"),
    ("bound-argument", "struct Foo:\n  0 [+1]  UInt  x\n  let y = $upper_bound({E})\n"),
    ("nested-condition", "struct Foo:\n  0 [+1]  UInt  x\n  if x == 1:\n    1 [+{E}]  UInt:8[]  y\n"),
    ("type-width", "struct Foo:\n  0 [+1]  UInt:{E}  x\n"),
]


def keyword_position_cases():
    """The full, seed-independent enumeration keyword x form x position (about 1700 three-line modules)."""
    out = []
    for kw in dollar_keywords():
        for form in _KW_FORMS:
            e = form % kw
            for pos, tmpl in _KW_POSITIONS:
                out.append(("keyword-position:%s:%s" % (pos, form.replace("%s", "K")), tmpl.replace("{E}", e)))
    return out


_STATIC_PREAMBLE = ("struct Qq:\n  0 [+1]  UInt  n\n  1 [+n]  UInt:8[]  d\n  let v = n + 1\n  let c = 7\n  let b = n == 1\n"
                    "struct Ss:\n  0 [+2]  UInt  m\n  let k = Ee.AA\nenum Ee:\n  AA = 1\n  BB = 2\n"
                    "struct Pp(a: UInt:8, e: Ee):\n  0 [+1]  UInt  n\n  let w = a + 1\n")
_STATIC_REFS = ["Qq.v", "Qq.c", "Qq.b", "Qq.n", "Qq.d", "Qq.$size_in_bytes", "Qq.$max_size_in_bytes", "Qq.$min_size_in_bytes",
                "Ss.$size_in_bytes", "Ss.k", "Ss.m", "Ee.AA", "Ee.CC", "Qq.nope", "Qq.v.w", "Ss.$size_in_bits",
                "Pp.a", "Pp.e", "Pp.w", "Pp.n", "Pp.$size_in_bytes"]
_STATIC_FORMS = ["%s", "%s + 1", "%s == 3"]


def static_reference_cases():
    """Seed-independent: every kind of static reference (Type.member: constant / non-constant virtual field,
    physical field, array, synthesized size fields of fixed and dynamic structures, enum values, missing
    members) x 3 forms x every expression position."""
    out = []
    for ref in _STATIC_REFS:
        for form in _STATIC_FORMS:
            e = form % ref
            for pos, tmpl in _KW_POSITIONS:
                if pos == "enum-value":
                    text = tmpl.replace("enum Ee:", "enum Ff:").replace("{E}", e) + _STATIC_PREAMBLE
                else:
                    text = tmpl.replace("{E}", e) + _STATIC_PREAMBLE
                out.append(("static-reference:%s:%s" % (pos, form.replace("%s", "R")), text))
    return out


_LEAF_DECLS = [
    # (tag, text placed before the module, declaration replacing `0 [+1]  UInt  x`)
    ("external-integer", "external Ext:\n  [is_integer: true]\n  [addressable_unit_size: 8]\n", "  0 [+1]  Ext  x\n"),
    ("external-integer-twice", "external Ext:\n  [is_integer: true]\n  [is_integer: true]\n  [addressable_unit_size: 8]\n", "  0 [+1]  Ext  x\n"),
    ("external-integer-true-false", "external Ext:\n  [is_integer: true]\n  [is_integer: false]\n  [addressable_unit_size: 8]\n", "  0 [+1]  Ext  x\n"),
    ("external-integer-after-foreign", "[expected_back_ends: \"cpp, xyz\"]\nexternal Ext:\n  [(xyz) is_integer: true]\n  [is_integer: true]\n  [addressable_unit_size: 8]\n", "  0 [+1]  Ext  x\n"),
    ("external-not-integer", "external Ext:\n  [is_integer: false]\n  [addressable_unit_size: 8]\n", "  0 [+1]  Ext  x\n"),
    ("external-plain", "external Ext:\n  [addressable_unit_size: 8]\n", "  0 [+1]  Ext  x\n"),
    ("external-unit-twice", "external Ext:\n  [is_integer: true]\n  [addressable_unit_size: 8]\n  [addressable_unit_size: 1]\n", "  0 [+1]  Ext  x\n"),
    ("external-requirements", "external Ext:\n  [is_integer: true]\n  [addressable_unit_size: 8]\n  [static_requirements: $size_in_bits == 8]\n", "  0 [+1]  Ext  x\n"),
    ("dynamic-width", "[$default byte_order: \"LittleEndian\"]\n", "  0 [+1]  UInt  w\n  1 [+w]  UInt  x\n"),
    ("dynamic-width-chain", "[$default byte_order: \"LittleEndian\"]\n", "  0 [+1]  UInt  v\n  1 [+v]  UInt  w\n  2 [+w]  UInt  x\n"),
    ("dynamic-width-int", "[$default byte_order: \"LittleEndian\"]\n", "  0 [+1]  UInt  w\n  1 [+w]  Int  x\n"),
    ("dynamic-width-bcd", "[$default byte_order: \"LittleEndian\"]\n", "  0 [+1]  UInt  w\n  1 [+w]  Bcd  x\n"),
    ("zero-width", "", "  0 [+0]  UInt  x\n"),
    ("nine-bytes", "[$default byte_order: \"LittleEndian\"]\n", "  0 [+9]  UInt  x\n"),
    ("flag", "", "  0 [+1]  Flag  x\n"),
    ("float", "", "  0 [+4]  Float  x\n"),
    ("array", "", "  0 [+2]  UInt:8[2]  x\n"),
    ("struct", "struct Sub:\n  0 [+1]  UInt  q\n", "  0 [+1]  Sub  x\n"),
    ("enum", "enum Kk:\n  KA = 1\n", "  0 [+1]  Kk  x\n"),
]
_LEAF_FORMS = ["x", "x + 1", "x == 1", "x == x", "x ? 1 : 2", "$max(x, 2)"]


def leaf_kind_cases():
    """Seed-independent: a field of every kind of type (user-defined externals with every spelling of their
    attributes, integers of unknown / impossible width, Flag, Float, arrays, structures, enums) used as an operand
    at every expression position."""
    out = []
    needle = "  0 [+1]  UInt  x\n"
    for tag, pre, decl in _LEAF_DECLS:
        for form in _LEAF_FORMS:
            for pos, tmpl in _KW_POSITIONS:
                if needle not in tmpl:
                    continue
                out.append(("leaf-kind:%s:%s" % (tag, pos), pre + tmpl.replace(needle, decl).replace("{E}", form)))
    return out


_PARAM_TYPES = [
    # (tag, text placed before the structure, parameter type)
    ("external-integer", "external Ext:\n  [is_integer: true]\n  [addressable_unit_size: 8]\n", "Ext:8"),
    ("external-integer-bits", "external Ext:\n  [is_integer: true]\n  [addressable_unit_size: 1]\n", "Ext:8"),
    ("external-integer-unsized", "external Ext:\n  [is_integer: true]\n  [addressable_unit_size: 8]\n", "Ext"),
    ("external-not-integer", "external Ext:\n  [addressable_unit_size: 8]\n", "Ext:8"),
    ("uint", "", "UInt:8"), ("uint-64", "", "UInt:64"), ("uint-65", "", "UInt:65"), ("uint-zero", "", "UInt:0"),
    ("uint-unsized", "", "UInt"), ("int", "", "Int:16"), ("bcd", "", "Bcd:8"), ("flag", "", "Flag"), ("float", "", "Float:32"),
    ("enum", "enum Kk:\n  KA = 1\n", "Kk"), ("struct", "struct Sub:\n  0 [+1]  UInt  q\n", "Sub"), ("array", "", "UInt:8[2]"),
]
_PARAM_USES = ["", "  let y = p\n", "  let y = p + 1\n", "  1 [+p]  UInt:8[]  z\n", "  if p == 1:\n    1 [+1]  UInt  c\n",
               "  1 [+1]  UInt  r\n    [requires: this < p]\n", "  let y = $max(p, 2) * 3\n"]


def param_kind_cases():
    """Seed-independent: a runtime parameter of every kind of type (user-defined externals, integers of every width,
    Flag, Float, enum, structure, array), unused and used at several expression positions, with and without a
    structure that instantiates it."""
    out = []
    for tag, pre, ty in _PARAM_TYPES:
        for ui, use in enumerate(_PARAM_USES):
            body = '[$default byte_order: "LittleEndian"]\n' + pre + "struct Bar(p: %s):\n  0 [+1]  UInt  x\n" % ty + use
            out.append(("param-kind:%s:%d" % (tag, ui), body))
            out.append(("param-kind:%s:%d:used" % (tag, ui), body + "struct Use:\n  0 [+1]  UInt  n\n  1 [+8]  Bar(n)  b\n"))
    return out


_ATTR_NAMES = ["byte_order", "requires", "fixed_size_in_bits", "maximum_bits", "is_signed", "is_integer", "addressable_unit_size",
               "static_requirements", "text_output", "enum_case", "namespace", "expected_back_ends", "can_hold_any_value", "nope"]
_ATTR_VALUES = ['"text"', "4", "true", "Ee.AA", '"kCamelCase"', '""', "x"]
_ATTR_SCOPES = [
    ("module", "{A}\nenum Ee:\n  AA = 1\nstruct Foo:\n  0 [+1]  UInt  x\n"),
    ("struct", "enum Ee:\n  AA = 1\nstruct Foo:\n  {A}\n  0 [+1]  UInt  x\n"),
    ("field", "enum Ee:\n  AA = 1\nstruct Foo:\n  0 [+1]  UInt  x\n    {A}\n"),
    ("bits", "enum Ee:\n  AA = 1\nbits Foo:\n  {A}\n  0 [+1]  UInt  x\n"),
    ("enum", "enum Ee:\n  {A}\n  AA = 1\nstruct Foo:\n  0 [+1]  UInt  x\n"),
    ("enum-value", "enum Ee:\n  AA = 1\n    {A}\nstruct Foo:\n  0 [+1]  UInt  x\n"),
    ("external", "external Xx:\n  {A}\nenum Ee:\n  AA = 1\nstruct Foo:\n  0 [+1]  UInt  x\n"),
]


def attribute_cases():
    """Seed-independent: every attribute name x back-end qualifier (none, cpp, a declared foreign back end,
    an undeclared one) x value kind x scope, plus the $default form at module and structure level."""
    out = []
    for nm in _ATTR_NAMES:
        for be in ("", "(cpp) ", "(xyz) ", "(zzz) "):
            for val in _ATTR_VALUES:
                for scope, tmpl in _ATTR_SCOPES:
                    forms = ["[%s%s: %s]" % (be, nm, val)]
                    if scope in ("module", "struct") and val in ('"text"', "4", '"kCamelCase"'):
                        forms.append("[$default %s%s: %s]" % (be, nm, val))
                    for a in forms:
                        text = tmpl.replace("{A}", a)
                        if be == "(xyz) ":
                            text = '[expected_back_ends: "cpp, xyz"]\n' + text
                        out.append(("attribute:%s:%s%s" % (scope, be.strip(), "-default" if "$default" in a else ""), text))
    return out


def identifier_shape_cases():
    """Seed-independent: identifier shapes the tokenizer accepts (trailing and doubled underscores, digits) in
    every naming position that the compiler converts between cases."""
    out = []
    snakes = ["a_", "a__b", "a_1", "a1_", "x__", "aa_bb_", "a_b_c__", "a9"]
    shouts = ["AA_", "A__B", "A_1_", "AA9", "A_B__", "A1"]
    for nm in snakes:
        out.append(("identifier:field", "struct Foo:\n  0 [+1]  UInt  %s\n  let z = %s + 1\n" % (nm, nm)))
        out.append(("identifier:virtual", "struct Foo:\n  0 [+1]  UInt  x\n  let %s = x + 1\n" % nm))
        out.append(("identifier:parameter", "struct Foo(%s: UInt:8):\n  0 [+1]  UInt  x\n  let z = %s + x\n" % (nm, nm)))
        out.append(("identifier:inline-enum", "struct Foo:\n  0 [+1]  enum  %s:\n    AA = 0\n    BB = 1\n  1 [+1]  UInt  y\n" % nm))
        out.append(("identifier:inline-bits", "struct Foo:\n  0 [+1]  bits  %s:\n    0 [+3]  UInt  lo\n    3 [+5]  UInt  hi\n" % nm))
        out.append(("identifier:inline-struct", "struct Foo:\n  0 [+2]  struct  %s:\n    0 [+1]  UInt  lo\n    1 [+1]  UInt  hi\n" % nm))
        out.append(("identifier:abbreviation", "struct Foo:\n  0 [+1]  UInt  long_name (%s)\n  let z = %s + 1\n" % (nm, nm)))
        out.append(("identifier:import-alias", 'import "testdata/imported.emb" as %s\nstruct Foo:\n  0 [+4]  %s.Inner  y\n' % (nm, nm)))
    for nm in shouts:
        for case in ('', '  [(cpp) $default enum_case: "kCamelCase"]\n', '  [(cpp) $default enum_case: "SHOUTY_CASE, kCamelCase"]\n'):
            out.append(("identifier:enum-value", "enum Ee:\n%s  %s = 1\n  OK = 2\nstruct Foo:\n  0 [+1]  Ee  x\n  let y = x == Ee.%s\n"
                        % (case, nm, nm)))
            out.append(("identifier:enum-value-attr", 'enum Ee:\n  %s = 1\n    [(cpp) enum_case: "kCamelCase"]\nstruct Foo:\n  0 [+1]  Ee  x\n' % nm))
    return out


def wide_range_cases():
    """Seed-independent: field locations and expressions over 64-bit fields whose ranges leave the 64-bit types,
    written by the user and synthesized from what the user wrote ($next, $size_in_bytes, field ends): every such
    error must carry a position inside the user's file."""
    out = []
    starts = ["0", "16", "a", "a + b", "a * 2", "a - b", "$next"]
    sizes = ["1", "8", "b", "a + b", "b * 8", "a * b"]
    for st in starts:
        for sz in sizes:
            for tail in ("  $next [+1]  UInt  chk\n", "  $next + a [+1]  UInt  chk\n", "  let e = $size_in_bytes + a\n", ""):
                out.append(("wide-range:start=%s" % st,
                            '[$default byte_order: "LittleEndian"]\nstruct Foo:\n  0 [+8]  UInt  a\n  8 [+8]  UInt  b\n'
                            '  %s [+%s]  UInt:8[]  payload\n%s' % (st, sz, tail)))
    for e in ["a + b", "a * b", "a - b", "0 - a", "a + 1", "a * 2 - b", "$max(a, b) + 1", "(a == b ? a : b) + b", "a + s", "s - a", "s * 2"]:
        out.append(("wide-range:let", '[$default byte_order: "LittleEndian"]\nstruct Foo:\n  0 [+8]  UInt  a\n  8 [+8]  UInt  b\n'
                    '  16 [+8]  Int  s\n  let e = %s\n  if %s > 0:\n    24 [+1]  UInt  t\n' % (e, e)))
    return out


def cross_file_cases():
    """Seed-independent: every diagnostic whose notes point into ANOTHER file (an imported module or the
    prelude).  The named file and the position must belong together."""
    pad = "# padding\n" * 3
    imp = 'import "testdata/parameters.emb" as p\nimport "testdata/imported.emb" as q\n'
    body = [
        ("missing-argument", "  0 [+4]  p.Axis  a\n"),
        ("extra-argument", "  0 [+4]  p.AxesEnvelope(1)  a\n"),
        ("argument-of-wrong-type", "  0 [+4]  p.Axis(true)  a\n"),
        ("argument-of-other-enum", "  0 [+4]  p.Axis(p.Product.VERSION_1)  a\n"),
        ("integer-for-enum", "  0 [+4]  p.Axis(1)  a\n"),
        ("two-arguments-one-wrong", "  0 [+8]  p.AxisPair(p.AxisType.X_AXIS, 2)  a\n"),
        ("prelude-type-with-argument", "  0 [+4]  UInt(3)  a\n"),
        ("prelude-type-with-two-arguments", "  0 [+4]  Int(3, 4)  a\n"),
        ("imported-type-as-array-with-argument", "  0 [+8]  p.BiasedValue(true)[8]  a\n"),
        ("duplicate-of-imported-name", "  0 [+1]  UInt  a\n  1 [+1]  UInt  a\n"),
        ("member-of-imported-type-missing", "  0 [+4]  q.Inner  a\n  let b = a.no_such_member\n"),
        ("imported-missing-type", "  0 [+4]  q.NoSuchType  a\n"),
        ("imported-enum-missing-value", "  0 [+1]  UInt  a\n  let b = p.AxisType.NO_SUCH\n"),
        ("imported-type-size-mismatch", "  0 [+3]  q.Inner  a\n"),
        ("external-size-mismatch", "  0 [+9]  UInt  a\n"),
        ("bits-only-type-in-struct", "  0 [+1]  Flag  a\n"),
    ]
    out = []
    for lab, b in body:
        for lead in ("", pad):
            out.append(("cross-file:" + lab, imp + lead + "struct Foo:\n" + b))
    return out


_TWIN_BOOL = [("x > 1", "x - 1"), ("x == 1", "x + 11"), ("x != 2", "x * 22")]
_TWIN_INT = [("x + 1", "x < 1"), ("x * 2", "x > 2"), ("x - 3", "false")]
_TWIN_KIND = {"if": _TWIN_BOOL, "field-attribute": _TWIN_BOOL, "struct-attribute": _TWIN_BOOL,
              "array-size": _TWIN_INT, "field-size": _TWIN_INT, "field-start": _TWIN_INT, "second-start": _TWIN_INT,
              "bits-size": _TWIN_INT, "parameter-argument": _TWIN_INT, "function-argument": _TWIN_INT,
              "choice-branch": _TWIN_INT, "nested-condition": _TWIN_INT}


def twin_cases():
    """Seed-independent: two modules of one compilation whose expressions occupy EXACTLY the same source span (line
    and columns), one well typed and one not -- the ill-typed one in the imported file, in the importing file, or
    in both.  Whatever a pass remembers per source position must not leak from one file to the other.
    Returns (inputs, files to offer for import)."""
    out, files = [], {}
    k = 0
    for pos, tmpl in _KW_POSITIONS:
        for ok, bad in _TWIN_KIND.get(pos, []):
            assert len(ok) == len(bad)
            for main_e, imp_e, lab in ((ok, bad, "imported-bad"), (bad, ok, "main-bad"), (bad, bad, "both-bad"), (ok, ok, "both-ok")):
                name = "twin_%d.emb" % k
                k += 1
                files[name] = "# padding, so that the lines coincide\n" + tmpl.replace("{E}", imp_e)
                out.append(("twin-span:%s:%s" % (pos, lab), 'import "%s" as tw\n' % name + tmpl.replace("{E}", main_e)))
    return out, files


def keyword_position(rng):
    """One random member of the enumeration, possibly wrapped once more."""
    kw = rng.choice(dollar_keywords())
    e = rng.choice(_KW_FORMS) % kw
    if rng.random() < 0.3:
        e = rng.choice(["(%s)", "%s * 2", "true ? %s : 0", "$max(%s)", "-%s", "%s && true", "%s - x"]) % e
    pos, tmpl = rng.choice(_KW_POSITIONS)
    return ("keyword-position:" + pos, tmpl.replace("{E}", e))


def _expr_module_text(rng):
    from harness import gen_expr
    return gen_expr.ExprModule(rng, n_virtual=rng.randint(2, 6), depth=rng.choice([1, 2, 3]), big=rng.random() < 0.3).text()


# ----------------------------------------------------------------------------
_TOK = re.compile(r'"(?:[^"\n\\]|\\.)*"|\$?[A-Za-z_][A-Za-z_0-9]*|[0-9][0-9A-Za-z_]*|==|!=|<=|>=|&&|\|\||--|\s+|.', re.S)


def split_tokens(text):
    return _TOK.findall(text)


def mutate(rng, text, n=None):
    r = rng
    n = n or r.choice([1, 1, 2, 3])
    pool = None
    for _ in range(n):
        k = r.random()
        if k < 0.45:
            lines = text.split("\n")
            if not lines:
                break
            i = r.randrange(len(lines))
            op = r.randrange(7)
            if op == 0:
                del lines[i]
            elif op == 1:
                lines.insert(i, lines[i])
            elif op == 2 and len(lines) > 1:
                j = r.randrange(len(lines))
                lines[i], lines[j] = lines[j], lines[i]
            elif op == 3:
                lines[i] = " " * r.choice([0, 1, 2, 3, 4, 6]) + lines[i].lstrip()
            elif op == 4:
                lines = lines[: i + 1]          # truncate (possibly right after a block opener)
            elif op == 5:
                lines[i] = lines[i].rstrip() + r.choice([":", " :", "  # c", " \\", " ["])
            else:
                lines[i] = lines[i][: r.randrange(len(lines[i]) + 1)]
            text = "\n".join(lines)
        else:
            toks = split_tokens(text)
            if not toks:
                break
            i = r.randrange(len(toks))
            op = r.randrange(5)
            if pool is None:
                pool = _token_pool()
            if op == 0:
                del toks[i]
            elif op == 1:
                toks[i] = r.choice(pool)
            elif op == 2:
                toks.insert(i, r.choice(pool) + " ")
            elif op == 3 and len(toks) > 1:
                j = r.randrange(len(toks))
                toks[i], toks[j] = toks[j], toks[i]
            else:
                toks.insert(i, toks[i])
            text = "".join(toks)
    return _cap(text)


_corpus_cache = {}


def corpus(repo):
    if repo not in _corpus_cache:
        out = []
        for p in sorted(glob.glob(os.path.join(repo, "testdata", "*.emb"))):
            t = open(p, encoding="utf-8").read()
            out.append((os.path.relpath(p, repo), t))
        _corpus_cache[repo] = out
    return _corpus_cache[repo]


def mutated_corpus(rng, repo):
    name, text = rng.choice(corpus(repo))
    lines = text.split("\n")
    if len(lines) > MAX_LINES:
        # a window that starts at a top-level line, so that most of it stays well formed
        tops = [i for i, l in enumerate(lines) if l and not l[0].isspace() and not l.startswith("#")]
        start = rng.choice(tops) if tops else 0
        text = "\n".join(lines[start: start + rng.choice([40, 120, MAX_LINES - 1])]) + "\n"
    return ("mut:" + name, mutate(rng, text))


def mutated_expr_module(rng):
    return ("mut:gen_expr", mutate(rng, _expr_module_text(rng)))


_WIDTH = re.compile(r"(\[\s*\+\s*|[A-Za-z]\s*:\s*)(\d[\d_]*)(?=\s*[\]\[\s(),]|$)", re.M)


def tame(text):
    """Field sizes / explicit type widths above 2**16 are cut down: the front end computes 2**width for them,
    which takes minutes and gigabytes from about 2**30 on (reported once as a finding, not re-run every time)."""
    def sub(m):
        try:
            v = int(m.group(2).replace("_", ""))
        except ValueError:
            return m.group(0)
        return m.group(0) if v <= 65536 else m.group(1) + "65"
    return _WIDTH.sub(sub, text)


def generate(rng, repo, weights=None):
    """One (label, text) from the mixture (see `tame`)."""
    label, text = _generate(rng, repo)
    return label, tame(text)


def _generate(rng, repo):
    k = rng.random()
    if k < 0.08:
        return random_bytes(rng)
    if k < 0.18:
        return token_soup(rng)
    if k < 0.33:
        return grammar_derived(rng)
    if k < 0.55:
        return semantic_soup(rng)
    if k < 0.64:
        return targeted(rng)
    if k < 0.70:
        return keyword_position(rng)
    if k < 0.88:
        return mutated_corpus(rng, repo)
    return mutated_expr_module(rng)
