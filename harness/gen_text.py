"""gen_text.py -- modules, Ok buffers and abstract views for the C06 text-format check.

A TextModule is a random .emb module with several top-level structures built from
  UInt / Int / Bcd fields of many widths, Flag and enum fields, named and anonymous `bits`,
  nested structures, static and dynamic arrays (UInt:8 "ascii", wider integers, enums, structures),
  conditional fields (tag == K, flag), fields whose offset is given by a field declared LATER
  (dependency order differs from source order), virtual fields (writable transform `x + c`,
  alias, read-only sums / comparisons / constants), and text_output "Skip" / "Emit" attributes.

For every structure the generator can draw *instances*: it chooses the value of every field,
solves the layout forward (controls first) and writes the bytes, so the buffer is Ok by
construction and every field's presence and value is known without running any Emboss code.

abstract_view(ir, struct_name, instance) combines the IR of the REAL front end (field order =
fields_in_dependency_order, text_output attribute, read-only / anonymous flags, C++ value
types, enum tables) with the instance's values into the tree the Coq model prints.
"""

INT_EDGE = [0, 1, 2, 7, 8, 9, 10, 15, 16, 17, 99, 100, 101, 127, 128, 255, 256, 999, 1000, 1001, 4095, 4096,
            65535, 65536, 99999, 100000, 1000000, 2**24, 2**31 - 1, 2**31, 2**32 - 1, 2**32, 10**9, 10**12,
            2**48, 10**15, 2**56 - 1, 2**63 - 1, 2**63, 10**19, 2**64 - 1]


def pick_int(r, lo, hi):
    k = r.random()
    if k < 0.12:
        return lo
    if k < 0.24:
        return hi
    if k < 0.30:
        return max(lo, min(hi, r.choice([lo + 1, hi - 1, -1, 0, 1])))
    if k < 0.65:
        c = [v for v in INT_EDGE if lo <= v <= hi] + [-v for v in INT_EDGE if lo <= -v <= hi]
        if c:
            return r.choice(c)
    return r.randint(lo, hi)


ENUM_CASES = ["SHOUTY_CASE", "kCamelCase", "SHOUTY_CASE, kCamelCase", "kCamelCase, SHOUTY_CASE"]


class EnumDef:
    def __init__(self, name, items, max_bits=None, signed=False, case=None, vcase=None):
        self.name, self.items, self.max_bits, self.signed = name, items, max_bits, signed
        self.case = case            # [(cpp) $default enum_case: ...] on the enum
        self.vcase = vcase or {}    # value name -> [(cpp) enum_case: ...] on that value

    def render(self):
        L = ["enum %s:" % self.name]
        if self.max_bits is not None:
            L.append("  [maximum_bits: %d]" % self.max_bits)
        if self.signed:
            L.append("  [is_signed: true]")
        if self.case:
            L.append('  [(cpp) $default enum_case: "%s"]' % self.case)
        for n, v in self.items:
            L.append("  %s = %d" % (n, v))
            if n in self.vcase:
                L.append('    [(cpp) enum_case: "%s"]' % self.vcase[n])
        return L

    def randomize_case(self, r):
        k = r.random()
        self.case = r.choice(ENUM_CASES) if k < 0.6 else None
        self.vcase = {n: r.choice(ENUM_CASES) for n, _ in self.items if r.random() < 0.25}


# bit patterns that exercise the float text format: zeros, denormals, extremes, infinities,
# quiet / signalling NaNs with and without the sign bit and with payloads
F32_POOL = [0x00000000, 0x80000000, 0x00000001, 0x80000001, 0x007fffff, 0x807fffff, 0x00800000, 0x7f7fffff, 0xff7fffff,
            0x7f800000, 0xff800000, 0x7fc00000, 0xffc00000, 0x7f800001, 0xff800001, 0x7fffffff, 0xffffffff, 0x7fa5a5a5,
            0xffc12345, 0xff800100, 0x3f800000, 0xbf800000, 0x3dcccccd, 0x40490fdb, 0x4b800000, 0x501502f9, 0x2edbe6ff]
F64_POOL = [0x0000000000000000, 0x8000000000000000, 0x0000000000000001, 0x8000000000000001, 0x000fffffffffffff,
            0x800fffffffffffff, 0x0010000000000000, 0x7fefffffffffffff, 0xffefffffffffffff, 0x7ff0000000000000,
            0xfff0000000000000, 0x7ff8000000000000, 0xfff8000000000000, 0x7ff0000000000001, 0xfff0000000000001,
            0x7fffffffffffffff, 0xffffffffffffffff, 0x7ff5a5a5a5a5a5a5, 0xfff8000000012345, 0xfff0000100000000,
            0x3ff0000000000000, 0xbff0000000000000, 0x3fb999999999999a, 0x400921fb54442d18, 0x4340000000000000,
            0x7e37e43c8800759c, 0x01a56e1fc2f8f359]


def float_text(pattern, nbits, grouping):
    """Reference (python) rendering of WriteFloatToTextStream: NaN(payload in hex) / Inf / %.9g / %.17g."""
    import struct
    if nbits == 32:
        sign, exp, man = pattern >> 31, (pattern >> 23) & 0xff, pattern & 0x7fffff
        special = exp == 0xff
    else:
        sign, exp, man = pattern >> 63, (pattern >> 52) & 0x7ff, pattern & 0xfffffffffffff
        special = exp == 0x7ff
    if special and man:
        h = "%x" % man
        if grouping:
            parts = []
            while h:
                parts.insert(0, h[-4:])
                h = h[:-4]
            h = "_".join(parts)
        return ("-" if sign else "") + "NaN(0x" + h + ")"
    if special:
        return "-Inf" if sign else "Inf"
    if nbits == 32:
        return "%.9g" % struct.unpack("<f", struct.pack("<I", pattern))[0]
    return "%.17g" % struct.unpack("<d", struct.pack("<Q", pattern))[0]


class F:
    """One field definition."""

    def __init__(self, name, kind, start=None, size=None, **kw):
        self.name, self.kind, self.start, self.size = name, kind, start, size
        self.cond = kw.get("cond")          # None | ("eq", field, k) | ("flag", field)
        self.attr = kw.get("attr")          # None | "Skip" | "Emit"
        self.enum = kw.get("enum")          # EnumDef
        self.sdef = kw.get("sdef")          # SDef for struct / bits typed fields and array elements
        self.elem = kw.get("elem")          # F (element prototype) for arrays
        self.count = kw.get("count")        # int | ("field", name)
        self.sub = kw.get("sub")            # [F] for anonymous bits
        self.form = kw.get("form")          # virtual: ("add", f, c) | ("sum", f, g) | ("const", c) | ("alias", f) | ("gt", f, c) | ("enumconst", EnumDef, item)
        self.control = kw.get("control")    # (lo, hi) domain when used as tag / offset / length
        self.unit = kw.get("unit", 8)       # 8: size in bytes (struct field); 1: size in bits (inside `bits`)

    def nbits(self):
        return self.size * self.unit


class SDef:
    def __init__(self, name, is_bits=False):
        self.name, self.is_bits, self.fields = name, is_bits, []
        self.max_size = 0     # in own units (bytes, or bits for `bits`)
        self.flat = True      # static non-overlapping layout, no conditions (used by the update tie)
        self.has_float = False


def _type_text(f):
    k = f.kind
    if k == "uint":
        return "UInt"
    if k == "int":
        return "Int"
    if k == "bcd":
        return "Bcd"
    if k == "flag":
        return "Flag"
    if k == "float":
        return "Float"
    if k == "enum":
        return f.enum.name
    if k in ("struct", "bits"):
        return f.sdef.name
    raise AssertionError(k)


def _start_text(s):
    return str(s) if isinstance(s, int) else s[1]


class TextModule:
    def __init__(self, rng, n_structs=3, flat_only=False, with_floats=True):
        self.r = rng
        self.byte_order = rng.choice(["LittleEndian", "BigEndian"])
        self.enums = []
        self.sdefs = []      # all structure definitions, in declaration order
        self.tops = []       # names of structures to instantiate
        self.uid = 0
        self.default_case = rng.choice(ENUM_CASES) if rng.random() < 0.5 else None
        self._enums()
        for e in self.enums:
            e.randomize_case(rng)
        if rng.random() < 0.5:
            # an enum that is generated ONLY in kCamelCase (no SHOUTY_CASE enumerator exists in C++)
            rng.choice(self.enums).case = "kCamelCase"
        self.float_tops = []
        if with_floats:
            self.float_tops.append(self.float_struct("Fl0").name)
        for i in range(n_structs):
            if flat_only or rng.random() < 0.3:
                s = self.flat_struct("Flat%d" % i)
            else:
                s = self.rich_struct("Top%d" % i)
            self.tops.append(s.name)

    # ---- names ---------------------------------------------------------------
    def nm(self, p="f"):
        self.uid += 1
        return "%s%d" % (p, self.uid)

    def attr(self, p=0.3):
        k = self.r.random()
        return "Skip" if k < p / 2 else "Emit" if k < p else None

    # ---- enums -----------------------------------------------------------------
    def _enums(self):
        r = self.r
        self.enums.append(EnumDef("Kind", [("ZERO", 0), ("ONE", 1), ("TWO", 2), ("DUP_TWO", 2), ("BIG", 200)]))
        self.enums.append(EnumDef("Small", [("AA", 0), ("B_1", 1), ("CC", 3), ("LAST", 255)], max_bits=8))
        self.enums.append(EnumDef("Wide", [("LOW", 1), ("MID", 65536), ("TOP", 2**64 - 1)]))
        self.enums.append(EnumDef("Sgn", [("NONE", 0), ("SOME", 5), ("MANY", 2**31 - 1)], max_bits=32, signed=True))
        if r.random() < 0.5:
            self.enums.append(EnumDef("Mid", [("XV_%d" % i, r.randint(0, 65535)) for i in range(r.randint(1, 6))], max_bits=16))

    def enum_for_bits(self, nbits):
        c = [e for e in self.enums if (e.max_bits or 64) >= nbits and (nbits >= 2 or not e.signed)]
        return self.r.choice(c) if c else None

    # ---- scalar fields ---------------------------------------------------------
    def scalar(self, unit_bits, max_units, in_bits=False):
        """Returns (F without start, size in units)."""
        r = self.r
        k = r.random()
        name = self.nm()
        if in_bits:
            if k < 0.25:
                return F(name, "flag", size=1, unit=1), 1
            if k < 0.55:
                n = r.randint(1, min(64, max_units))
                return F(name, "uint", size=n, unit=1), n
            if k < 0.75:
                n = r.randint(1, min(64, max_units))
                return F(name, "int", size=n, unit=1), n
            if k < 0.88 and max_units >= 4:
                n = 4 * r.randint(1, min(16, max_units // 4))
                return F(name, "bcd", size=n, unit=1), n
            if max_units < 2:
                return F(name, "uint", size=1, unit=1), 1
            n = r.randint(2, min(64, max_units))
            e = self.enum_for_bits(n)
            if e is None:
                return F(name, "uint", size=n, unit=1), n
            return F(name, "enum", size=n, enum=e, unit=1), n
        nb = r.choice([1, 1, 2, 2, 3, 4, 4, 5, 7, 8, 8])
        nb = min(nb, max_units)
        if k < 0.35:
            return F(name, "uint", size=nb), nb
        if k < 0.65:
            return F(name, "int", size=nb), nb
        if k < 0.8:
            return F(name, "bcd", size=nb), nb
        e = self.enum_for_bits(nb * 8)
        if e is None:
            return F(name, "uint", size=nb), nb
        return F(name, "enum", size=nb, enum=e), nb

    # ---- bits ------------------------------------------------------------------
    def bits_fields(self, total_bits):
        """Non-overlapping bit fields inside a block of total_bits."""
        r = self.r
        out, pos = [], 0
        while pos < total_bits and len(out) < 6:
            if r.random() < 0.2:
                pos += r.randint(1, 3)      # a gap
                continue
            f, n = self.scalar(1, total_bits - pos, in_bits=True)
            if n <= 0 or pos + n > total_bits:
                break
            f.start = pos
            f.attr = self.attr(0.25)
            out.append(f)
            pos += n
        if not out:
            out.append(F(self.nm(), "flag", start=0, size=1, unit=1))
        return out

    def named_bits(self):
        r = self.r
        s = SDef(self.nm("Bits"), is_bits=True)
        total = 8 * r.choice([1, 2, 3, 4, 8])
        s.fields = self.bits_fields(total)
        end = max(f.start + f.size for f in s.fields)
        if end < total:
            n = min(64, total - end)
            s.fields.append(F(self.nm(), "uint", start=total - n, size=n, unit=1))
        s.max_size = total
        self.sdefs.append(s)
        return s

    # ---- flat structure (static, non-overlapping, unconditional) ----------------
    def flat_struct(self, name, depth=0):
        r = self.r
        s = SDef(name)
        pos = 0
        for _ in range(r.randint(2, 6)):
            k = r.random()
            if k < 0.6 or depth > 0 and k < 0.8:
                f, n = self.scalar(8, 8)
            elif k < 0.72:
                b = self.named_bits()
                f, n = F(self.nm(), "bits", size=b.max_size // 8, sdef=b), b.max_size // 8
            elif k < 0.82:
                inner = self.flat_struct(self.nm("Inner"), depth + 1)
                f, n = F(self.nm(), "struct", size=inner.max_size, sdef=inner), inner.max_size
            elif k < 0.92:
                e, en = self.scalar(8, 4)
                c = r.randint(1, 4)
                f, n = F(self.nm(), "array", size=en * c, elem=e, count=c), en * c
            else:
                total = 8 * r.choice([1, 2, 4])
                f, n = F(self.nm("anon"), "anonbits", size=total // 8, sub=self.bits_fields(total)), total // 8
            f.start = pos
            if f.kind != "anonbits":
                f.attr = self.attr(0.25)
            end = pos + n
            pos += n + (r.randint(0, 2) if r.random() < 0.2 else 0)
            s.fields.append(f)
        s.max_size = end
        self.sdefs.append(s)
        return s

    # ---- structure with Float fields (C++ side only: the float text is not modelled) ----
    def float_struct(self, name):
        r = self.r
        s = SDef(name)
        s.flat = False
        s.has_float = True
        pos = 0
        tag = F(self.nm("tag"), "uint", start=pos, size=1, control=(0, 1))
        s.fields.append(tag)
        pos += 1
        for _ in range(r.randint(3, 6)):
            n = r.choice([4, 8])
            s.fields.append(F(self.nm("x"), "float", start=pos, size=n, attr=r.choice([None, None, "Emit"])))
            pos += n
            if r.random() < 0.3:
                f, m = self.scalar(8, 4)
                f.start = pos
                s.fields.append(f)
                pos += m
        n = r.choice([4, 8])
        s.fields.append(F(self.nm("x"), "float", start=pos, size=n, cond=("eq", tag.name, 1)))
        pos += n
        n, c = r.choice([4, 8]), r.randint(1, 4)
        s.fields.append(F(self.nm("xs"), "array", start=pos, size=n * c, elem=F("e", "float", size=n), count=c))
        pos += n * c
        if r.random() < 0.6:
            inner = SDef(self.nm("FlIn"))
            inner.has_float = True
            ip = 0
            for _ in range(r.randint(1, 3)):
                n = r.choice([4, 8])
                inner.fields.append(F(self.nm("y"), "float", start=ip, size=n))
                ip += n
            inner.max_size = ip
            self.sdefs.append(inner)
            s.fields.append(F(self.nm("in"), "struct", start=pos, size=ip, sdef=inner))
            pos += ip
        s.max_size = pos
        self.sdefs.append(s)
        return s

    # ---- rich structure ----------------------------------------------------------
    def rich_struct(self, name):
        r = self.r
        s = SDef(name)
        s.flat = False
        fs = s.fields
        pos = 0
        ints = []     # unconditional integer fields usable by virtual fields: (name, lo, hi)
        late = []     # fields to declare at the END of the source although others depend on them
        # a tag and the fields it switches
        if r.random() < 0.7:
            tag = F(self.nm("tag"), "uint", start=pos, size=1, control=(0, 3))
            pos += 1
            width = 0
            for k in range(r.randint(1, 3)):
                f, n = self.scalar(8, 8)
                f.start, f.cond, f.attr = pos, ("eq", tag.name, k), self.attr()
                fs.append(f)
                width = max(width, n)
            (late if r.random() < 0.5 else fs).append(tag)
            pos += width
        # a flag condition inside an anonymous bits block
        if r.random() < 0.5:
            fl = F(self.nm("has"), "flag", start=0, size=1, control=(0, 1), unit=1)
            sub = [fl] + [x for x in self.bits_fields(8) if x.start > 0]
            fs.append(F(self.nm("anon"), "anonbits", start=pos, size=1, sub=sub))
            pos += 1
            f, n = self.scalar(8, 8)
            f.start, f.cond, f.attr = pos, ("flag", fl.name), self.attr()
            fs.append(f)
            pos += n
        # plain scalars
        for _ in range(r.randint(1, 4)):
            f, n = self.scalar(8, 8)
            f.start, f.attr = pos, self.attr()
            fs.append(f)
            if f.kind in ("uint", "int") and n <= 4:
                lo, hi = (0, 2**(8 * n) - 1) if f.kind == "uint" else (-2**(8 * n - 1), 2**(8 * n - 1) - 1)
                ints.append((f.name, lo, hi))
            pos += n
        # named bits, nested structure
        if r.random() < 0.5:
            b = self.named_bits()
            fs.append(F(self.nm(), "bits", start=pos, size=b.max_size // 8, sdef=b, attr=self.attr(0.2)))
            pos += b.max_size // 8
        if r.random() < 0.6:
            inner = self.flat_struct(self.nm("Inner"), 1) if r.random() < 0.5 else self.cond_inner()
            fs.append(F(self.nm(), "struct", start=pos, size=inner.max_size, sdef=inner, attr=self.attr(0.2)))
            pos += inner.max_size
        # arrays
        if r.random() < 0.7:
            k = r.random()
            if k < 0.4:
                e = F("e", r.choice(["uint", "int"]), size=1)
            elif k < 0.7:
                e, _ = self.scalar(8, 4)
            else:
                inner = self.flat_struct(self.nm("Elem"), 1)
                e = F("e", "struct", size=inner.max_size, sdef=inner)
            if r.random() < 0.5:
                c = r.randint(0, 5) if r.random() < 0.8 else r.choice([8, 9, 17, 64, 65, 70])
                if e.kind == "struct" and c > 5:
                    c = 3
                fs.append(F(self.nm("arr"), "array", start=pos, size=e.size * c, elem=e, count=c, attr=self.attr(0.15)))
                pos += e.size * c
            else:
                mx = 6 if e.kind == "struct" or e.size > 1 else r.choice([6, 70])
                ln = F(self.nm("len"), "uint", start=pos, size=1, control=(0, mx))
                pos += 1
                (late if r.random() < 0.5 else fs).append(ln)
                fs.append(F(self.nm("arr"), "array", start=pos, size=None, elem=e, count=("field", ln.name),
                            attr=self.attr(0.15)))
                pos += e.size * mx
        # a field located by a pointer field (declared later in the source half of the time)
        if r.random() < 0.6:
            room = r.randint(1, 4)
            f, n = self.scalar(8, 4)
            psz = 1 if pos + 16 < 250 else 2
            ptr = F(self.nm("ptr"), "uint", start=pos, size=psz, control=(pos + psz, pos + psz + room))
            pos += psz
            f.start, f.attr = ("field", ptr.name), self.attr()
            fs.append(f)
            (late if r.random() < 0.7 else fs).append(ptr)
            pos += room + n
        fs.extend(late)
        # virtual fields
        for _ in range(r.randint(0, 4)):
            k = r.random()
            nm = self.nm("v")
            if ints and k < 0.3:
                a = r.choice(ints)
                fs.append(F(nm, "let", form=("add", a[0], r.choice([1, 3, 100, -1, -128, 1000])), attr=self.attr()))
            elif ints and k < 0.5:
                a, b = r.choice(ints), r.choice(ints)
                fs.append(F(nm, "let", form=("sum", a[0], b[0]), attr=self.attr()))
            elif ints and k < 0.65:
                fs.append(F(nm, "let", form=("alias", r.choice(ints)[0]), attr=self.attr()))
            elif ints and k < 0.8:
                fs.append(F(nm, "let", form=("gt", r.choice(ints)[0], r.choice([0, 5, 100])), attr=self.attr()))
            elif k < 0.9:
                fs.append(F(nm, "let", form=("const", r.choice([0, 7, -3, 2**31, 2**40, -2**40, 2**63, 2**64 - 1])),
                            attr=self.attr()))
            else:
                e = r.choice(self.enums)
                fs.append(F(nm, "let", form=("enumconst", e, r.choice(e.items)[0]), attr=self.attr()))
        s.max_size = pos
        self.sdefs.append(s)
        return s

    def cond_inner(self):
        r = self.r
        s = SDef(self.nm("Inner"))
        s.flat = False
        tag = F(self.nm("t"), "uint", start=0, size=1, control=(0, 2))
        s.fields.append(tag)
        w = 0
        for k in range(2):
            f, n = self.scalar(8, 4)
            f.start, f.cond, f.attr = 1, ("eq", tag.name, k), self.attr()
            s.fields.append(f)
            w = max(w, n)
        s.max_size = 1 + w
        self.sdefs.append(s)
        return s

    # ---- source ------------------------------------------------------------------
    def text(self):
        L = ['[$default byte_order: "%s"]' % self.byte_order, '[(cpp) namespace: "m"]']
        if self.default_case:
            L.append('[(cpp) $default enum_case: "%s"]' % self.default_case)
        for e in self.enums:
            L += e.render()
        for s in self.sdefs:
            L.append("%s %s:" % ("bits" if s.is_bits else "struct", s.name))
            L += self._fields(s.fields, "  ")
        return "\n".join(L) + "\n"

    def _fields(self, fields, ind):
        L = []
        for f in fields:
            pre = ind
            if f.cond:
                if f.cond[0] == "eq":
                    L.append("%sif %s == %d:" % (ind, f.cond[1], f.cond[2]))
                else:
                    L.append("%sif %s:" % (ind, f.cond[1]))
                pre = ind + "  "
            if f.kind == "let":
                fm = f.form
                ex = {"add": lambda: "%s + %d" % (fm[1], fm[2]) if fm[2] >= 0 else "%s - %d" % (fm[1], -fm[2]),
                      "sum": lambda: "%s + %s" % (fm[1], fm[2]),
                      "alias": lambda: fm[1],
                      "gt": lambda: "%s > %d" % (fm[1], fm[2]),
                      "const": lambda: str(fm[1]) if fm[1] >= 0 else "0 - %d" % -fm[1],
                      "enumconst": lambda: "%s.%s" % (fm[1].name, fm[2])}[fm[0]]()
                L.append("%slet %s = %s" % (pre, f.name, ex))
            elif f.kind == "anonbits":
                L.append("%s%s [+%d]  bits:" % (pre, _start_text(f.start), f.size))
                L += self._fields(f.sub, pre + "  ")
                continue
            elif f.kind == "array":
                e = f.elem
                et = _type_text(e)
                if e.kind in ("uint", "int", "bcd", "enum", "float"):
                    et += ":%d" % (e.size * 8)
                if isinstance(f.count, int):
                    L.append("%s%s [+%d]  %s[%d]  %s" % (pre, _start_text(f.start), f.size, et, f.count, f.name))
                else:
                    sz = f.count[1] if e.size == 1 else "%s * %d" % (f.count[1], e.size)
                    L.append("%s%s [+%s]  %s[]  %s" % (pre, _start_text(f.start), sz, et, f.name))
            else:
                L.append("%s%s [+%d]  %s  %s" % (pre, _start_text(f.start), f.size, _type_text(f), f.name))
            if f.attr:
                L.append('%s  [text_output: "%s"]' % (pre, f.attr))
        return L

    # ---- instances ----------------------------------------------------------------
    def sdef(self, name):
        return [s for s in self.sdefs if s.name == name][0]

    def instance(self, sdef, r=None):
        """Returns (inst, raw) where inst maps field name -> (present, value) and raw is the
        bytes of the structure (or the integer value of a `bits`)."""
        r = r or self.r
        inst = {}
        # 1. controls (unconditional scalars with a restricted domain), wherever they are declared
        for f in self._walk(sdef.fields):
            if f.control:
                lo, hi = f.control
                inst[f.name] = (True, (r.randint(lo, hi) != 0) if f.kind == "flag" else r.randint(lo, hi))
        # 2. everything else
        if sdef.is_bits:
            raw = 0
            for f in sdef.fields:
                v = self._value(f, inst, r)
                raw |= self._encode_bits(f, v) << f.start
            return inst, raw
        buf = {}
        for f in sdef.fields:
            if f.kind == "let":
                continue
            present = self._present(f, inst)
            if f.kind == "anonbits":
                raw = 0
                for g in f.sub:
                    v = self._value(g, inst, r)
                    raw |= self._encode_bits(g, v) << g.start
                inst[f.name] = (True, None)
                self._put(buf, self._start(f, inst), f.size, raw)
                continue
            if not present:
                inst[f.name] = (False, self._zero(f))
                continue
            start = self._start(f, inst)
            if f.kind in ("struct", "bits"):
                sub, raw = self.instance(f.sdef, r)
                inst[f.name] = (True, sub)
                if f.kind == "bits":
                    self._put(buf, start, f.size, raw)
                else:
                    for i, b in enumerate(raw):
                        buf[start + i] = b
                    for i in range(len(raw), f.size):
                        buf.setdefault(start + i, 0)
            elif f.kind == "array":
                n = f.count if isinstance(f.count, int) else inst[f.count[1]][1]
                vals = []
                e = f.elem
                for i in range(n):
                    if e.kind == "struct":
                        sub, raw = self.instance(e.sdef, r)
                        vals.append(sub)
                        for j in range(e.size):
                            buf[start + i * e.size + j] = raw[j] if j < len(raw) else 0
                    else:
                        if e.size == 1 and e.kind in ("uint", "int") and r.random() < 0.6:
                            v = r.choice([65, 97, 48, 32, 126, 35, 123, 10, 0, 31, 127]) if e.kind == "uint" else r.choice([65, 90, 35, -1, -128, 127, 0, 31, 32])
                        else:
                            v = self._scalar_value(e, r)
                        vals.append(v)
                        self._put(buf, start + i * e.size, e.size, self._encode_bits(e, v))
                inst[f.name] = (True, vals)
            else:
                v = self._value(f, inst, r)
                self._put(buf, start, f.size, self._encode_bits(f, v))
        # virtual fields
        for f in sdef.fields:
            if f.kind == "let":
                inst[f.name] = (True, self._virtual(f, inst))
        size = max(buf) + 1 if buf else 0
        raw = bytes(buf.get(i, 0) for i in range(size))
        return inst, raw

    def _walk(self, fields):
        for f in fields:
            yield f
            if f.kind == "anonbits":
                for g in f.sub:
                    yield g

    def _present(self, f, inst):
        if not f.cond:
            return True
        if f.cond[0] == "eq":
            return inst[f.cond[1]][1] == f.cond[2]
        return bool(inst[f.cond[1]][1])

    def _start(self, f, inst):
        return f.start if isinstance(f.start, int) else inst[f.start[1]][1]

    def _put(self, buf, start, nbytes, value):
        bs = value.to_bytes(nbytes, "little" if self.byte_order == "LittleEndian" else "big")
        for i, b in enumerate(bs):
            buf[start + i] = b

    def _value(self, f, inst, r):
        """Chooses (or looks up) the value of scalar field f and records it."""
        if f.name in inst and f.control:
            return inst[f.name][1]
        v = self._scalar_value(f, r)
        inst[f.name] = (True, v)
        return v

    def _zero(self, f):
        if f.kind == "flag":
            return False
        if f.kind in ("struct", "bits"):
            return None
        if f.kind == "array":
            return []
        return 0

    def _virtual(self, f, inst):
        fm = f.form
        if fm[0] == "add":
            return inst[fm[1]][1] + fm[2]
        if fm[0] == "sum":
            return inst[fm[1]][1] + inst[fm[2]][1]
        if fm[0] == "alias":
            return inst[fm[1]][1]
        if fm[0] == "gt":
            return inst[fm[1]][1] > fm[2]
        if fm[0] == "const":
            return fm[1]
        if fm[0] == "enumconst":
            return dict(fm[1].items)[fm[2]]
        raise AssertionError(fm)

    def _encode_bits(self, f, v):
        n = f.nbits()
        # the instance dictionary is the reference for the field values: it must describe the bytes
        if f.kind in ("uint", "enum"):
            assert 0 <= v < 2**n, (f.name, f.kind, n, v)
        elif f.kind == "int":
            assert -(2**(n - 1)) <= v < 2**(n - 1), (f.name, n, v)
        elif f.kind == "bcd":
            assert 0 <= v < 10**(n // 4), (f.name, n, v)
        if f.kind == "float":
            assert 0 <= v < 2**n, (f.name, n, v)
            return v
        if f.kind == "flag":
            return 1 if v else 0
        if f.kind == "bcd":
            out, sh = 0, 0
            while v:
                out |= (v % 10) << sh
                v //= 10
                sh += 4
            return out
        return v & ((1 << n) - 1)

    def _scalar_value(self, f, r):
        n = f.nbits()
        if f.kind == "float":
            pool = F32_POOL if n == 32 else F64_POOL
            return r.choice(pool) if r.random() < 0.8 else r.getrandbits(n)
        if f.kind == "flag":
            return r.random() < 0.5
        if f.kind == "uint":
            return pick_int(r, 0, 2**n - 1)
        if f.kind == "int":
            return pick_int(r, -2**(n - 1), 2**(n - 1) - 1)
        if f.kind == "bcd":
            return pick_int(r, 0, 10**(n // 4) - 1)
        if f.kind == "enum":
            hi = 2**(n - 1) - 1 if f.enum.signed else 2**n - 1
            if f.enum.max_bits:
                hi = min(hi, 2**(f.enum.max_bits - (1 if f.enum.signed else 0)) - 1)
            known = [v for _, v in f.enum.items if v <= hi]
            if known and r.random() < 0.7:
                return r.choice(known)
            return pick_int(r, 0, hi)
        raise AssertionError(f.kind)


# ------------------------------------------------------------------------------------
# abstract view = IR of the real front end + instance values
# ------------------------------------------------------------------------------------
_CPP_ITY = {"::std::int8_t": (True, 8), "::std::uint8_t": (False, 8), "::std::int16_t": (True, 16),
            "::std::uint16_t": (False, 16), "::std::int32_t": (True, 32), "::std::uint32_t": (False, 32),
            "::std::int64_t": (True, 64), "::std::uint64_t": (False, 64)}


def least_width(nbits):
    for w in (8, 16, 32, 64):
        if nbits <= w:
            return w
    raise ValueError(nbits)


class OutOfModel(Exception):
    pass


class ViewBuilder:
    """Builds the tree the Coq model prints.  Nodes:
         ("int", (signed, width), value, (lo, hi) | None)
         ("bool", value)
         ("enum", (signed, width), [(name, value)], value, (lo, hi))
         ("struct", [(finfo, node)])     finfo = dict(name, present, attr, ro, anon)
         ("array", ascii, [node])
    """

    def __init__(self, ir):
        from compiler.util import ir_util
        from compiler.back_end.cpp import header_generator
        self.ir, self.U, self.H = ir, ir_util, header_generator

    def find_type(self, name):
        for t in self.ir.module[0].type:
            if t.name.name.text == name:
                return t
        raise KeyError(name)

    def struct_tree(self, type_ir, inst):
        U = self.U
        inst = inst or {}
        out = []
        unit = type_ir.addressable_unit
        for idx in type_ir.structure.fields_in_dependency_order:
            field = type_ir.structure.field[idx]
            name = field.name.canonical_name.object_path[-1]
            a = U.get_attribute(field.attribute, "text_output")
            attr = None if a is None else a.string_constant.text
            if attr not in (None, "Skip", "Emit"):
                raise OutOfModel("text_output value %r" % attr)
            known = name in inst
            present, value = inst[name] if known else (not (U.field_is_virtual(field) is False), None)
            if not known and not U.field_is_virtual(field):
                present = bool(field.name.is_anonymous)     # anonymous bits blocks are unconditional here
            fi = dict(name=name, present=bool(present), attr=attr, ro=bool(U.field_is_read_only(field)),
                      anon=bool(field.name.is_anonymous), known=known)
            out.append((fi, self.field_node(type_ir, field, value, inst)))
        return ("struct", out)

    def field_node(self, type_ir, field, value, inst):
        U = self.U
        if U.field_is_virtual(field):
            wm = field.write_method
            if wm.has_field("alias"):
                target = U.find_object(wm.alias.path[-1].canonical_name, self.ir)
                parent = U.find_parent_object(wm.alias.path[-1].canonical_name, self.ir)
                return self.physical_node(parent, target, value)
            t = field.read_transform.type
            if t.which_type == "integer":
                if t.integer.minimum_value in ("-infinity", "infinity") or t.integer.maximum_value in ("-infinity", "infinity"):
                    raise OutOfModel("unbounded virtual")
                cpp = self.H._cpp_integer_type_for_range(int(t.integer.minimum_value), int(t.integer.maximum_value))
                return ("int", _CPP_ITY[cpp], int(value or 0), None)
            if t.which_type == "boolean":
                return ("bool", bool(value))
            if t.which_type == "enumeration":
                e = U.find_object(t.enumeration.name.canonical_name, self.ir)
                return self.enum_node(e, int(value or 0), None)
            raise OutOfModel("virtual of type " + str(t.which_type))
        return self.physical_node(type_ir, field, value)

    def physical_node(self, type_ir, field, value):
        U = self.U
        size = U.constant_value(field.location.size)
        nbits = None if size is None else int(size) * type_ir.addressable_unit
        return self.type_node(field.type, nbits, value, type_ir.addressable_unit)

    def enum_node(self, e, value, nbits):
        U = self.U
        max_bits = U.get_integer_attribute(e.attribute, "maximum_bits")
        signed = U.get_boolean_attribute(e.attribute, "is_signed")
        cpp = self.H._cpp_integer_type_for_enum(max_bits, signed)
        names = [(v.name.name.text, int(U.constant_value(v.value))) for v in e.enumeration.value]
        sg, w = _CPP_ITY[cpp]
        rng = None
        if nbits is not None:
            rng = (-(2**(w - 1)), 2**(w - 1) - 1) if (sg and nbits == w) else (0, 2**nbits - 1)
        return ("enum", (sg, w), names, value, rng)

    def type_node(self, t, nbits, value, unit):
        U = self.U
        if t.has_field("array_type"):
            base = t.array_type.base_type
            eb = None
            if base.has_field("size_in_bits"):
                eb = int(U.constant_value(base.size_in_bits))
            ascii_ = False
            if base.has_field("atomic_type"):
                ref = base.atomic_type.reference.canonical_name
                if not ref.module_file and ref.object_path[-1] in ("UInt", "Int") and eb == 8 and unit == 8:
                    ascii_ = True
                if eb is None:
                    obj = U.find_object(ref, self.ir)
                    if obj.has_field("structure"):
                        eb = None
            return ("array", ascii_, [self.type_node(base, eb, v, unit) for v in (value or [])])
        ref = t.atomic_type.reference.canonical_name
        nm = ref.object_path[-1]
        if not ref.module_file:      # prelude
            if nm == "UInt":
                return ("int", (False, least_width(nbits)), int(value or 0), (0, 2**nbits - 1))
            if nm == "Int":
                return ("int", (True, least_width(nbits)), int(value or 0), (-(2**(nbits - 1)), 2**(nbits - 1) - 1))
            if nm == "Bcd":
                return ("int", (False, least_width(nbits)), int(value or 0), (0, 10**(nbits // 4) - 1))
            if nm == "Flag":
                return ("bool", bool(value))
            raise OutOfModel("prelude type " + nm)
        obj = U.find_object(ref, self.ir)
        if obj.has_field("enumeration"):
            return self.enum_node(obj, int(value or 0), nbits)
        if obj.has_field("structure"):
            return self.struct_tree(obj, value if isinstance(value, dict) else {})
        raise OutOfModel("type " + nm)


# ---- Coq rendering ----------------------------------------------------------------
def zlit(n):
    return "(%d)" % n if n < 0 else "%d" % n


def coq_chars(s):
    if isinstance(s, str):
        s = s.encode("latin-1")
    return "[" + ";".join("%d" % b for b in s) + "]"


def coq_text(s):
    """A text as `codes "<literal>"` when it is plain ASCII (Coq string literals may contain
    newlines and tabs), else as a list of codes."""
    if isinstance(s, str):
        s = s.encode("latin-1")
    if all((32 <= b < 127) or b in (9, 10) for b in s):
        return '(codes "%s")' % s.decode("ascii").replace('"', '""')
    return coq_chars(s)


def coq_ity(t):
    return "(mk_ity %s W%d)" % ("true" if t[0] else "false", t[1])


def coq_finfo(fi):
    a = {None: "ANone", "Skip": "ASkip", "Emit": "AEmit"}[fi["attr"]]
    return "(mk_finfo %s %s %s %s %s)" % (coq_text(fi["name"]), "true" if fi["present"] else "false", a,
                                           "true" if fi["ro"] else "false", "true" if fi["anon"] else "false")


def coq_names(names):
    return "[" + ";".join("en %s %s" % (coq_text(n), zlit(v)) for n, v in names) + "]"


def coq_tval(node):
    k = node[0]
    if k == "int":
        return "(VInt %s %s)" % (coq_ity(node[1]), zlit(node[2]))
    if k == "bool":
        return "(VBool %s)" % ("true" if node[1] else "false")
    if k == "enum":
        return "(VEnum %s %s %s)" % (coq_ity(node[1]), coq_names(node[2]), zlit(node[3]))
    if k == "struct":
        return "(VStruct [" + ";".join("fld %s %s" % (coq_finfo(fi), coq_tval(n)) for fi, n in node[1]) + "])"
    if k == "array":
        return "(VArray %s [" % ("true" if node[1] else "false") + ";".join(coq_tval(n) for n in node[2]) + "])"
    raise AssertionError(k)


def coq_opts(o):
    return "(mk_opts %s [] %s %s %s %d)" % (coq_chars(o["indent"]), "true" if o["comments"] else "false",
                                            "true" if o["multiline"] else "false",
                                            "true" if o["grouping"] else "false", o["base"])


def leaves(node, path=()):
    """(path, kind, (lo, hi)) of every leaf a decode_field clause can reach, in tree order."""
    k = node[0]
    if k == "struct":
        for fi, n in node[1]:
            if fi["anon"] or fi["ro"]:
                continue
            yield from leaves(n, path + (("f", fi["name"]),))
    elif k == "array":
        for i, n in enumerate(node[2]):
            yield from leaves(n, path + (("i", i),))
    elif k == "int":
        yield path, node, node[3]
    elif k == "bool":
        yield path, node, (0, 1)
    elif k == "enum":
        yield path, node, node[4]


def coq_path(path):
    return "[" + ";".join("PField %s" % coq_text(x) if k == "f" else "PIndex %d" % x for k, x in path) + "]"


def cpp_path(path):
    return "".join(".%s()" % x if k == "f" else "[%d]" % x for k, x in path)


# ---- shared rendering: field names and enum tables become named definitions ---------------
def _ident(prefix, text):
    return prefix + "".join(c if c.isalnum() else "_%02x" % ord(c) for c in text)


def coq_tval_shared(node, defs):
    """Like coq_tval, but every field name and every enum table is a reference to a definition
    collected in `defs` (name -> (type, term)); string literals are slow to elaborate, so each is
    written once per file."""
    k = node[0]
    if k == "int":
        return "(VInt %s %s)" % (coq_ity(node[1]), zlit(node[2]))
    if k == "bool":
        return "(VBool %s)" % ("true" if node[1] else "false")
    if k == "enum":
        en = _ident("en_", "_".join("%s%d" % (n, v) for n, v in node[2]))[:180]
        if en not in defs:
            defs[en] = ("list (list Z * Z)", coq_names(node[2]))
        return "(VEnum %s %s %s)" % (coq_ity(node[1]), en, zlit(node[3]))
    if k == "struct":
        parts = []
        for fi, n in node[1]:
            nm = _ident("nm_", fi["name"])
            if nm not in defs:
                defs[nm] = ("list Z", coq_text(fi["name"]))
            a = {None: "ANone", "Skip": "ASkip", "Emit": "AEmit"}[fi["attr"]]
            parts.append("fld (mk_finfo %s %s %s %s %s) %s" % (nm, "true" if fi["present"] else "false", a,
                                                               "true" if fi["ro"] else "false",
                                                               "true" if fi["anon"] else "false", coq_tval_shared(n, defs)))
        return "(VStruct [" + ";".join(parts) + "])"
    if k == "array":
        return "(VArray %s [" % ("true" if node[1] else "false") + ";".join(coq_tval_shared(n, defs) for n in node[2]) + "])"
    raise AssertionError(k)


def coq_path_shared(path, defs):
    out = []
    for k, x in path:
        if k == "f":
            nm = _ident("nm_", x)
            if nm not in defs:
                defs[nm] = ("list Z", coq_text(x))
            out.append("PField %s" % nm)
        else:
            out.append("PIndex %d" % x)
    return "[" + ";".join(out) + "]"


# ------------------------------------------------------------------------------------
# layout of a view in its buffer (for the concrete byte store of Text/Store.v)
# ------------------------------------------------------------------------------------
class StoreLayout:
    """Locations of the scalar leaves of a view, from the IR of the real front end and the
    instance values.  An entry is a dict
        path   ((("f", name) | ("i", index)), ...)       from the root view
        loc    dict(order, c, bits=(off, w) | None, kind, ity=(signed, width))
        boff   byte offset of the container in this instance
        tests  [("eq", path, k) | ("flag", path, bool)]   existence condition of the field and of everything around it
        base   constant part of the byte offset
        terms  [path]                                     integer fields whose values are added
    OutOfModel is raised for whatever is not understood (counted by the caller, never guessed)."""

    def __init__(self, ir):
        from compiler.util import ir_util, ir_data
        self.ir, self.U, self.D = ir, ir_util, ir_data
        self.vb = ViewBuilder(ir)

    # -- expressions
    def _ref_path(self, e, prefix):
        return prefix + tuple(("f", p.canonical_name.object_path[-1]) for p in e.field_reference.path)

    def lin(self, e, prefix):
        """integer expression -> (constant, [paths])"""
        F = self.D.FunctionMapping
        if e.has_field("constant"):
            return int(e.constant.value), []
        if e.has_field("field_reference"):
            return 0, [self._ref_path(e, prefix)]
        if e.has_field("function") and e.function.function == F.ADDITION:
            a, b = (self.lin(x, prefix) for x in e.function.args)
            return a[0] + b[0], a[1] + b[1]
        cv = self.U.constant_value(e)
        if cv is not None and not isinstance(cv, bool):
            return int(cv), []
        raise OutOfModel("location expression")

    def tests(self, e, prefix):
        """boolean expression -> conjunction of tests"""
        F = self.D.FunctionMapping
        if e.has_field("boolean_constant"):
            if e.boolean_constant.value:
                return []
            raise OutOfModel("constant false condition")
        if e.has_field("field_reference"):
            return [("flag", self._ref_path(e, prefix), True)]
        if e.has_field("function"):
            fn, args = e.function.function, e.function.args
            if fn == F.AND:
                return self.tests(args[0], prefix) + self.tests(args[1], prefix)
            if fn == F.EQUALITY:
                for a, b in ((args[0], args[1]), (args[1], args[0])):
                    if a.has_field("field_reference") and b.has_field("constant"):
                        return [("eq", self._ref_path(a, prefix), int(b.constant.value))]
        raise OutOfModel("existence condition")

    # -- walk
    def build(self, type_ir, inst):
        self.entries = []
        self.aliases = []
        self._struct(type_ir, inst or {}, (), (0, []), [], None)
        by_path = {e["path"]: e for e in self.entries}
        for path, target in self.aliases:
            hit = [e for e in self.entries if e["path"][:len(target)] == target]
            for e in hit:
                ne = dict(e)
                ne["path"] = path + e["path"][len(target):]
                if ne["path"] not in by_path:
                    by_path[ne["path"]] = ne
                    self.entries.append(ne)
        return self.entries

    def _struct(self, type_ir, inst, prefix, base, tests, container):
        U = self.U
        unit = type_ir.addressable_unit
        for field in type_ir.structure.field:
            name = field.name.canonical_name.object_path[-1]
            if U.field_is_virtual(field):
                wm = field.write_method
                if wm.has_field("alias") and name in inst and inst[name][0]:
                    target = prefix + tuple(("f", p.canonical_name.object_path[-1]) for p in wm.alias.path)
                    self.aliases.append((prefix + (("f", name),), target))
                continue
            anon = bool(field.name.is_anonymous)
            if name in inst:
                present, value = inst[name]
                if anon:
                    value = inst
            elif anon:
                present, value = True, inst
            else:
                continue
            if not present:
                continue
            ftests = tests + self.tests(field.existence_condition, prefix)
            c0, terms = self.lin(field.location.start, prefix)
            size = U.constant_value(field.location.size)
            if size is None:
                if not field.type.has_field("array_type"):
                    raise OutOfModel("field of variable size")
                size = 0
            bo = U.get_attribute(field.attribute, "byte_order")
            order = bo.string_constant.text if bo is not None else None
            path = prefix + (("f", name),)
            if container is None:
                self._type(field.type, value, path, (base[0] + c0, base[1] + terms), ftests, int(size), order, unit, None)
            else:
                if terms:
                    raise OutOfModel("variable bit offset")
                self._type(field.type, value, path, base, ftests, int(size), order, unit,
                           (container[0], container[1], container[2] + c0))

    def _type(self, t, value, path, base, tests, size, order, unit, container):
        """size: in units of the enclosing structure; container (bits context): (order, c bytes, bit offset)."""
        U = self.U
        if t.has_field("array_type"):
            bt = t.array_type.base_type
            eb = U.fixed_size_of_type_in_bits(bt, self.ir)
            if eb is None:
                raise OutOfModel("array of variable-size elements")
            if container is not None:
                for i, v in enumerate(value or []):
                    self._type(bt, v, path + (("i", i),), base, tests, eb, order, unit, (container[0], container[1], container[2] + i * eb))
                return
            if eb % 8:
                raise OutOfModel("array element size")
            for i, v in enumerate(value or []):
                self._type(bt, v, path + (("i", i),), (base[0] + i * (eb // 8), base[1]), tests, eb // 8, order, unit, None)
            return
        ref = t.atomic_type.reference.canonical_name
        nm = ref.object_path[-1]
        nbits = size * unit
        kind = ity = None
        if not ref.module_file:
            if nm == "UInt":
                kind, ity = "SUInt", (False, least_width(nbits))
            elif nm == "Int":
                kind, ity = "SInt", (True, least_width(nbits))
            elif nm == "Bcd":
                kind, ity = "SBcd", (False, least_width(nbits))
            elif nm == "Flag":
                kind, ity = "SFlag", (False, 8)
            else:
                raise OutOfModel("prelude type " + nm)
        else:
            obj = U.find_object(ref, self.ir)
            if obj.has_field("enumeration"):
                node = self.vb.enum_node(obj, 0, nbits)
                kind, ity = "SEnum", node[1]
            elif obj.has_field("structure"):
                sub = value if isinstance(value, dict) else {}
                if obj.addressable_unit == 8:
                    if container is not None:
                        raise OutOfModel("struct inside bits")
                    self._struct(obj, sub, path, base, tests, None)
                else:
                    if container is not None:
                        raise OutOfModel("nested bits")
                    if order is None:
                        raise OutOfModel("bits without byte order")
                    self._struct(obj, sub, path, base, tests, (order, size, 0))
                return
            else:
                raise OutOfModel("type " + nm)
        if container is None:
            if order is None:
                raise OutOfModel("scalar without byte order")
            if not 1 <= size <= 8:
                raise OutOfModel("scalar of %d bytes" % size)
            loc = dict(order=order, c=size, bits=None, kind=kind, ity=ity)
        else:
            loc = dict(order=container[0], c=container[1], bits=(container[2], nbits), kind=kind, ity=ity)
        self.entries.append(dict(path=path, loc=loc, tests=list(tests), base=base[0], terms=list(base[1])))


def inst_value(inst, path):
    """Value of the scalar at `path` in an instance dictionary (aliases of anonymous bits are keys of the enclosing structure)."""
    cur = inst
    for k, x in path:
        if k == "f":
            cur = cur[x][1]
        else:
            cur = cur[x]
    if isinstance(cur, bool):
        return 1 if cur else 0
    return int(cur)


def emitted_leaf_paths(node, gt, path=()):
    """Paths of the leaves written as `name: value` (Text.StructText.events_of), in emission order;
    gt = (plain, Skip, Emit) -> does the generator emit a write clause."""
    k = node[0]
    if k == "struct":
        for fi, n in node[1]:
            g = {None: gt[0], "Skip": gt[1], "Emit": gt[2]}[fi["attr"]]
            if g and fi["present"] and not fi["ro"]:
                yield from emitted_leaf_paths(n, gt, path + (("f", fi["name"]),))
    elif k == "array":
        for i, n in enumerate(node[2]):
            yield from emitted_leaf_paths(n, gt, path + (("i", i),))
    else:
        yield path


_ORDER = {"LittleEndian": "LE", "BigEndian": "BE"}


def coq_loc(loc, boff, null_ctor):
    o = _ORDER.get(loc["order"]) or (null_ctor if loc["order"] == "Null" else None)
    if o is None:
        raise OutOfModel("byte order %r" % loc["order"])
    if loc["bits"] is None:
        return "(loc_whole %s %d%%nat %d%%nat %s %s)" % (o, boff, loc["c"], loc["kind"], coq_ity(loc["ity"]))
    return "(loc_bits %s %d%%nat %d%%nat %d %d %s %s)" % (o, boff, loc["c"], loc["bits"][0], loc["bits"][1], loc["kind"], coq_ity(loc["ity"]))


def coq_store_tables(entries, inst, defs, null_ctor):
    """(ltab term, dtab term, depends_on_buffer?) for the entries of StoreLayout.build."""
    lt, dt = [], []
    dep = False
    for e in entries:
        boff = e["base"] + sum(inst_value(inst, q) for q in e["terms"])
        if boff < 0:
            raise OutOfModel("negative offset")
        p = coq_path_shared(e["path"], defs)
        lt.append("(%s, %s)" % (p, coq_loc(e["loc"], boff, null_ctor)))
        ts = []
        for t in e["tests"]:
            if t[0] == "eq":
                ts.append("TEq %s %s" % (coq_path_shared(t[1], defs), zlit(t[2])))
            else:
                ts.append("TFlag %s %s" % (coq_path_shared(t[1], defs), "true" if t[2] else "false"))
        if e["tests"] or e["terms"]:
            dep = True
        dt.append("(%s, mk_dloc [%s] %s [%s] %s)" % (p, ";".join(ts), zlit(e["base"]),
                                                     ";".join(coq_path_shared(q, defs) for q in e["terms"]),
                                                     coq_loc(e["loc"], 0, null_ctor)))
    return "[" + ";".join(lt) + "]", "[" + ";".join(dt) + "]", dep
