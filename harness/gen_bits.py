"""gen_bits.py -- module / driver / case generator for C02 (scalar decode) and C03 (field writes).

A *plan* is a list of ModuleSpec.  Each module has one struct `Top` whose
(overlapping) fields are either `bits` containers of 1..8 bytes holding scalar
fields at chosen (bit offset, width) -- optionally through a nested `bits` --
or scalars placed directly at a byte offset, each under a byte order.  For every
scalar accessor the generator knows the model-level descriptor

    order, byte offset, container bytes, [(offset, size) ...], kind, width, enum underlying type

so that the same accessor can be evaluated by the Coq model (Bits/Exec.v), by the
arithmetic SPEC (`spec_*` below, written independently of the model) and by the
real generated C++ (driver text produced here, built by cpp_build.py).
"""
import random

KINDS = ("uint", "int", "bcd", "flag", "enum", "float")
ARGTYS = [(True, 8), (False, 8), (True, 16), (False, 16), (True, 32), (False, 32), (True, 64), (False, 64)]
ENUMS = [  # name, signed, maximum_bits
    ("EnU8", False, 8), ("EnS8", True, 8), ("EnU16", False, 16), ("EnS16", True, 16),
    ("EnU32", False, 32), ("EnS32", True, 32), ("EnU64", False, 64), ("EnS64", True, 64),
]
ORDER_ATTR = {"LE": "LittleEndian", "BE": "BigEndian"}


def cty_name(t):
    return "%sint%d_t" % ("" if t[0] else "u", t[1])


def cty_range(t):
    s, b = t
    return (-(1 << (b - 1)), (1 << (b - 1)) - 1) if s else (0, (1 << b) - 1)


def lw(w):
    return 8 if w <= 8 else 16 if w <= 16 else 32 if w <= 32 else 64


class Accessor:
    """One scalar view reachable from the struct view."""

    def __init__(self, order, boff, c, path, kind, w, enum=None, cpp=None):
        self.order, self.boff, self.c, self.path = order, boff, c, list(path)
        self.kind, self.w, self.enum, self.cpp = kind, w, enum, cpp
        self.id = None
        self.module = None
        self.scheme = (0, "LE")     # how the module spells the byte orders (ModuleSpec.scheme, .default)
        self.req = None             # [requires]: conjunction [(op, constant), ...] over `this`

    @property
    def ut(self):
        if self.kind != "enum":
            return None
        for n, s, b in ENUMS:
            if n == self.enum:
                return (s, b)
        raise KeyError(self.enum)

    @property
    def bit_offset(self):
        return sum(o for o, _ in self.path)

    def describe(self):
        return dict(order=self.order, byte_offset=self.boff, container_bytes=self.c, path=self.path,
                    kind=self.kind, width=self.w, enum=self.enum, cpp=self.cpp, scheme=list(self.scheme),
                    requires=[list(c) for c in self.req] if self.req else None)

    def key(self):
        return (self.order, self.boff, self.c, tuple(self.path), self.kind, self.w, self.enum,
                tuple(map(tuple, self.req)) if self.req else None)


# ----------------------------------------------------------------------------------------------
# Arithmetic SPEC (independent of the Coq model): what the language reference says
# ----------------------------------------------------------------------------------------------

def container_val(order, bs):
    return int.from_bytes(bytes(bs), "big" if order == "BE" else "little")


def container_bytes(order, c, v):
    return list(v.to_bytes(c, "big" if order == "BE" else "little"))


def field_range(acc):
    """(lo, hi) of representable values (bcd: decimal range; float: bit patterns; flag 0..1)."""
    w = acc.w
    if acc.kind == "uint" or acc.kind == "float":
        return 0, (1 << w) - 1
    if acc.kind == "int":
        return -(1 << (w - 1)), (1 << (w - 1)) - 1
    if acc.kind == "bcd":
        return 0, 10 ** (w // 4) * 2 ** (w % 4) - 1
    if acc.kind == "flag":
        return 0, 1
    s, b = acc.ut
    if s:
        return -(1 << (w - 1)), (1 << (w - 1)) - 1
    return 0, (1 << w) - 1


_OPS = {"<": lambda a, b: a < b, "<=": lambda a, b: a <= b, ">": lambda a, b: a > b, ">=": lambda a, b: a >= b,
        "==": lambda a, b: a == b, "!=": lambda a, b: a != b}


def req_holds(req, v):
    """a [requires] attribute: conjunction of comparisons of `this` with constants"""
    return all(_OPS[op](v, k) for op, k in (req or ()))


def enum_value_name(enum, k):
    for n, s, b in ENUMS:
        if n == enum:
            names = {0: "ZERO", 1: "ONE", ((1 << (b - 1)) - 1 if s else (1 << b) - 1): "MOST_POS"}
            if s:
                names.update({-1: "NEG_ONE", -(1 << (b - 1)): "MOST_NEG"})
            return "%s.%s" % (enum, names[k])
    raise KeyError(enum)


def req_text(req, enum=None):
    return " && ".join("this %s %s" % (op, enum_value_name(enum, k) if enum else str(k)) for op, k in req)


def spec_complete(acc, root):
    return len(root) >= acc.boff + acc.c


def spec_raw(acc, root):
    cv = container_val(acc.order, root[acc.boff:acc.boff + acc.c])
    return (cv >> acc.bit_offset) & ((1 << acc.w) - 1)


def spec_decode(acc, raw):
    """(ok, value) for the w raw bits of the field."""
    w = acc.w
    if acc.kind in ("uint", "float"):
        return True, raw
    if acc.kind == "flag":
        return True, raw
    if acc.kind == "int" or (acc.kind == "enum" and acc.ut[0]):
        return True, raw - (1 << w) if raw >> (w - 1) else raw
    if acc.kind == "enum":
        return True, raw
    if acc.kind == "bcd":
        ok, v, m, r = True, 0, 1, raw
        while r:
            d = r & 15
            ok = ok and d <= 9
            v += d * m
            m *= 10
            r >>= 4
        return ok, v
    raise ValueError(acc.kind)


def spec_encode(acc, v):
    """raw bits for a representable value."""
    w = acc.w
    if acc.kind == "bcd":
        raw, sh = 0, 0
        while v:
            raw |= (v % 10) << sh
            v //= 10
            sh += 4
        return raw
    return v & ((1 << w) - 1)


def spec_write(acc, root, v):
    """(could_write, try_write, read_after, root_after)"""
    lo, hi = field_range(acc)
    cw = lo <= v <= hi and req_holds(acc.req, v)
    if not cw or not spec_complete(acc, root):
        return cw, False, None, list(root)
    cv = container_val(acc.order, root[acc.boff:acc.boff + acc.c])
    mask = ((1 << acc.w) - 1) << acc.bit_offset
    cv = (cv & ~mask) | (spec_encode(acc, v) << acc.bit_offset)
    new = list(root)
    new[acc.boff:acc.boff + acc.c] = container_bytes(acc.order, acc.c, cv)
    return True, True, v, new


def spec_value_type(acc):
    """(minimum bits, signed) the C++ value type must offer"""
    if acc.kind == "flag":
        return 1, False
    if acc.kind == "float":
        return acc.w, True
    if acc.kind == "enum":
        return acc.w, acc.ut[0]
    return acc.w, acc.kind == "int"


# ----------------------------------------------------------------------------------------------
# Module text
# ----------------------------------------------------------------------------------------------

class BitsType:
    def __init__(self, name, size_bits):
        self.name, self.size, self.lines = name, size_bits, []
        self.n = 0

    def add(self, off, w, type_text, requires=None):
        self.n += 1
        nm = "f%d" % self.n
        self.lines.append("  %d [+%d]  %s  %s" % (off, w, type_text, nm))
        if requires:
            self.lines.append("    [requires: %s]" % requires)
        return nm

    def text(self):
        return "bits %s:\n  0 [+%d]  UInt  whole\n%s\n" % (self.name, self.size, "\n".join(self.lines))


def type_text(kind, enum):
    return {"uint": "UInt", "int": "Int", "bcd": "Bcd", "flag": "Flag", "float": "Float"}.get(kind) or enum


class ModuleSpec:
    """scheme says how the byte orders reach the fields of Top:
         0  every field carries its own [byte_order] attribute;
         1  a module-level $default D, field attributes only where the order differs, and a decoy
            structure BEFORE Top whose own $default is the opposite of D (must not leak into Top);
         2  a module-level $default opposite to D, a structure-level $default D on Top, field
            attributes only where the order differs, and a decoy structure after Top."""

    def __init__(self, name, opt=True, scheme=0, default="LE"):
        self.name, self.opt = name, opt
        self.scheme, self.default = scheme, default
        self.types = []        # BitsType (declaration order: inner types first)
        self.top_lines = []
        self.accessors = []
        self.size = 0
        self._nf = 0
        self._nt = 0

    def new_bits(self, size_bits):
        self._nt += 1
        t = BitsType("Bt%d" % self._nt, size_bits)
        self.types.append(t)
        return t

    def place(self, boff, c, order, type_text_, requires=None):
        """adds a field of Top; returns its accessor name"""
        self._nf += 1
        nm = "t%d" % self._nf
        self.top_lines.append("  %d [+%d]  %s  %s" % (boff, c, type_text_, nm))
        if requires:
            self.top_lines.append("    [requires: %s]" % requires)
        if self.scheme == 0:
            if order in ORDER_ATTR:
                self.top_lines.append('    [byte_order: "%s"]' % ORDER_ATTR[order])
        elif order != self.default:
            self.top_lines.append('    [byte_order: "%s"]' % ORDER_ATTR.get(order, "Null"))
        self.size = max(self.size, boff + c)
        return nm

    def add_accessor(self, acc):
        acc.id = len(self.accessors)
        acc.module = self.name
        acc.scheme = (self.scheme, self.default)
        self.accessors.append(acc)
        return acc

    def text(self):
        out = ['[(cpp) namespace: "%s"]' % self.name, ""]
        other = {"LE": "BE", "BE": "LE"}[self.default]
        if self.scheme == 1:
            out.insert(0, '[$default byte_order: "%s"]' % ORDER_ATTR[self.default])
        elif self.scheme == 2:
            out.insert(0, '[$default byte_order: "%s"]' % ORDER_ATTR[other])
        for n, s, b in ENUMS:
            out.append("enum %s:" % n)
            out.append("  [maximum_bits: %d]" % b)
            if s:
                out.append("  [is_signed: true]")
                out.append("  NEG_ONE = -1")
                out.append("  MOST_NEG = %d" % -(1 << (b - 1)))
            out.append("  ZERO = 0")
            out.append("  ONE = 1")
            out.append("  MOST_POS = %d" % ((1 << (b - 1)) - 1 if s else (1 << b) - 1))
            out.append("")
        for t in self.types:
            out.append(t.text())
        decoy = ["struct Decoy:", '  [$default byte_order: "%s"]' % ORDER_ATTR[other],
                 "  0 [+2]  UInt  dd", "  2 [+4]  Int  ee", ""]
        if self.scheme == 1:
            out.extend(decoy)
        out.append("struct Top:")
        if self.scheme == 2:
            out.append('  [$default byte_order: "%s"]' % ORDER_ATTR[self.default])
        out.extend(self.top_lines)
        out.append("")
        if self.scheme == 2:
            out.extend(decoy)
        return "\n".join(out)


def enum_for(w, signed, salt):
    """an enum of the requested signedness with maximum_bits >= w (rotating over the admissible ones)"""
    cands = [n for n, s, b in ENUMS if s == signed and b >= w]
    return cands[salt % len(cands)]


def triples_quick():
    """all widths 1..64 at offsets {0, 1, 7, 8c-w} for every container size"""
    out = []
    for c in range(1, 9):
        for w in range(1, 8 * c + 1):
            offs = []
            for o in (0, 1, 7, 8 * c - w):
                if 0 <= o and o + w <= 8 * c and o not in offs:
                    offs.append(o)
            for o in offs:
                out.append((c, o, w))
    return out


def triples_all():
    return [(c, o, w) for c in range(1, 9) for w in range(1, 8 * c + 1) for o in range(0, 8 * c - w + 1)]


ROT = ["uint", "int", "bcd", "enumU", "enumS"]


def build_plan(rng, thorough=False, n_modules=None, kinds_per_triple=None):
    """Returns a list of ModuleSpec covering the (c, o, w) triples of the tier."""
    triples = triples_all() if thorough else triples_quick()
    kpt = kinds_per_triple or (2 if not thorough else 1)
    items = []  # (c, o, w, kind, enum)
    for idx, (c, o, w) in enumerate(triples):
        ks = [ROT[(idx + c + j * 2 + w) % len(ROT)] for j in range(kpt)]
        if w == 1:
            ks.append("flag")
        if w in (32, 64) and (thorough or o in (0, 8 * c - w) or idx % 3 == 0):
            ks.append("float")
        for k in dict.fromkeys(ks):
            if k == "enumU":
                items.append((c, o, w, "enum", enum_for(w, False, idx + o)))
            elif k == "enumS":
                items.append((c, o, w, "enum", enum_for(w, True, idx + o)))
            else:
                items.append((c, o, w, k, None))
    nmod = n_modules or (22 if not thorough else max(22, len(items) // 110))
    mods = [ModuleSpec("m%d" % i, opt=(i % 4 != 3), scheme=(i % 3), default=["LE", "BE"][(i // 3) % 2])
            for i in range(nmod)]
    # distribute items round-robin by container size so that each module sees every size
    per_mod = [[] for _ in mods]
    for i, it in enumerate(items):
        per_mod[i % nmod].append(it)
    for mi, (m, its) in enumerate(zip(mods, per_mod)):
        by_c = {}
        for it in its:
            by_c.setdefault(it[0], []).append(it)
        for c, group in sorted(by_c.items()):
            # chunks of <= 14 fields per bits type; each type placed once, order and byte offset rotate
            for ch in range(0, len(group), 14):
                chunk = group[ch:ch + 14]
                bt = m.new_bits(8 * c)
                order = ["LE", "BE"][(mi + ch // 14 + c) % 2]
                if c == 1 and (mi + ch) % 3 == 0:
                    order = "Null"
                boff = (mi + c + ch // 14) % 4
                names = []
                for (_, o, w, kind, enum) in chunk:
                    names.append(bt.add(o, w, type_text(kind, enum)))
                top = m.place(boff, c, order, bt.name)
                for nm, (_, o, w, kind, enum) in zip(names, chunk):
                    m.add_accessor(Accessor(order, boff, c, [(o, w)], kind, w, enum, "%s().%s()" % (top, nm)))
                m.add_accessor(Accessor(order, boff, c, [(0, 8 * c)], "uint", 8 * c, None, "%s().whole()" % top))
        add_nested(m, rng, mi)
        add_struct_level(m, rng, mi)
    return mods


def add_nested(m, rng, mi):
    """bits inside bits: OffsetBitBlock::GetOffsetStorage on an OffsetBitBlock"""
    for j, c in enumerate((1, 2, 3, 4, 6, 8)):
        size = 8 * c
        s1 = rng.randint(2, size - 1) if size > 2 else 2
        o1 = rng.randint(0, size - s1)
        inner = m.new_bits(s1)
        fields = []
        for _ in range(3):
            w = rng.randint(1, s1)
            o2 = rng.randint(0, s1 - w)
            kind = rng.choice(["uint", "int", "bcd", "enumU", "enumS"])
            enum = None
            if kind.startswith("enum"):
                enum = enum_for(w, kind == "enumS", rng.randrange(8))
                kind = "enum"
            fields.append((inner.add(o2, w, type_text(kind, enum)), o2, w, kind, enum))
        outer = m.new_bits(size)
        inm = outer.add(o1, s1, inner.name)
        order = "Null" if c == 1 and mi % 2 == 0 else ["LE", "BE"][(mi + j) % 2]
        boff = (mi + j) % 3
        top = m.place(boff, c, order, outer.name)
        for nm, o2, w, kind, enum in fields:
            m.add_accessor(Accessor(order, boff, c, [(o1, s1), (o2, w)], kind, w, enum,
                                    "%s().%s().%s()" % (top, inm, nm)))


def add_struct_level(m, rng, mi):
    """scalars directly in the struct: the view sits on the BitBlock itself"""
    j = 0
    for c in range(1, 9):
        for kind in ("uint", "int", "bcd", "enumU", "enumS", "float"):
            if kind == "float" and c not in (4, 8):
                continue
            if (mi + c + j) % 2 and not (kind == "float"):
                j += 1
                continue
            j += 1
            enum = None
            k = kind
            if kind.startswith("enum"):
                enum = enum_for(8 * c, kind == "enumS", mi + j)
                k = "enum"
            order = ["LE", "BE"][(mi + j) % 2]
            if c == 1 and j % 3 == 0:
                order = "Null"
            boff = (mi + j) % 5
            top = m.place(boff, c, order, type_text(k, enum))
            m.add_accessor(Accessor(order, boff, c, [], k, 8 * c, enum, "%s()" % top))


# ----------------------------------------------------------------------------------------------
# Buffers and write values
# ----------------------------------------------------------------------------------------------

def field_patterns(acc, rng):
    w = acc.w
    ones = (1 << w) - 1
    pats = [0, ones, 1 << (w - 1), (1 << (w - 1)) - 1, 1, rng.getrandbits(w), rng.getrandbits(w)]
    if acc.kind == "bcd":
        nine = int("9" * ((w + 3) // 4), 16) & ones
        pats += [nine, spec_encode(acc, field_range(acc)[1])]
        nn = (w + 3) // 4
        p = rng.randrange(nn)
        pats.append((nine & ~(15 << (4 * p)) | (rng.randint(10, 15) << (4 * p))) & ones)
        pats.append(int("".join(rng.choice("0123456789") for _ in range(nn)), 16) & ones)
    if acc.kind == "float":
        if w == 32:
            pats += [0x7F800000, 0xFF800000, 0x7FC00001, 0x7F800001, 0x80000000, 0x00000001, 0x3F800000]
        else:
            pats += [0x7FF0000000000000, 0xFFF0000000000000, 0x7FF8000000000001, 0x7FF0000000000001,
                     0x8000000000000000, 1, 0x3FF0000000000000]
    lo, hi = field_range(acc)
    for op, k in (acc.req or ()):
        pats += [spec_encode(acc, x) for x in (k - 1, k, k + 1) if lo <= x <= hi]
    return list(dict.fromkeys(pats))


def read_buffers(acc, size, rng):
    """root buffers (lists of ints) whose field bits hit the boundary patterns"""
    bufs = []
    cbits = 8 * acc.c
    fmask = ((1 << acc.w) - 1) << acc.bit_offset
    for i, p in enumerate(field_patterns(acc, rng)):
        bg = [0, (1 << cbits) - 1, rng.getrandbits(cbits)][i % 3]
        cv = (bg & ~fmask) | (p << acc.bit_offset)
        root = [rng.randrange(256) for _ in range(size)]
        root[acc.boff:acc.boff + acc.c] = container_bytes(acc.order, acc.c, cv)
        bufs.append(root)
    # truncated: the container's last byte is missing
    bufs.append([rng.randrange(256) for _ in range(acc.boff + acc.c - 1)])
    bufs.append([rng.randrange(256) for _ in range(acc.boff + acc.c)])
    return bufs


def write_buffers(acc, size, rng):
    return [[[0] * size, [255] * size][acc.id % 2], [rng.randrange(256) for _ in range(size)],
            [rng.randrange(256) for _ in range(acc.boff + acc.c - 1)]]


def write_values(acc, rng):
    """[(argty, [values])]: range edges +-1, C++ type min/max, random"""
    lo, hi = field_range(acc)
    if acc.kind == "flag":
        return [((False, 8), [0, 1])]
    if acc.kind == "float":
        return [((False, acc.w), [p for p in field_patterns(acc, rng)][:8])]
    if acc.kind == "enum":
        tys = [acc.ut]
    else:
        tys = [ARGTYS[(acc.id * 3 + j * 5) % 8] for j in range(2)]
        tys = list(dict.fromkeys(tys))
    out = []
    for t in tys:
        tlo, thi = cty_range(t)
        cand = [0, 1, -1, lo - 1, lo, lo + 1, hi - 1, hi, hi + 1, tlo, thi,
                rng.randint(lo, hi), rng.randint(tlo, thi), (1 << acc.w), (1 << acc.w) + rng.randint(0, 9)]
        if acc.kind == "bcd":
            cand += [9, 10, 99, 100, hi // 2, 256, 256 + 5, 65536 + 7, (1 << 32) + 3]
        for op, k in (acc.req or ()):
            cand += [k - 1, k, k + 1]
        vals = [v for v in dict.fromkeys(cand) if tlo <= v <= thi]
        out.append((t, vals))
    return out


# ----------------------------------------------------------------------------------------------
# C++ driver
# ----------------------------------------------------------------------------------------------

DRIVER_PRELUDE = r'''
#include <cstdio>
#include <cstdint>
#include <cstring>
#include <cstdlib>
#include <type_traits>
// A failed EMBOSS_CHECK / EMBOSS_DCHECK is counted instead of aborting, so that the
// observation can be reported (chk=<n>); buffers carry 32 canary bytes after their end.
static int verif_chk = 0;
#define EMBOSS_CHECK(x) ((x) ? (void)0 : (void)(++verif_chk))
#define EMBOSS_CHECK_ABORTS false
#define EMBOSS_DCHECK(x) ((x) ? (void)0 : (void)(++verif_chk))
#define EMBOSS_DCHECK_ABORTS false
#include "%(name)s.emb.h"

static const size_t kSlack = 32;
static unsigned char *unhex(const char *s, size_t *n) {
  size_t len = strlen(s) / 2;
  unsigned char *p = static_cast<unsigned char *>(malloc(len + kSlack));
  for (size_t i = 0; i < len; ++i) {
    unsigned v; sscanf(s + 2 * i, "%%2x", &v); p[i] = static_cast<unsigned char>(v);
  }
  for (size_t i = 0; i < kSlack; ++i) p[len + i] = static_cast<unsigned char>(0xC3 ^ i);
  *n = len;
  return p;
}
static int oob(const unsigned char *p, size_t n) {
  for (size_t i = 0; i < kSlack; ++i) if (p[n + i] != static_cast<unsigned char>(0xC3 ^ i)) return 1;
  return 0;
}
static void hexout(const unsigned char *p, size_t n) {
  if (n == 0) printf("-");
  for (size_t i = 0; i < n; ++i) printf("%%02x", p[i]);
}
template <class T> static typename std::enable_if<std::is_enum<T>::value>::type pv(T v) {
  typedef typename std::underlying_type<T>::type U;
  if (std::is_signed<U>::value) printf("%%lld", static_cast<long long>(static_cast<U>(v)));
  else printf("%%llu", static_cast<unsigned long long>(static_cast<U>(v)));
}
template <class T> static typename std::enable_if<std::is_floating_point<T>::value>::type pv(T v) {
  typename std::conditional<sizeof(T) == 4, uint32_t, uint64_t>::type b;
  memcpy(&b, &v, sizeof b);
  printf("%%llu", static_cast<unsigned long long>(b));
}
template <class T> static typename std::enable_if<std::is_integral<T>::value>::type pv(T v) {
  if (std::is_signed<T>::value) printf("%%lld", static_cast<long long>(v));
  else printf("%%llu", static_cast<unsigned long long>(v));
}
template <class T, bool E = std::is_enum<T>::value> struct Sg { static const int v = std::is_signed<T>::value; };
template <class T> struct Sg<T, true> { static const int v = std::is_signed<typename std::underlying_type<T>::type>::value; };

template <class G> static void obs_read(int a, G get, const char *const *bufs, int nb) {
  for (int b = 0; b < nb; ++b) {
    size_t n; unsigned char *buf = unhex(bufs[b], &n);
    verif_chk = 0;
    auto v = get(buf, n);
    typedef decltype(v.UncheckedRead()) VT;
    bool cpl = v.IsComplete();
    bool ok = v.Ok();
    printf("R a=%%d b=%%d ok=%%d cpl=%%d sz=%%d sg=%%d v=", a, b, ok, cpl, static_cast<int>(sizeof(VT) * 8), Sg<VT>::v);
    if (cpl && verif_chk == 0) pv(v.UncheckedRead()); else printf("-");
    printf(" r=");
    if (ok && verif_chk == 0) pv(v.Read()); else printf("-");
    printf(" chk=%%d oob=%%d\n", verif_chk, oob(buf, n));
    free(buf);
  }
}
template <class G, class T> static void obs_write(int a, int t, G get, const char *const *bufs, int nb,
                                                  const T *vals, int nv) {
  for (int b = 0; b < nb; ++b)
    for (int i = 0; i < nv; ++i) {
      size_t n; unsigned char *buf = unhex(bufs[b], &n);
      verif_chk = 0;
      auto v = get(buf, n);
      bool cw = v.CouldWriteValue(vals[i]);
      bool tw = v.TryToWrite(vals[i]);
      int chk = verif_chk;
      printf("W a=%%d b=%%d t=%%d i=%%d cw=%%d tw=%%d rd=", a, b, t, i, cw, tw);
      if (tw && chk == 0 && v.Ok()) pv(v.Read()); else if (tw && chk == 0) { printf("!"); pv(v.UncheckedRead()); } else printf("-");
      printf(" buf="); hexout(buf, n); printf(" chk=%%d oob=%%d\n", chk, oob(buf, n));
      free(buf);
    }
}
template <class F, class U> static F from_bits(U u) { F f; memcpy(&f, &u, sizeof f); return f; }
'''


def c_literal(v, t):
    s, b = t
    if v == -(1 << 63):
        lit = "(-9223372036854775807LL - 1)"
    elif v >= (1 << 63):
        lit = "%dULL" % v
    else:
        lit = "%dLL" % v
    return lit


def hexs(root):
    return "".join("%02x" % x for x in root)


def driver_and_cases(m, rng, mode="both", given=None):
    """Returns (driver_text, cases) where cases[acc.id] = dict(read_bufs, write_bufs, writes=[(argty,[v])]).
    mode: "read" (R lines only), "write" (W lines only) or "both".  given: {acc.id: cases-dict} to replay."""
    src = [DRIVER_PRELUDE % dict(name=m.name)]
    body = []
    cases = {}
    for acc in m.accessors:
        if given is not None:
            g = given[acc.id]
            rb, wb, wv = g.get("read_bufs", []), g.get("write_bufs", []), g.get("writes", [])
        else:
            rb = read_buffers(acc, m.size, rng) if mode != "write" else []
            wb = write_buffers(acc, m.size, rng) if mode != "read" else []
            wv = write_values(acc, rng) if mode != "read" else []
        cases[acc.id] = dict(read_bufs=rb, write_bufs=wb, writes=wv)
        a = acc.id
        src.append("static const char *const rb%d[] = {%s};" % (a, ", ".join('"%s"' % hexs(r) for r in rb) or '""'))
        src.append("static const char *const wb%d[] = {%s};" % (a, ", ".join('"%s"' % hexs(r) for r in wb) or '""'))
        get = "[](unsigned char *p, size_t n) { return %s::MakeTopView(p, n).%s; }" % (m.name, acc.cpp)
        body.append("  { auto get = %s;" % get)
        if rb:
            body.append("    obs_read(%d, get, rb%d, %d);" % (a, a, len(rb)))
        for ti, (t, vals) in enumerate(wv):
            t = tuple(t)
            if not wb or not vals:
                continue
            if acc.kind == "enum":
                et = "%s::%s" % (m.name, acc.enum)
                arr = ", ".join("static_cast<%s>(%s)" % (et, c_literal(v, t)) for v in vals)
                src.append("static const %s wv%d_%d[] = {%s};" % (et, a, ti, arr))
            elif acc.kind == "float":
                ft, utn = ("float", "uint32_t") if acc.w == 32 else ("double", "uint64_t")
                arr = ", ".join("from_bits<%s, %s>(%s)" % (ft, utn, c_literal(v, t)) for v in vals)
                src.append("static const %s wv%d_%d[] = {%s};" % (ft, a, ti, arr))
            elif acc.kind == "flag":
                src.append("static const bool wv%d_%d[] = {%s};" % (a, ti, ", ".join("true" if v else "false" for v in vals)))
            else:
                tn = cty_name(t)
                arr = ", ".join("static_cast<%s>(%s)" % (tn, c_literal(v, t)) for v in vals)
                src.append("static const %s wv%d_%d[] = {%s};" % (tn, a, ti, arr))
            body.append("    obs_write(%d, %d, get, wb%d, %d, wv%d_%d, %d);" % (a, ti, a, len(wb), a, ti, len(vals)))
        body.append("  }")
    # split the body over several functions to keep each one small
    funcs = []
    chunk, k = [], 0
    for line in body:
        chunk.append(line)
        if line == "  }" and len(chunk) > 60:
            funcs.append("static void part%d() {\n%s\n}" % (k, "\n".join(chunk)))
            chunk, k = [], k + 1
    if chunk:
        funcs.append("static void part%d() {\n%s\n}" % (k, "\n".join(chunk)))
        k += 1
    src.extend(funcs)
    src.append("int main() {\n%s\n  printf(\"END\\n\");\n  return 0;\n}\n" % "\n".join("  part%d();" % i for i in range(k)))
    return "\n".join(src), cases


ALIGNED_PRELUDE = r"""
// ---- views with static alignment: buffers live at an address that is K modulo 16 ----
struct ABuf { unsigned char *base; unsigned char *p; size_t n; };
static ABuf aunhex(const char *s, size_t shift) {
  ABuf b; b.n = strlen(s) / 2;
  size_t total = (b.n + kSlack + shift + 31) / 16 * 16;
  b.base = static_cast<unsigned char *>(aligned_alloc(16, total));
  b.p = b.base + shift;
  for (size_t i = 0; i < b.n; ++i) { unsigned v; sscanf(s + 2 * i, "%2x", &v); b.p[i] = static_cast<unsigned char>(v); }
  for (size_t i = 0; i < kSlack; ++i) b.p[b.n + i] = static_cast<unsigned char>(0xC3 ^ i);
  return b;
}
template <class G> static void aobs_read(int a, size_t shift, G get, const char *const *bufs, int nb) {
  for (int b = 0; b < nb; ++b) {
    ABuf ab = aunhex(bufs[b], shift);
    verif_chk = 0;
    auto v = get(ab.p, ab.n);
    typedef decltype(v.UncheckedRead()) VT;
    bool cpl = v.IsComplete();
    bool ok = v.Ok();
    printf("R a=%d b=%d ok=%d cpl=%d sz=%d sg=%d v=", a, b, ok, cpl, static_cast<int>(sizeof(VT) * 8), Sg<VT>::v);
    if (cpl && verif_chk == 0) pv(v.UncheckedRead()); else printf("-");
    printf(" r=");
    if (ok && verif_chk == 0) pv(v.Read()); else printf("-");
    printf(" chk=%d oob=%d\n", verif_chk, oob(ab.p, ab.n));
    free(ab.base);
  }
}
template <class G, class T> static void aobs_write(int a, int t, size_t shift, G get, const char *const *bufs, int nb,
                                                   const T *vals, int nv) {
  for (int b = 0; b < nb; ++b)
    for (int i = 0; i < nv; ++i) {
      ABuf ab = aunhex(bufs[b], shift);
      verif_chk = 0;
      auto v = get(ab.p, ab.n);
      bool cw = v.CouldWriteValue(vals[i]);
      bool tw = v.TryToWrite(vals[i]);
      int chk = verif_chk;
      printf("W a=%d b=%d t=%d i=%d cw=%d tw=%d rd=", a, b, t, i, cw, tw);
      if (tw && chk == 0 && v.Ok()) pv(v.Read()); else if (tw && chk == 0) { printf("!"); pv(v.UncheckedRead()); } else printf("-");
      printf(" buf="); hexout(ab.p, ab.n); printf(" chk=%d oob=%d\n", chk, oob(ab.p, ab.n));
      free(ab.base);
    }
}
"""

ALIGNED_ID = 100000     # observation id of variant vi (1-based) of accessor a: a + ALIGNED_ID * vi


def aligned_variants(acc, thorough=False, light=False):
    """static (alignment A, address k mod A) pairs for the struct view through which the accessor is observed again.
    Containers of 2/4/8 bytes always get a view that puts them at an address that is a multiple of their size under
    alignment 8 (this is what reaches the MemoryAccessor<CharT, N, 0, 8N> specialisations), plus rotating other pairs."""
    vs = []
    # A < 0: the same view over (signed) `char` storage -- what a view over a std::string or a char array is -- with
    # static alignment |A|; bytes >= 0x80 are negative there, so a missing conversion to unsigned shows in any
    # multi-byte container
    if light and not thorough:      # write drivers of the quick tier: one variant per 2/4/8-byte container, few others
        if acc.id % 3 == 0:
            vs.append((-1, 0))
        if acc.c in (2, 4, 8):
            vs.append((8, (-acc.boff) % 8) if acc.id % 2 else (acc.c, (-acc.boff) % acc.c))
        elif acc.id % 6 == 1:
            A = (2, 4, 8)[(acc.id // 6) % 3]
            vs.append((A, (acc.id * 5 + 1) % A))
        return vs
    vs.append((-1, 0))
    if thorough and acc.c in (2, 4, 8):
        vs.append((-8, (-acc.boff) % 8))
    if acc.c in (2, 4, 8):
        vs.append((8, (-acc.boff) % 8))
        if acc.id % 2 == 0 or thorough:
            vs.append((acc.c, (-acc.boff) % acc.c))
    if acc.id % 3 == 1 or thorough:
        A = (2, 4, 8)[(acc.id // 3) % 3]
        vs.append((A, (acc.id * 5 + 1) % A))
    if thorough:
        vs.append((1, 0))
    return list(dict.fromkeys(vs))


def aligned_driver(m, cases, thorough=False, light=False):
    """A second driver over the same buffers and values: every accessor observed through GenericTopView over
    ContiguousBuffer<unsigned char, A, k> (MakeAlignedTopView<unsigned char, A> when k = 0).  Records the variants in
    cases[acc.id]["aligned"]."""
    src = [DRIVER_PRELUDE % dict(name=m.name), ALIGNED_PRELUDE]
    body = []
    for acc in m.accessors:
        cs = cases[acc.id]
        rb, wb, wv = cs["read_bufs"], cs["write_bufs"], cs["writes"]
        cs["aligned"] = aligned_variants(acc, thorough, light)
        if not cs["aligned"]:
            continue
        a = acc.id
        src.append("static const char *const rb%d[] = {%s};" % (a, ", ".join('"%s"' % hexs(r) for r in rb) or '""'))
        src.append("static const char *const wb%d[] = {%s};" % (a, ", ".join('"%s"' % hexs(r) for r in wb) or '""'))
        arrs = []
        for ti, (t, vals) in enumerate(wv):
            t = tuple(t)
            if not wb or not vals:
                continue
            if acc.kind == "enum":
                tn = "%s::%s" % (m.name, acc.enum)
                arr = ", ".join("static_cast<%s>(%s)" % (tn, c_literal(v, t)) for v in vals)
            elif acc.kind == "float":
                tn, utn = ("float", "uint32_t") if acc.w == 32 else ("double", "uint64_t")
                arr = ", ".join("from_bits<%s, %s>(%s)" % (tn, utn, c_literal(v, t)) for v in vals)
            elif acc.kind == "flag":
                tn, arr = "bool", ", ".join("true" if v else "false" for v in vals)
            else:
                tn = cty_name(t)
                arr = ", ".join("static_cast<%s>(%s)" % (tn, c_literal(v, t)) for v in vals)
            src.append("static const %s wv%d_%d[] = {%s};" % (tn, a, ti, arr))
            arrs.append((ti, len(vals)))
        for vi, (A, k) in enumerate(cs["aligned"], 1):
            if A < 0:
                mk = ("%s::GenericTopView< ::emboss::support::ContiguousBuffer<char, %d, %d>>(reinterpret_cast<char *>(p), n)"
                      % (m.name, -A, k))
            elif k == 0:
                mk = "%s::MakeAlignedTopView<unsigned char, %d>(p, n)" % (m.name, A)
            else:
                mk = "%s::GenericTopView< ::emboss::support::ContiguousBuffer<unsigned char, %d, %d>>(p, n)" % (m.name, A, k)
            body.append("  { auto get = [](unsigned char *p, size_t n) { return %s.%s; };" % (mk, acc.cpp))
            aid = a + ALIGNED_ID * vi
            if rb:
                body.append("    aobs_read(%d, %d, get, rb%d, %d);" % (aid, k, a, len(rb)))
            for ti, nv in arrs:
                body.append("    aobs_write(%d, %d, %d, get, wb%d, %d, wv%d_%d, %d);" % (aid, ti, k, a, len(wb), a, ti, nv))
            body.append("  }")
    funcs, chunk, k = [], [], 0
    for line in body:
        chunk.append(line)
        if line == "  }" and len(chunk) > 60:
            funcs.append("static void part%d() {\n%s\n}" % (k, "\n".join(chunk)))
            chunk, k = [], k + 1
    if chunk:
        funcs.append("static void part%d() {\n%s\n}" % (k, "\n".join(chunk)))
        k += 1
    src.extend(funcs)
    src.append("int main() {\n%s\n  printf(\"END\\n\");\n  return 0;\n}\n" % "\n".join("  part%d();" % i for i in range(k)))
    return "\n".join(src)


# ----------------------------------------------------------------------------------------------
# Coq terms
# ----------------------------------------------------------------------------------------------

def coq_cty(t):
    return "(mk_cty %s %d)" % ("true" if t[0] else "false", t[1])


def coq_z(v):
    return "(%d)" % v if v < 0 else "%d" % v


_NULL_CTOR = {}


def null_constructor():
    """Which model constructor stands for NullByteOrderer: read SizeInBytes() from the working tree's header
    (fail closed on an unknown shape)."""
    import re
    from harness import fw
    if fw.REPO not in _NULL_CTOR:
        src = open(fw.REPO + "/runtime/cpp/emboss_memory_util.h").read()
        cls = src[src.index("class NullByteOrderer"):]
        cls = cls[:cls.index("\n};")]
        m = re.search(r"SizeInBytes\(\)\s*const\s*\{([^}]*)\}", cls)
        body = " ".join(m.group(1).split()) if m else None
        if body == "return Ok() ? 1 : 0;":
            _NULL_CTOR[fw.REPO] = "Null"
        elif body == "return buffer_.SizeInBytes();":
            _NULL_CTOR[fw.REPO] = "NullSized"
        else:
            raise ValueError("NullByteOrderer::SizeInBytes has an unknown shape: %r" % body)
    return _NULL_CTOR[fw.REPO]


def coq_acc(acc, opt):
    kind = {"uint": "KUInt", "int": "KInt", "bcd": "KBcd", "flag": "KFlag", "float": "KFloat"}.get(acc.kind)
    if acc.kind == "enum":
        kind = "(KEnum %s)" % coq_cty(acc.ut)
    return "(mk_acc %s %s %d%%nat %d%%nat [%s] %s %d)" % (
        "true" if opt else "false", null_constructor() if acc.order == "Null" else acc.order, acc.boff, acc.c,
        "; ".join("(%d, %d)" % (o, s) for o, s in acc.path), kind, acc.w)


def coq_bytes(root):
    return "[" + ";".join(str(x) for x in root) + "]"


def coq_buf(root):
    """(length, little-endian number) -- Exec.buf_of"""
    return "(%d%%nat, %d)" % (len(root), int.from_bytes(bytes(root), "little"))


def coq_buf_out(root):
    return "(%d, %d)" % (len(root), int.from_bytes(bytes(root), "little"))


# ----------------------------------------------------------------------------------------------
# Modules from explicit accessor descriptions (corpus, replay, search)
# ----------------------------------------------------------------------------------------------

def build_custom(name, descs, opt=True):
    """descs: list of Accessor.describe() dicts (cpp is recomputed)."""
    sch = (descs[0].get("scheme") or [0, "LE"]) if descs else [0, "LE"]
    m = ModuleSpec(name, opt=opt, scheme=sch[0], default=sch[1])
    for d in descs:
        c, path, kind, w, enum = d["container_bytes"], [tuple(x) for x in d["path"]], d["kind"], d["width"], d.get("enum")
        order, boff = d["order"], d["byte_offset"]
        req = [tuple(x) for x in d["requires"]] if d.get("requires") else None
        rq = req_text(req, enum if kind == "enum" else None) if req else None
        if not path:
            top = m.place(boff, c, order, type_text(kind, enum), requires=rq)
            a = m.add_accessor(Accessor(order, boff, c, [], kind, w, enum, "%s()" % top))
        elif len(path) == 1:
            bt = m.new_bits(8 * c)
            nm = bt.add(path[0][0], w, type_text(kind, enum), requires=rq)
            top = m.place(boff, c, order, bt.name)
            a = m.add_accessor(Accessor(order, boff, c, path, kind, w, enum, "%s().%s()" % (top, nm)))
        else:
            inner = m.new_bits(path[0][1])
            nm = inner.add(path[1][0], w, type_text(kind, enum), requires=rq)
            outer = m.new_bits(8 * c)
            inm = outer.add(path[0][0], path[0][1], inner.name)
            top = m.place(boff, c, order, outer.name)
            a = m.add_accessor(Accessor(order, boff, c, path, kind, w, enum, "%s().%s().%s()" % (top, inm, nm)))
        a.req = req
    return m


def gen_requires(rng, kind, w, enum=None):
    """a satisfiable [requires] over `this` for a field of that kind: 1..3 clauses out of < <= > >= != =="""
    if kind == "enum":
        s, b = [(s, b) for n, s, b in ENUMS if n == enum][0]
        vals = [0, 1, (1 << (b - 1)) - 1 if s else (1 << b) - 1]
        k = rng.choice([x for x in vals if x < (1 << w)] or [0])
        return [(rng.choice(["==", "!="]), k)]
    lo, hi = {"uint": (0, (1 << w) - 1), "int": (-(1 << (w - 1)), (1 << (w - 1)) - 1),
              "bcd": (0, 10 ** (w // 4) * 2 ** (w % 4) - 1)}[kind]
    shape = rng.randrange(6)
    a, b = sorted([rng.randint(lo, hi), rng.randint(lo, hi)])
    if shape == 0:
        return [(rng.choice(["<", "<="]), b)]
    if shape == 1:
        return [(rng.choice([">", ">="]), a)]
    if shape == 2:
        return [(rng.choice([">", ">="]), a), (rng.choice(["<", "<="]), b)] if a + 1 < b else [("<=", b)]
    if shape == 3:
        return [("!=", a)]
    if shape == 4:
        return [("==", a)]
    return [(">=", a), ("!=", (a + b) // 2), ("<=", b)] if a + 2 < b else [(">=", a)]


def build_requires_plan(rng, thorough=False):
    """modules whose physical scalar fields (struct level and inside bits) carry [requires: ...]"""
    n_mod = 12 if thorough else 3
    per = 40 if thorough else 28
    mods = []
    for mi in range(n_mod):
        descs = []
        for j in range(per):
            c = rng.randint(1, 8)
            kind = ["uint", "int", "bcd", "enum"][(mi + j) % 4]
            enum = None
            order = rng.choice(["LE", "BE"])
            if j % 3 == 0:          # directly in the struct
                w, path = 8 * c, []
            else:
                w = rng.randint(2 if kind != "bcd" else 4, 8 * c)
                path = [(rng.randint(0, 8 * c - w), w)]
            if kind == "enum":
                enum = enum_for(w, False, rng.randrange(8))
            descs.append(dict(order=order, byte_offset=rng.randrange(4), container_bytes=c, path=path, kind=kind, width=w,
                              enum=enum, requires=gen_requires(rng, kind, w, enum), scheme=[0, "LE"]))
        mods.append(build_custom("q%d" % mi, descs, opt=(mi % 3 != 2)))
    return mods


# ----------------------------------------------------------------------------------------------
# Observations: parse, compare with the SPEC, emit Coq cases
# ----------------------------------------------------------------------------------------------

def _ival(s):
    return None if s in ("-", "") else int(s)


def parse_lines(lines):
    """-> (reads {(a, b): obs}, writes {(a, b, t, i): obs}, complete?)"""
    reads, writes, end = {}, {}, False
    for l in lines:
        parts = l.split()
        if not parts:
            continue
        if parts[0] == "END":
            end = True
            continue
        kv = dict(p.split("=", 1) for p in parts[1:])
        if parts[0] == "R":
            reads[(int(kv["a"]), int(kv["b"]))] = dict(
                ok=kv["ok"] == "1", cpl=kv["cpl"] == "1", sz=int(kv["sz"]), sg=kv["sg"] == "1",
                v=_ival(kv["v"]), r=_ival(kv["r"]), chk=int(kv["chk"]), oob=kv["oob"] == "1", line=l)
        elif parts[0] == "W":
            rd = kv["rd"]
            writes[(int(kv["a"]), int(kv["b"]), int(kv["t"]), int(kv["i"]))] = dict(
                cw=kv["cw"] == "1", tw=kv["tw"] == "1", rd=_ival(rd.lstrip("!")), rd_not_ok=rd.startswith("!"),
                buf=[] if kv["buf"] == "-" else list(bytes.fromhex(kv["buf"])), chk=int(kv["chk"]),
                oob=kv["oob"] == "1", line=l)
    return reads, writes, end


def read_key(acc, root, o, aspect):
    """mechanism key for a read observation that contradicts the SPEC"""
    if acc.order == "Null" and len(root) < acc.boff + acc.c:
        return "null-byte-order-short-buffer"
    # the known finding is about fields NARROWER than the enum's underlying type (no sign extension); a wrong value
    # read from a full-width signed enum field is a different defect and must not be absorbed by it
    if acc.kind == "enum" and acc.ut[0] and aspect == "value" and acc.w < acc.ut[1]:
        return "enum-signed-narrow-read"
    return "scalar-read:%s:%s" % (acc.kind, aspect)


def check_read(acc, root, o):
    """compare one R observation with the SPEC; returns None or (key, message, expected)"""
    cpl = spec_complete(acc, root)
    need_bits, need_signed = spec_value_type(acc)
    exp = dict(complete=cpl)
    if o["oob"]:
        k = read_key(acc, root, o, "oob")
        return (k if not k.startswith("scalar-") else "out-of-bounds-write"), "bytes after the buffer changed during a read", exp
    if not cpl:
        exp.update(ok=False)
        if o["chk"] or o["cpl"] or o["ok"]:
            return (read_key(acc, root, o, "complete"),
                    "field bytes absent, but IsComplete()=%d Ok()=%d, %d CHECK failure(s)" % (o["cpl"], o["ok"], o["chk"]), exp)
        return None
    ok, val = spec_decode(acc, spec_raw(acc, root))
    ok = ok and req_holds(acc.req, val)
    exp.update(ok=ok, value=val, min_bits=need_bits, signed=need_signed)
    if o["chk"]:
        return read_key(acc, root, o, "check"), "EMBOSS_CHECK failed on a complete field", exp
    if not o["cpl"]:
        return read_key(acc, root, o, "complete"), "IsComplete() false on a complete field", exp
    if o["sz"] < need_bits or (acc.kind in ("uint", "int", "bcd", "enum") and o["sg"] != need_signed):
        return (read_key(acc, root, o, "type"),
                "value type has %d bits signed=%d; field needs %d bits signed=%d" % (o["sz"], o["sg"], need_bits, need_signed), exp)
    if o["ok"] != ok:
        return read_key(acc, root, o, "ok"), "Ok()=%d, expected %d" % (o["ok"], ok), exp
    if ok and o["r"] != val:
        return read_key(acc, root, o, "value"), "Read()=%s, expected %s" % (o["r"], val), exp
    if ok and o["v"] != val:
        return read_key(acc, root, o, "value"), "UncheckedRead()=%s, expected %s" % (o["v"], val), exp
    return None


def write_key(acc, root, t, v, o, aspect):
    # CouldWriteValue is static: its verdict cannot depend on the buffer, so a wrong verdict on a short
    # Null-ordered container is the argument/range defect, not the (now fixed) Null-orderer size defect
    if acc.order == "Null" and len(root) < acc.boff + acc.c and aspect != "could_write":
        return "null-byte-order-short-buffer"
    # known finding: negative values of a signed enum are rejected when the field is NARROWER than the value type of
    # the bit block it lives in (EnumView::CouldWriteValue converts the argument to BitViewType::ValueType and compares
    # it with 2**kBits unless kBits is that type's full width); fields as wide as their block's value type and
    # non-negative values are outside it
    # (the narrow field is treated as unsigned: in-range negatives are refused, and values in [2**(w-1), 2**w) accepted)
    # "narrower" as EnumView::CouldWriteValue sees it: the round trip through BitViewType::ValueType changes a negative
    # value unless the field, its block's value type and the enum's underlying type all have the same width
    if (acc.kind == "enum" and acc.ut[0] and not (acc.w == lw(8 * acc.c) and acc.w == acc.ut[1])
            and (v < 0 or v >= 2 ** (acc.w - 1))):
        return "enum-signed-narrow-write"
    if acc.kind == "bcd":
        lo, hi = cty_range((False, lw(acc.w)))
        if not lo <= v <= hi:
            return "bcd-write-arg-narrowing"
    return "scalar-write:%s:%s" % (acc.kind, aspect)


def check_write(acc, root, t, v, o):
    cw, tw, rd, after = spec_write(acc, root, v)
    exp = dict(could_write=cw, try_write=tw, read_after=rd, buffer_after=hexs(after))
    if o["oob"]:
        k = write_key(acc, root, t, v, o, "oob")
        return (k if not k.startswith("scalar-") else "out-of-bounds-write"), "bytes after the buffer changed", exp
    if o["chk"]:
        return write_key(acc, root, t, v, o, "check"), "%d EMBOSS_CHECK failure(s)" % o["chk"], exp
    if o["cw"] != cw:
        return write_key(acc, root, t, v, o, "could_write"), "CouldWriteValue(%d)=%d, expected %d" % (v, o["cw"], cw), exp
    if o["tw"] != tw:
        return write_key(acc, root, t, v, o, "try_write"), "TryToWrite(%d)=%d, expected %d" % (v, o["tw"], tw), exp
    if o["buf"] != after:
        asp = "frame" if not tw else "stored"
        return write_key(acc, root, t, v, o, asp), "buffer after TryToWrite(%d) is %s, expected %s" % (v, hexs(o["buf"]), hexs(after)), exp
    if tw and (o["rd"] != rd or o["rd_not_ok"]):
        return write_key(acc, root, t, v, o, "read_back"), "Read() after TryToWrite(%d) = %s, expected %s" % (v, o["rd"], rd), exp
    return None


def coq_read_expected(o):
    if o["chk"]:
        return "None"
    return "(Some (%s, %s, %d, %s, %s))" % (
        "true" if o["ok"] else "false", "true" if o["cpl"] else "false", o["sz"], "true" if o["sg"] else "false",
        "None" if o["v"] is None else "(Some %s)" % coq_z(o["v"]))


def coq_write_expected(o):
    if o["chk"]:
        return "None"
    return "(Some (%s, %s, %s, %s))" % (
        "true" if o["cw"] else "false", "true" if o["tw"] else "false",
        "None" if o["rd"] is None else "(Some %s)" % coq_z(o["rd"]), coq_buf_out(o["buf"]))


COQ_HEADER = "Require Import EmbossV.Bits.Model EmbossV.Bits.Exec.\nOpen Scope Z_scope.\n"


# ----------------------------------------------------------------------------------------------
# Virtual fields: write inference (+/- chains over one field) and write-through
# ----------------------------------------------------------------------------------------------

class VExpr:
    """a +/- chain over exactly one field reference (or a deliberately non-invertible variant)"""

    def __init__(self, text, a, b, field, invertible=True):
        self.text, self.a, self.b, self.field, self.invertible = text, a, b, field, invertible   # value = a * field + b


def gen_chain(rng, field, depth):
    if depth == 0:
        return VExpr(field, 1, 0, field)
    e = gen_chain(rng, field, depth - 1)
    c = rng.choice([0, 1, 2, 3, 7, 10, 100, 255, 300, rng.randint(0, 500)])
    k = rng.randrange(4)
    inner = e.text if depth == 1 else "(%s)" % e.text
    if k == 0:
        return VExpr("%s + %d" % (inner, c), e.a, e.b + c, field)
    if k == 1:
        return VExpr("%d + %s" % (c, inner), e.a, e.b + c, field)
    if k == 2:
        return VExpr("%s - %d" % (inner, c), e.a, e.b - c, field)
    return VExpr("%d - %s" % (c, inner), -e.a, c - e.b, field)


PHYS = {"x": ("UInt", 0, 1, 0, 255), "z": ("Int", 1, 2, -32768, 32767), "u": ("UInt", 3, 4, 0, 2 ** 32 - 1)}


def virtual_module(name, rng, n=8):
    """returns (text, [(field_name, VExpr)])"""
    lines = ['[(cpp) namespace: "%s"]' % name, "struct Top:",
             "  0 [+1]  UInt  x", "  1 [+2]  Int  z", '    [byte_order: "LittleEndian"]',
             "  3 [+4]  UInt  u", '    [byte_order: "BigEndian"]']
    vs = []
    for i in range(n):
        f = rng.choice(["x", "x", "z", "z", "u"])
        e = gen_chain(rng, f, rng.randint(1, 4))
        vs.append(("y%d" % i, e))
    vs.append(("ro0", VExpr("x * 2", 2, 0, "x", invertible=False)))
    vs.append(("ro1", VExpr("x + x", 2, 0, "x", invertible=False)))
    vs.append(("ro2", VExpr("$max(x, 3) + 1", None, None, "x", invertible=False)))
    vs.append(("ro3", VExpr("(x + 1) - z", None, None, "x", invertible=False)))
    vs.append(("al0", VExpr("x", 1, 0, "x")))
    vs.append(("yy0", VExpr("y0 + 1", None, None, "y0")))       # through another virtual field
    for nm, e in vs:
        lines.append("  let %s = %s" % (nm, e.text))
    return "\n".join(lines) + "\n", vs


# run with PYTHONPATH = the working tree: dumps read_transform / write_method of every virtual field as JSON
IR_DUMP_SCRIPT = r'''
import json, sys
from compiler.front_end import glue
from compiler.util import ir_data, ir_util
text = open(sys.argv[1]).read()
repo = sys.argv[2]
def reader(fn):
    if fn == "m.emb":
        return text, None
    try:
        return open(repo + "/" + fn).read(), None
    except OSError:
        return None, ["not found"]
ir, dbg, errs = glue.parse_emboss_file("m.emb", reader)
if errs:
    print(json.dumps({"errors": [str(e) for e in errs][:3]})); sys.exit(0)
def ex(e):
    w = e.which_expression
    if w == "constant":
        return ["const", int(e.constant.value)]
    if w == "field_reference":
        return ["field", ".".join(str(x) for x in e.field_reference.path[-1].canonical_name.object_path)]
    if w == "builtin_reference":
        nm = e.builtin_reference.canonical_name.object_path[-1]
        return ["logical"] if nm == "$logical_value" else ["const", 0]
    if w == "constant_reference":
        v = ir_util.constant_value(e)
        return ["const", int(v) if v is not None else 0]
    if w == "boolean_constant":
        return ["const", 1 if e.boolean_constant.value else 0]
    if w == "function":
        return ["fn", e.function.function.name, [ex(a) for a in e.function.args]]
    raise ValueError(w)
out = []
for t in ir.module[0].type:
    if not t.has_field("structure"):
        continue
    for f in t.structure.field:
        if not ir_util.field_is_virtual(f) or f.name.name.text.startswith("$"):
            continue
        wm = f.write_method
        d = {"name": f.name.name.text, "read": ex(f.read_transform), "method": wm.which_method}
        if wm.which_method == "transform":
            d["destination"] = ".".join(str(x) for x in wm.transform.destination.path[-1].canonical_name.object_path)
            d["body"] = ex(wm.transform.function_body)
        if wm.which_method == "alias":
            d["destination"] = ".".join(str(x) for x in wm.alias.path[-1].canonical_name.object_path)
        out.append(d)
print(json.dumps({"fields": out}))
'''


def coq_expr(e, ids):
    k = e[0]
    if k == "const":
        return "(EConst %s)" % coq_z(e[1])
    if k == "field":
        return "(EField %d)" % ids.setdefault(e[1], len(ids))
    if k == "logical":
        return "ELogical"
    f = {"ADDITION": "FAdd", "SUBTRACTION": "FSub"}.get(e[1]) or "(FOther %d)" % (sum(ord(c) for c in e[1]))
    return "(EFn %s [%s])" % (f, "; ".join(coq_expr(a, ids) for a in e[2]))


# ----------------------------------------------------------------------------------------------
# [requires] on writable virtual fields (alias and +/- chains) and on their backing fields
# ----------------------------------------------------------------------------------------------

def virtual_requires_module(name, rng, n=10):
    """returns (text, backing {field: Accessor with .req}, virtuals [(name, VExpr, own_req or None)])"""
    backing = {
        "x": Accessor("LE", 0, 1, [], "uint", 8),
        "z": Accessor("LE", 1, 2, [], "int", 16),
        "u": Accessor("BE", 3, 4, [], "uint", 32),
        "n": Accessor("LE", 7, 2, [(0, 12)], "uint", 12),        # inside an anonymous bits
        "d": Accessor("LE", 9, 1, [], "bcd", 8),
    }
    for f, acc in backing.items():
        if rng.random() < 0.5:
            acc.req = gen_requires(rng, acc.kind, acc.w)
    def rq(acc, indent):
        return ["%s[requires: %s]" % (indent, req_text(acc.req))] if acc.req else []
    lines = ['[$default byte_order: "LittleEndian"]', '[(cpp) namespace: "%s"]' % name, "struct Top:",
             "  0 [+1]  UInt  x"] + rq(backing["x"], "    ") + \
            ["  1 [+2]  Int  z"] + rq(backing["z"], "    ") + \
            ["  3 [+4]  UInt  u", '    [byte_order: "BigEndian"]'] + rq(backing["u"], "    ") + \
            ["  7 [+2]  bits:", "    0 [+12]  UInt  n"] + rq(backing["n"], "      ") + ["    12 [+4]  UInt  pad"] + \
            ["  9 [+1]  Bcd  d"] + rq(backing["d"], "    ")
    vs = []
    for i in range(n):
        f = rng.choice(["x", "x", "z", "z", "u", "n", "n", "d"])
        e = gen_chain(rng, f, rng.randint(0, 3))
        lo, hi = field_range(backing[f])
        own = None
        if i % 4 != 3:              # three out of four carry their own requirement
            ks = sorted(e.a * rng.randint(lo, hi) + e.b for _ in range(2))
            shape = rng.randrange(5)
            own = [[(rng.choice(["<", "<="]), ks[1])], [(rng.choice([">", ">="]), ks[0])],
                   [(">=", ks[0]), ("<", ks[1])] if ks[0] < ks[1] else [("<=", ks[1])],
                   [("!=", ks[0])], [("!=", ks[0]), ("<=", ks[1])]][shape]
        vs.append(("y%d" % i, e, own))
    for nm, e, own in vs:
        lines.append("  let %s = %s" % (nm, e.text))
        if own:
            lines.append("    [requires: %s]" % req_text(own))
    return "\n".join(lines) + "\n", backing, vs
