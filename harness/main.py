"""./check entry point."""
import argparse
import importlib
import json
import os
import pkgutil
import sys
import traceback

from harness import fw


def prop_modules():
    import harness.props as pk
    mods = {}
    for m in pkgutil.iter_modules(pk.__path__):
        if m.name.startswith("c") and m.name[1:].isdigit():
            mods[m.name.upper()] = "harness.props." + m.name
    return mods


def cmd_setup():
    rc, out = fw.coq_make(keep_going=True)
    print(out[-3000:])
    if rc != 0:
        # one broken file must not take every check down: each check rebuilds its own closure and
        # reports a broken proof as a violation of its own property
        failed = sorted(set(__import__("re").findall(r"\[Makefile:\d+: (theories/[\w/]+\.vo)\] Error", out)))
        print("setup: coq build had failures (%s); continuing, the affected checks will report them" % ", ".join(failed))
    for name, modname in sorted(prop_modules().items()):
        mod = importlib.import_module(modname)
        if hasattr(mod, "setup"):
            r = mod.setup()
            if r:
                return r
    problems, n = fw.audit_tree()
    for p in problems:
        print("audit:", p)
    print("setup ok: %d .v files, %d audit problems" % (n, len(problems)))
    return 1 if problems else 0


def cmd_manifest():
    props = [json.loads(l) for l in open(os.path.join(fw.VERIF, "properties.jsonl"))]
    mods = prop_modules()
    checks, na, engines = [], [], []
    for p in props:
        pid = p["id"]
        if pid in mods:
            meta = importlib.import_module(mods[pid]).META
            checks.append({
                "property_id": pid,
                "quick_cmd": "./check %s --tier quick" % pid,
                "thorough_cmd": "./check %s --tier thorough" % pid,
                "evidence_file": "/verif/evidence/%s.json" % pid,
                "replay_cmd_template": "./check %s --replay {path}" % pid,
                "engine": "coq-proof+correspondence",
                "level_claimed": {"category": (meta.get("category", "proof") if meta.get("category", "proof") in
                                               ("exploration", "fault_enumeration", "model_checking", "proof",
                                                "translation_validation", "other") else "proof"),
                                  "text": (("" if meta.get("category", "proof") in ("exploration", "fault_enumeration", "model_checking",
                                            "proof", "translation_validation", "other") else "[%s] " % meta.get("category"))
                                           + meta["level_text"]),
                                  "design_ref": meta.get("design_ref", "DESIGN.md section 6 / %s" % pid)},
                "level_note": meta["level_note"],
                "technique": meta["technique"],
            })
        else:
            na.append({"property_id": pid, "reason": "no check registered yet in this revision of /verif (planned: see DESIGN.md section 6 / %s); not claimed" % pid})
    extra_na = {}
    p_na = os.path.join(fw.VERIF, "harness", "not_applicable.json")
    if os.path.exists(p_na):
        extra_na = json.load(open(p_na))
    for e in na:
        if e["property_id"] in extra_na:
            e["reason"] = extra_na[e["property_id"]]
    man = {
        "version": 1,
        "setup_cmd": "./check setup",
        "hooks": {
            "guard": "EMBOSS_VERIF",
            "enable": "checks export EMBOSS_VERIF=1; no source hooks are currently needed (Python internals are imported, C++ is observed through public view methods)",
            "baseline_off_cmd": "cd /repo && /venv/bin/python -m pytest -ra -q -p no:cacheprovider --timeout=900 --continue-on-collection-errors",
            "source_commits": [],
            "add_only": True,
        },
        "engines": [{
            "name": "coq-proof+correspondence",
            "path": "/verif/check",
            "serves_properties": [c["property_id"] for c in checks],
            "kind_free_text": "Coq 8.16.1 theorems about Gallina models (coq/theories), tied to /repo on every run by regenerated tables and a differential correspondence harness (harness/) that evaluates the model inside Coq (vm_compute) or as extracted OCaml on the same inputs as the implementation",
        }],
        "checks": checks,
        "not_applicable": na,
        "notes": "See DESIGN.md.  KNOWN_FINDINGS.json lists genuine defects (known / fixed).",
    }
    with open(os.path.join(fw.VERIF, "MANIFEST.json"), "w") as f:
        json.dump(man, f, indent=1)
        f.write("\n")
    print("MANIFEST.json: %d checks, %d not claimed" % (len(checks), len(na)))
    return 0


def main():
    ap = argparse.ArgumentParser()
    ap.add_argument("what")
    ap.add_argument("--tier", default=os.environ.get("VERIF_TIER", "quick"), choices=["quick", "thorough"])
    ap.add_argument("--replay", default=None)
    ap.add_argument("--seed", type=int, default=None)
    a = ap.parse_args()
    if a.what == "setup":
        sys.exit(cmd_setup())
    if a.what == "manifest":
        sys.exit(cmd_manifest())
    pid = a.what.upper()
    mods = prop_modules()
    if pid not in mods:
        print("unknown property", pid)
        sys.exit(2)
    seed = a.seed if a.seed is not None else int(os.environ.get("VERIF_SEED", "0") or 0)
    ctx = fw.Ctx(pid, a.tier, seed)
    mod = importlib.import_module(mods[pid])
    ctx.replay_path = a.replay
    try:
        mod.run(ctx)
    except Exception as e:  # a crash of the machinery is reported, never silently passed
        tb = traceback.format_exc()
        print(tb)
        ctx.obligation("harness completed", False)
        ctx.violation("harness-crash", "check machinery crashed: %r" % (e,), dict(kind="harness", traceback=tb),
                      found_input=False)
    sys.exit(ctx.finish(level=getattr(mod, "LEVEL", "proof")))


if __name__ == "__main__":
    main()
