"""Shared framework for the /verif checks.

Every property check is a module harness/props/cXX.py exposing
  META : dict       (manifest entry material)
  run(ctx) -> None  (records obligations / correspondence results on ctx)

The framework owns: Coq build (full .vo via coq_makefile), the audit for
forbidden vernacular, Print Assumptions collection, evaluation of model
definitions inside Coq (cases.v + vm_compute), evidence, known findings and
the VIOLATION / KNOWN-FINDING protocol.
"""

import fcntl
import glob
import hashlib
import json
import os
import random
import re
import shutil
import subprocess
import sys
import time

VERIF = os.path.dirname(os.path.dirname(os.path.abspath(__file__)))
REPO = os.environ.get("EMBOSS_REPO", "/repo")
BUILD = os.path.join(VERIF, "build")
COQDIR = os.path.join(VERIF, "coq")
THEORIES = os.path.join(COQDIR, "theories")
GEN = os.path.join(BUILD, "gen")
PY = "/venv/bin/python"
NPROC = os.cpu_count() or 8

# Axioms of Coq's standard library that a theorem may depend on (each is named
# in DESIGN.md section 4 if it is ever used).  Anything else fails the audit.
ALLOWED_AXIOMS = {
    "functional_extensionality_dep",
    "FunctionalExtensionality.functional_extensionality_dep",
    "Coq.Logic.FunctionalExtensionality.functional_extensionality_dep",
}

os.environ.setdefault("PYTHONHASHSEED", "0")


def log(*a):
    print(*a, flush=True)


def sh(cmd, timeout=600, cwd=None, env=None, stdin=None):
    """Run a command (list or shell string); returns (rc, combined output)."""
    e = dict(os.environ)
    if env:
        e.update(env)
    try:
        p = subprocess.run(
            cmd,
            shell=isinstance(cmd, str),
            cwd=cwd,
            env=e,
            input=stdin,
            stdout=subprocess.PIPE,
            stderr=subprocess.STDOUT,
            timeout=timeout,
            text=True,
            errors="replace",
        )
        return p.returncode, p.stdout
    except subprocess.TimeoutExpired as ex:
        out = ex.stdout or ""
        if isinstance(out, bytes):
            out = out.decode(errors="replace")
        return 124, out + "\n[timeout after %ss]" % timeout


def repo_env(extra=None):
    e = {"PYTHONPATH": REPO, "PYTHONHASHSEED": os.environ.get("PYTHONHASHSEED", "0"),
         "EMBOSS_VERIF": "1"}
    if extra:
        e.update(extra)
    return e


# ----------------------------------------------------------------------------
# Coq project
# ----------------------------------------------------------------------------

_FORBIDDEN = [
    (r"\bAdmitted\b", "Admitted"),
    (r"\badmit\b", "admit"),
    (r"\bgive_up\b", "give_up"),
    (r"\bAxioms?\b", "Axiom"),
    (r"\bParameters?\b", "Parameter"),
    (r"\bConjectures?\b", "Conjecture"),
    (r"\bAdmit\s+Obligations\b", "Admit Obligations"),
    (r"\bUnset\s+Guard\s+Checking\b", "Unset Guard Checking"),
    (r"\bUnset\s+Positivity\s+Checking\b", "Unset Positivity Checking"),
    (r"\bUnset\s+Universe\s+Checking\b", "Unset Universe Checking"),
    (r"\bbypass_check\b", "bypass_check"),
    (r"type-in-type", "-type-in-type"),
    (r"impredicative-set", "-impredicative-set"),
]


def strip_comments_and_strings(src):
    out = []
    i, n, depth = 0, len(src), 0
    instr = False
    while i < n:
        c = src[i]
        if instr:
            if c == '"':
                if i + 1 < n and src[i + 1] == '"':
                    i += 2
                    continue
                instr = False
            i += 1
            continue
        if src.startswith("(*", i):
            depth += 1
            i += 2
            continue
        if depth and src.startswith("*)", i):
            depth -= 1
            i += 2
            continue
        if depth:
            i += 1
            continue
        if c == '"':
            instr = True
            i += 1
            out.append(' "" ')
            continue
        out.append(c)
        i += 1
    return "".join(out)


def audit_file(path):
    """Return the list of forbidden constructs in a .v file (comments and strings stripped)."""
    problems = []
    src = strip_comments_and_strings(open(path, encoding="utf-8").read())
    for rx, name in _FORBIDDEN:
        for m in re.finditer(rx, src):
            line = src.count("\n", 0, m.start()) + 1
            problems.append("%s:%d: %s" % (path, line, name))
    # Variable / Hypothesis / Context outside a Section declare axioms
    stack = []
    for m in re.finditer(r"^\s*(Section|Module\s+Type|Module|End|Variables?|Hypothes[ie]s|Context)\b\s*([\w']*)", src, re.M):
        kw, name = m.group(1), m.group(2)
        if kw == "End":
            if stack and stack[-1][1] == name:
                stack.pop()
        elif kw == "Section" or kw.startswith("Module"):
            # 'Module X := Y.' and 'Module X <: T := Y.' do not open a scope
            eol = src.find(".", m.end())
            decl = src[m.end():eol if eol >= 0 else None]
            if kw.startswith("Module") and ":=" in decl:
                continue
            stack.append((kw, name))
        else:
            if not any(k == "Section" for k, _ in stack):
                line = src.count("\n", 0, m.start()) + 1
                problems.append("%s:%d: %s outside Section" % (path, line, kw))
    return problems


def audit_tree(extra_files=()):
    problems = []
    files = sorted(glob.glob(os.path.join(THEORIES, "**", "*.v"), recursive=True)) + list(extra_files)
    for f in files:
        problems += audit_file(f)
    cp = os.path.join(COQDIR, "_CoqProject")
    if os.path.exists(cp):
        txt = open(cp).read()
        for bad in ("-type-in-type", "-impredicative-set", "-vos", "-vok", "-noinit"):
            if bad in txt:
                problems.append("_CoqProject: %s" % bad)
    return problems, len(files)


COQ_FLAGS = ["-Q", THEORIES, "EmbossV", "-Q", GEN, "EmbossVGen"]


def _write_coqproject():
    files = sorted(glob.glob(os.path.join(THEORIES, "**", "*.v"), recursive=True))
    rel = [os.path.relpath(f, COQDIR) for f in files]
    txt = "-Q theories EmbossV\n" + "\n".join(rel) + "\n"
    cp = os.path.join(COQDIR, "_CoqProject")
    old = open(cp).read() if os.path.exists(cp) else None
    changed = old != txt
    if changed:
        open(cp, "w").write(txt)
    return changed


def coq_make(targets=None, timeout=3000, jobs=None, keep_going=False):
    """Full .vo build of the static theories (or of the given .vo targets) under a lock."""
    os.makedirs(BUILD, exist_ok=True)
    os.makedirs(GEN, exist_ok=True)
    lock = open(os.path.join(BUILD, ".coq.lock"), "w")
    fcntl.flock(lock, fcntl.LOCK_EX)
    try:
        changed = _write_coqproject()
        mk = os.path.join(COQDIR, "Makefile")
        if changed or not os.path.exists(mk):
            rc, out = sh(["coq_makefile", "-f", "_CoqProject", "-o", "Makefile"], cwd=COQDIR, timeout=120)
            if rc != 0:
                return rc, out
        cmd = ["make", "-j%d" % (jobs or NPROC)] + (["-k"] if keep_going else [])
        if targets:
            cmd += [os.path.relpath(os.path.join(THEORIES, t), COQDIR) if not t.startswith("theories/") else t
                    for t in targets]
        rc, out = sh(cmd, cwd=COQDIR, timeout=timeout)
        return rc, out
    finally:
        fcntl.flock(lock, fcntl.LOCK_UN)
        lock.close()


def coqc(path, timeout=600, extra_flags=(), stack_unlimited=False):
    """Compile one (generated) .v file against the static theories; returns (rc, out)."""
    cmd = ["coqc"] + COQ_FLAGS + list(extra_flags) + [path]
    if stack_unlimited:
        cmd = "ulimit -s unlimited; exec " + " ".join("'%s'" % c for c in cmd)
    return sh(cmd, timeout=timeout, cwd=os.path.dirname(path))


def theorem_names(vfile):
    src = strip_comments_and_strings(open(vfile).read())
    return re.findall(r"^\s*(?:Theorem|Lemma|Corollary|Example|Fact|Remark|Proposition)\s+([A-Za-z_][\w']*)", src, re.M)


def collect_assumptions(ctx, logical_module, vfile, names=None, timeout=900):
    """Compile a generated file that Requires `logical_module` and redirects
    `Print Assumptions` for each theorem into its own file; returns
    {name: [axioms]} ([] = closed under the global context)."""
    names = names or theorem_names(vfile)
    d = os.path.join(ctx.bdir, "assum")
    shutil.rmtree(d, ignore_errors=True)
    os.makedirs(d)
    tag = logical_module.replace(".", "_")
    path = os.path.join(d, "Assum_%s.v" % tag)
    with open(path, "w") as f:
        f.write("Require Import %s.\n" % logical_module)
        for n in names:
            f.write('Redirect "%s" Print Assumptions %s.\n' % (os.path.join(d, n), n))
    rc, out = coqc(path, timeout=timeout)
    res = {}
    if rc != 0:
        ctx.note("Print Assumptions run failed for %s: %s" % (logical_module, out[-2000:]))
        return None
    for n in names:
        p = os.path.join(d, n + ".out")
        if not os.path.exists(p):
            res[n] = ["<no output>"]
            continue
        txt = open(p).read()
        if "Closed under the global context" in txt:
            res[n] = []
        else:
            axs = re.findall(r"^([A-Za-z_][\w.']*)\s*:", txt, re.M)
            res[n] = axs or ["<unparsed>"]
    return res


# ----------------------------------------------------------------------------
# Running model definitions inside Coq
# ----------------------------------------------------------------------------

def coq_Z(n):
    n = int(n)
    return "(%d)%%Z" % n if n < 0 else "%d%%Z" % n


def coq_N(n):
    assert n >= 0
    return "%d%%N" % int(n)


def coq_bool(b):
    return "true" if b else "false"


def coq_list(items):
    return "[" + "; ".join(items) + "]"


def coq_option(x, f=lambda s: s):
    return "None" if x is None else "(Some %s)" % f(x)


def coq_string(s):
    """A Coq string literal for a python str restricted to bytes < 256 (latin-1)."""
    out = []
    for ch in s:
        o = ord(ch)
        if ch == '"':
            out.append('""')
        elif 32 <= o < 127:
            out.append(ch)
        else:
            raise ValueError("non printable character in coq_string; use coq_codes")
    return '"' + "".join(out) + '"%string'


def coq_codes(s):
    """list N of code points of a python string."""
    return "[" + ";".join("%d" % ord(c) for c in s) + "]%N"


class CoqCases:
    """Evaluate `fn input` in Coq for many inputs and compare with expected outputs.

    header : Coq text (Require Imports ...)
    fn     : Coq term of type A -> B
    eqb    : Coq term of type B -> B -> bool
    cases  : list of (input_term, expected_term, python_case_object)
    Returns list of (index, model_output_text) for mismatches, or raises on Coq failure.
    """

    def __init__(self, ctx, name, header, fn, eqb, in_ty, out_ty, shard=400, timeout=900):
        self.ctx, self.name, self.header, self.fn, self.eqb = ctx, name, header, fn, eqb
        self.in_ty, self.out_ty = in_ty, out_ty
        self.shard, self.timeout = shard, timeout

    def run(self, cases):
        d = os.path.join(self.ctx.bdir, "cases_" + self.name)
        shutil.rmtree(d, ignore_errors=True)
        os.makedirs(d)
        # the compiled form of every static module the cases import must be current (the Properties target
        # built by check_theorems need not depend on the executable wrappers)
        mods = sorted(set(re.findall(r"EmbossV\.((?:[A-Za-z0-9_]+\.)*[A-Za-z0-9_]+)", "EmbossV.Lib.Cases " + self.header)))
        targets = [m.replace(".", "/") + ".vo" for m in mods if os.path.exists(os.path.join(THEORIES, m.replace(".", "/") + ".v"))]
        if targets:
            rc, out = coq_make(targets)
            if rc != 0:
                raise CoqEvalError("building %s failed: %s" % (" ".join(targets), out[-1500:]))
        shards = [cases[i:i + self.shard] for i in range(0, len(cases), self.shard)]
        paths = []
        for k, sh_cases in enumerate(shards):
            p = os.path.join(d, "Cases_%s_%d.v" % (self.name, k))
            with open(p, "w") as f:
                f.write("From Coq Require Import ZArith NArith List String Bool Ascii.\nImport ListNotations.\n")
                f.write("Require Import EmbossV.Lib.Cases.\n")
                f.write(self.header + "\n")
                f.write("Definition the_cases : list (%s * %s) := [\n" % (self.in_ty, self.out_ty))
                f.write(";\n".join("(%s, %s)" % (a, b) for a, b, _ in sh_cases))
                f.write("\n].\n")
                f.write("Definition bad := mismatches (%s) (%s) the_cases.\n" % (self.fn, self.eqb))
                f.write('Redirect "%s" Eval vm_compute in bad.\n' % os.path.join(d, "bad_%d" % k))
                f.write('Redirect "%s" Eval vm_compute in outputs_at (%s) the_cases bad.\n'
                        % (os.path.join(d, "out_%d" % k), self.fn))
            paths.append(p)
        # compile shards in parallel
        procs = []
        results = [None] * len(paths)
        idx = 0
        running = []
        t_end = time.time() + self.timeout
        while idx < len(paths) or running:
            while idx < len(paths) and len(running) < NPROC:
                pr = subprocess.Popen(["bash", "-c", "ulimit -s unlimited 2>/dev/null; exec coqc \"$@\"", "coqc", "-noglob"]
                                      + COQ_FLAGS + [paths[idx]], cwd=d, stdout=subprocess.PIPE,
                                      stderr=subprocess.STDOUT, text=True, errors="replace")
                running.append((idx, pr))
                idx += 1
            still = []
            for k, pr in running:
                if pr.poll() is None:
                    if time.time() > t_end:
                        pr.kill()
                        results[k] = (124, "timeout")
                    else:
                        still.append((k, pr))
                else:
                    results[k] = (pr.returncode, pr.stdout.read())
            running = still
            if running:
                time.sleep(0.05)
        bad = []
        for k, (rc, out) in enumerate(results):
            if rc != 0:
                raise CoqEvalError("coqc failed on %s: %s" % (paths[k], out[-3000:]))
            txt = open(os.path.join(d, "bad_%d.out" % k)).read()
            body = txt.split("=", 1)[1].rsplit(":", 1)[0]
            idxs = [int(x) for x in re.findall(r"(\d+)%N", body)] if "%N" in body else [int(x) for x in re.findall(r"\d+", body)]
            if idxs:
                outtxt = open(os.path.join(d, "out_%d.out" % k)).read()
                for i in idxs:
                    bad.append((k * self.shard + i, outtxt.strip()))
        return bad


class CoqEvalError(Exception):
    pass


# ----------------------------------------------------------------------------
# Known findings
# ----------------------------------------------------------------------------

def load_known_findings():
    p = os.path.join(VERIF, "KNOWN_FINDINGS.json")
    if not os.path.exists(p):
        return []
    return json.load(open(p))["findings"]


# ----------------------------------------------------------------------------
# Context: collects what a run did and writes the evidence
# ----------------------------------------------------------------------------

class Ctx:
    def __init__(self, prop, tier, seed):
        self.prop, self.tier, self.seed = prop, tier, seed
        self.rng = random.Random(seed * 1000003 + int(prop[1:]))
        self.t0 = time.time()
        self.bdir = os.path.join(BUILD, prop)
        os.makedirs(self.bdir, exist_ok=True)
        os.makedirs(os.path.join(VERIF, "replays"), exist_ok=True)
        self.obligations = []     # (name, discharged?, axioms)
        self.evaluations = 0
        self.nontrivial = set()
        self.samples = []
        self.histogram = {}
        self.violations = []      # dict(key, desc, replay_obj, found_input)
        self.known_hits = []
        self.notes = []
        self.assumptions = []
        self.trusted = []
        self.extra = {}
        self.rule = ""
        self.checker_cmd = ""
        self.known = [k for k in load_known_findings() if prop in k.get("properties", [k.get("property")])]

    def thorough(self):
        return self.tier == "thorough"

    def note(self, s):
        self.notes.append(s)
        log("note: " + s)

    def count(self, key, n=1):
        self.histogram[key] = self.histogram.get(key, 0) + n

    def case(self, digest_src, nontrivial=True, sample=None):
        self.evaluations += 1
        if nontrivial:
            self.nontrivial.add(hashlib.sha1(repr(digest_src).encode()).hexdigest()[:16])
        if sample is not None and len(self.samples) < 6:
            self.samples.append(sample)

    def obligation(self, name, ok, axioms=()):
        self.obligations.append((name, bool(ok), list(axioms)))

    # -- violations ----------------------------------------------------------
    def violation(self, key, desc, replay, found_input=True):
        """Record a property violation.  `key` identifies the defect mechanism; it is
        matched against KNOWN_FINDINGS.json (status 'known' suppresses, 'fixed' never does)."""
        for k in self.known:
            if k.get("status") == "known" and k["key"] == key:
                if k.get("where") and not re.search(k["where"], json.dumps(replay, default=str)):
                    continue   # same mechanism on a different kind of input: not the listed finding
                if key not in [h[0] for h in self.known_hits]:
                    self.known_hits.append((key, k["what"]))
                return
        for v in self.violations:
            if v["key"] == key:
                v["count"] += 1
                return
        self.violations.append(dict(key=key, desc=desc, replay=replay, found_input=found_input, count=1))

    # -- theorems ------------------------------------------------------------
    def check_theorems(self, logical_module, relpath, expect_min=1):
        """Build (make) the Properties file and collect Print Assumptions for each theorem in it."""
        vfile = os.path.join(THEORIES, relpath)
        rc, out = coq_make([relpath[:-2] + ".vo"])
        names = theorem_names(vfile)
        if rc != 0:
            self.note("coq build failed for %s:\n%s" % (relpath, out[-3000:]))
            m = re.findall(r'File "([^"]+)", line (\d+)', out)
            for n in names:
                self.obligation(n, False, ["<build failed>"])
            self.violation("proof-broken:" + relpath,
                           "Coq build of %s failed (%s)" % (relpath, m[-1] if m else "?"),
                           dict(kind="proof", file=relpath, log=out[-4000:]), found_input=False)
            return False
        res = collect_assumptions(self, logical_module, vfile, names)
        ok = True
        if res is None:
            for n in names:
                self.obligation(n, False, ["<assumptions unavailable>"])
            return False
        for n in names:
            axs = res[n]
            bad = [a for a in axs if a.split(".")[-1] not in {x.split(".")[-1] for x in ALLOWED_AXIOMS}]
            self.obligation(n, not bad, axs)
            if bad:
                ok = False
                self.violation("axiom:" + n, "theorem %s depends on non-whitelisted axioms %s" % (n, bad),
                               dict(kind="axiom", theorem=n, axioms=axs), found_input=False)
        if self.thorough() and os.environ.get("VERIF_NO_COQCHK") != "1":
            rc2, out2 = sh(["coqchk", "-silent", "-o", "-Q", THEORIES, "EmbossV", logical_module], timeout=1800, cwd=COQDIR)
            m = re.search(r"\* Axioms:\s*(.*?)\n\s*\n", out2, re.S)
            axs = m.group(1).strip() if m else "<unparsed>"
            unsafe = [l for l in re.findall(r"\* (Constants/Inductives relying on [^:]+|Inductives whose positivity is assumed): (.*)", out2)
                      if l[1].strip() != "<none>"]
            good = rc2 == 0 and axs == "<none>" and not unsafe
            self.obligation("coqchk -o %s: independent re-check of the compiled closure; axioms: %s" % (logical_module, axs), good)
            self.extra.setdefault("coqchk", {})[logical_module] = {"rc": rc2, "axioms": axs, "unsafe": unsafe}
            if not good:
                ok = False
                self.violation("coqchk:" + logical_module, "coqchk did not accept %s cleanly (rc %d, axioms %s)" % (logical_module, rc2, axs),
                               dict(kind="proof", module=logical_module, log=out2[-3000:]), found_input=False)
        if len(names) < expect_min:
            ok = False
            self.violation("theorems-missing:" + relpath, "expected at least %d theorems in %s, found %d"
                           % (expect_min, relpath, len(names)), dict(kind="proof", file=relpath), found_input=False)
        return ok

    def audit(self, extra_files=()):
        problems, nfiles = audit_tree(extra_files)
        self.extra["audit_files"] = nfiles
        self.obligation("audit: no Admitted/Axiom/Parameter/guard-off in %d .v files" % nfiles, not problems)
        if problems:
            self.violation("audit", "forbidden vernacular: " + "; ".join(problems[:5]),
                           dict(kind="audit", problems=problems), found_input=False)
        return not problems

    # -- finishing -------------------------------------------------------------
    def finish(self, level="proof"):
        wall = time.time() - self.t0
        n_ob = len(self.obligations)
        n_ok = sum(1 for o in self.obligations if o[1])
        cov = {
            "obligations": n_ob,
            "discharged": n_ok,
            "checker_cmd": self.checker_cmd or "coq_makefile -f _CoqProject -o Makefile && make (coqc 8.16.1, full .vo) ; coqc on generated instance files",
            "trusted_base": self.trusted,
            "theorems": [{"name": n, "discharged": ok, "axioms": ax} for n, ok, ax in self.obligations],
            "evaluations": self.evaluations,
            "distinct_nontrivial": len(self.nontrivial),
            "rule": self.rule,
            "samples": self.samples[:6] or ["(no correspondence cases in this run)"],
            "input_histogram": self.histogram,
            "known_findings_hit": [k for k, _ in self.known_hits],
            "notes": self.notes[:40],
        }
        cov.update(self.extra)
        ev = {
            "property_id": self.prop,
            "tier": self.tier,
            "seed": self.seed,
            "level": level,
            "coverage": cov,
            "assumptions": self.assumptions,
            "wall_s": round(wall, 2),
            "violations": len(self.violations),
        }
        os.makedirs(os.path.join(VERIF, "evidence"), exist_ok=True)
        with open(os.path.join(VERIF, "evidence", self.prop + ".json"), "w") as f:
            json.dump(ev, f, indent=1, default=str)
            f.write("\n")
        for key, what in self.known_hits:
            log("KNOWN-FINDING: property=%s %s [%s]" % (self.prop, what, key))
        rc = 0
        for i, v in enumerate(self.violations):
            path = os.path.join(VERIF, "replays", "%s_%s_%d.json" % (self.prop, self.tier, i))
            with open(path, "w") as f:
                json.dump(dict(property=self.prop, key=v["key"], description=v["desc"], seed=self.seed,
                               tier=self.tier, occurrences=v["count"], replay=v["replay"]), f, indent=1, default=str)
                f.write("\n")
            log("detail: %s" % v["desc"][:600])
            log("VIOLATION property=%s replay=%s%s" % (self.prop, path,
                                                       "" if v["found_input"] else " no-failing-input-found"))
            rc = 1
        log("%s %s: obligations %d/%d, cases %d (%d distinct non-trivial), %.1fs, %s"
            % (self.prop, self.tier, n_ok, n_ob, self.evaluations, len(self.nontrivial), wall,
               "FAIL" if rc else "ok"))
        return rc
