"""Generator of well-typed, realisable .emb modules B and of SINGLE-RULE violations v(B).

A module is a list of line records; every expression is a typed tree (class X), so a
violation can be planted at a random node of a random expression.  The generator knows
by construction what the language reference says about each case:
  case.doc_typed      : the module follows the documented typing rules (C13)
  case.doc_realisable : the module follows the documented layout/attribute rules (C14)
  case.rule           : catalogue key of the single violated rule (None for B)
  case.line           : 1-based line of the mutated construct
"""
import copy


class X:
    """Typed expression tree.  k: 'int' | 'bool' | 'enum:Name' | 'opaque'."""
    __slots__ = ("k", "op", "a", "t")

    def __init__(self, k, op, a=(), t=None):
        self.k, self.op, self.a, self.t = k, op, list(a), t

    def render(self, top=True):
        o = self.op
        if o == "leaf":
            return self.t
        r = [x.render(False) for x in self.a]
        if o in ("$max", "$present", "$upper_bound", "$lower_bound"):
            return "%s(%s)" % (o, ", ".join(r))
        if o == "?:":
            s = "%s ? %s : %s" % tuple(r)
        else:
            s = "%s %s %s" % (r[0], o, r[1])
        return "(" + s + ")"

    def nodes(self, path=()):
        yield path, self
        # do not descend into $present / bound functions' arguments when looking for sites
        if self.op in ("$present",):
            return
        for i, c in enumerate(self.a):
            yield from c.nodes(path + (i,))

    def replace(self, path, new):
        if not path:
            return new
        c = copy.copy(self)
        c.a = list(self.a)
        c.a[path[0]] = self.a[path[0]].replace(path[1:], new)
        return c


def L(k, t):
    return X(k, "leaf", (), t)


class Env:
    """Names visible in one structure, by kind."""

    def __init__(self):
        self.names = {"int": [], "bool": [], "opaque": []}
        self.params = []       # (name, kind)
        self.present = []      # physical field names usable in $present

    def add(self, kind, name):
        self.names.setdefault(kind, []).append(name)

    def of(self, kind):
        return self.names.get(kind, [])


class ExprGen:
    def __init__(self, rng, env, enums):
        self.r, self.env, self.enums = rng, env, enums   # enums: {name: [value names]}

    def const(self):
        return L("int", str(self.r.choice([0, 1, 2, 3, 4, 5, 7, 8, 10, 12, 16, 20, 32, 100])))

    def int_leaf(self, nonconst=False):
        ns = self.env.of("int")
        if ns and (nonconst or self.r.random() < 0.65):
            return L("int", self.r.choice(ns))
        return self.const()

    def int_expr(self, d):
        r = self.r
        if d <= 0 or r.random() < 0.25:
            return self.int_leaf()
        k = r.random()
        if k < 0.3:
            return X("int", "+", [self.int_expr(d - 1), self.int_expr(d - 1)])
        if k < 0.5:
            return X("int", "-", [self.int_expr(d - 1), self.int_expr(d - 1)])
        if k < 0.62:
            return X("int", "*", [self.int_expr(d - 1), L("int", str(r.choice([1, 2, 3, 4, 8, 10])))])
        if k < 0.78:
            return X("int", "?:", [self.bool_expr(d - 1), self.int_expr(d - 1), self.int_expr(d - 1)])
        if k < 0.92:
            return X("int", "$max", [self.int_expr(d - 1) for _ in range(r.choice([1, 2, 2, 3]))])
        if self.env.of("int"):
            return X("int", r.choice(["$upper_bound", "$lower_bound"]),
                     [X("int", "+", [self.int_leaf(True), self.int_expr(d - 2)]) if r.random() < 0.5
                      else self.int_leaf(True)])
        return self.int_leaf()

    def bool_expr(self, d):
        r = self.r
        if d <= 0 or r.random() < 0.15:
            ns = self.env.of("bool")
            if ns and r.random() < 0.6:
                return L("bool", r.choice(ns))
            return L("bool", r.choice(["true", "false"]))
        k = r.random()
        if k < 0.45:
            return X("bool", r.choice(["==", "!=", "<", "<=", ">", ">="]), [self.int_expr(d - 1), self.int_expr(d - 1)])
        if k < 0.6:
            return X("bool", "&&", [self.bool_expr(d - 1), self.bool_expr(d - 1)])
        if k < 0.75:
            return X("bool", "||", [self.bool_expr(d - 1), self.bool_expr(d - 1)])
        if k < 0.85 and self.enums:
            en = r.choice(sorted(self.enums))
            return X("bool", r.choice(["==", "!="]), [self.enum_expr(d - 1, en), self.enum_expr(d - 1, en)])
        if k < 0.9:
            return X("bool", r.choice(["==", "!="]), [self.bool_expr(d - 1), self.bool_expr(d - 1)])
        if k < 0.96 and (self.env.present or self.env.params):
            return X("bool", "$present", [L("any", r.choice(self.env.present + [p for p, _ in self.env.params]))])
        return X("bool", "?:", [self.bool_expr(d - 1), self.bool_expr(d - 1), self.bool_expr(d - 1)])

    def enum_expr(self, d, en):
        r = self.r
        k = "enum:" + en
        if d <= 0 or r.random() < 0.7:
            ns = self.env.of(k)
            if ns and r.random() < 0.5:
                return L(k, r.choice(ns))
            return L(k, en + "." + r.choice(self.enums[en]))
        return X(k, "?:", [self.bool_expr(d - 1), self.enum_expr(d - 1, en), self.enum_expr(d - 1, en)])

    def of_kind(self, kind, d):
        if kind == "int":
            return self.int_expr(d)
        if kind == "bool":
            return self.bool_expr(d)
        if kind.startswith("enum:"):
            return self.enum_expr(d, kind[5:])
        raise ValueError(kind)


# ----------------------------------------------------------------------------
# lines
# ----------------------------------------------------------------------------
class Line:
    def __init__(self, kind, indent=0, **f):
        self.kind, self.indent, self.f = kind, indent, f
        self.owner = f.pop("owner", None)   # name of the enclosing struct/bits/enum
        self.env = f.pop("env", None)       # names an expression on this line may mention (no cycles)

    def render(self):
        f, k = self.f, self.kind
        ind = "  " * self.indent
        if k == "raw":
            return ind + f["text"]
        if k == "attr":
            v = f["value"]
            v = v.render() if isinstance(v, X) else v
            return ind + "[%s%s%s: %s]" % ("(%s) " % f["backend"] if f.get("backend") else "",
                                           "$default " if f.get("default") else "", f["name"], v)
        if k == "enum_value":
            return ind + "%s = %s" % (f["name"], f["value"].render())
        if k == "head":
            ps = f.get("params") or []
            return ind + "%s %s%s:" % (f["what"], f["name"],
                                       "(" + ", ".join("%s: %s" % p for p in ps) + ")" if ps else "")
        if k == "if":
            return ind + "if %s:" % f["cond"].render()
        if k == "let":
            return ind + "let %s = %s" % (f["name"], f["value"].render())
        if k == "field":
            t = f["tname"]
            if f.get("targs"):
                t += "(" + ", ".join(a.render() for a in f["targs"]) + ")"
            if f.get("tbits") is not None:
                t += ":%s" % f["tbits"]
            for d in f.get("dims", []):
                t += "[%s]" % ("" if d is None else d.render())
            return ind + "%s [+%s]  %s  %s" % (f["start"].render(), f["size"].render(), t, f["name"])
        if k == "anon_bits":
            return ind + "%s [+%s]  bits:" % (f["start"].render(), f["size"].render())
        raise ValueError(k)

    def slots(self):
        """[(slot name, expression, expected kind)] of this line."""
        f, k = self.f, self.kind
        out = []
        if k == "attr" and isinstance(f["value"], X):
            out.append(("value", f["value"], f["value"].k))
        elif k == "enum_value":
            out.append(("value", f["value"], "int"))
        elif k == "if":
            out.append(("cond", f["cond"], "bool"))
        elif k == "let":
            out.append(("value", f["value"], f["value"].k))
        elif k in ("field", "anon_bits"):
            out.append(("start", f["start"], "int"))
            out.append(("size", f["size"], "int"))
            for i, d in enumerate(f.get("dims", [])):
                if d is not None:
                    out.append(("dims:%d" % i, d, "int"))
            for i, a in enumerate(f.get("targs", []) or []):
                out.append(("targs:%d" % i, a, a.k))
        return out

    def set_slot(self, name, e):
        if ":" in name:
            n, i = name.split(":")
            self.f[n] = list(self.f[n])
            self.f[n][int(i)] = e
        else:
            self.f[name] = e


class Case:
    def __init__(self, lines, rule=None, line=None, doc_typed=True, doc_realisable=True, note="", cls=None, alt_lines=()):
        self.lines, self.rule, self.line = lines, rule, line
        self.alt_lines = list(alt_lines)   # other lines of the mutated construct (e.g. the head of the bits type)
        self.doc_typed, self.doc_realisable, self.note = doc_typed, doc_realisable, note
        self.cls = cls    # 'C13' or 'C14' catalogue
        self.extra = None  # other files of the case (imports)

    def text(self):
        return "\n".join(l.render() for l in self.lines) + "\n"


def _only_this(kind):
    e = Env()
    e.add(kind, "this")
    return e


# ----------------------------------------------------------------------------
# base module
# ----------------------------------------------------------------------------
class Base:
    """A well-typed, realisable module with sites of every kind."""

    def __init__(self, rng, depth=2):
        self.r = rng
        self.depth = depth
        self.lines = []
        self.enums = {}
        self.envs = {}        # struct name -> Env
        self.meta = {}
        self.cur_env = None
        self.build()

    def add(self, *a, **k):
        if "env" not in k and self.cur_env is not None:
            k["env"] = copy.deepcopy(self.cur_env)
        l = Line(*a, **k)
        self.lines.append(l)
        return l

    def build(self):
        r = self.r
        self.order = r.choice(["LittleEndian", "BigEndian"])
        self.module_default = r.random() < 0.5
        if self.module_default:
            self.add("attr", 0, name="byte_order", value='"%s"' % self.order, default=True, scope="module")
        # enums ------------------------------------------------------------------
        signed_b = r.random() < 0.5
        mb = r.choice([8, 12, 16])
        self.enum_bits = {"Aa": 64, "Bb": mb}
        self.enum_signed = {"Aa": False, "Bb": signed_b}
        self.add("head", 0, what="enum", name="Aa", owner="Aa")
        self.enums["Aa"] = ["AX", "AY", "AZ"]
        for i, n in enumerate(self.enums["Aa"]):
            self.add("enum_value", 1, name=n, value=L("int", str(r.choice([i, i * 3, i + 10]))), owner="Aa")
        self.add("enum_value", 1, name="AQ", value=L("int", "40"), owner="Aa", spare=True)
        self.add("head", 0, what="enum", name="Bb", owner="Bb")
        self.add("attr", 1, name="maximum_bits", value=L("int", str(mb)), scope="enum", owner="Bb")
        self.add("attr", 1, name="is_signed", value=L("bool", "true" if signed_b else "false"), scope="enum", owner="Bb")
        self.enums["Bb"] = ["BX", "BY"]
        hi = (2 ** (mb - 1) - 1) if signed_b else (2 ** mb - 1)
        lo = -(2 ** (mb - 1)) if signed_b else 0
        self.add("enum_value", 1, name="BX", value=L("int", str(r.choice([lo, 0, 1]))), owner="Bb", edge="lo")
        self.add("enum_value", 1, name="BY", value=L("int", str(r.choice([hi, hi - 1, 2]))), owner="Bb", edge="hi")
        # a one-bit enum: the lower boundary of maximum_bits
        self.add("head", 0, what="enum", name="Tiny", owner="Tiny")
        self.add("attr", 1, name="maximum_bits", value=L("int", "1"), scope="enum", owner="Tiny", tiny=True)
        self.add("enum_value", 1, name="TA", value=L("int", "0"), owner="Tiny")
        self.add("enum_value", 1, name="TB", value=L("int", "1"), owner="Tiny", tiny_hi=True)
        # a fixed-size struct, a bits type, a parameterised dynamic struct --------
        self.add("head", 0, what="struct", name="Fixed", owner="Fixed")
        self.struct_default("Fixed")
        self.add("field", 1, start=L("int", "0"), size=L("int", "2"), tname="UInt", name="fa", owner="Fixed", scalar=("UInt", 16))
        self.add("field", 1, start=L("int", "2"), size=L("int", "2"), tname="Int", name="fb", owner="Fixed", scalar=("Int", 16))
        self.add("head", 0, what="bits", name="Flags", owner="Flags")
        w = r.choice([1, 3, 7])
        self.add("field", 1, start=L("int", "0"), size=L("int", "1"), tname="Flag", name="g0", owner="Flags", inbits=True, scalar=("Flag", 1))
        self.add("field", 1, start=L("int", "1"), size=L("int", str(w)), tname="UInt", name="g1", owner="Flags", inbits=True, scalar=("UInt", w))
        self.add("field", 1, start=L("int", "8"), size=L("int", "4"), tname="Aa", name="g2", owner="Flags", inbits=True, enumfield="Aa")
        self.add("field", 1, start=L("int", "12"), size=L("int", "4"), tname="Bcd", name="g3", owner="Flags", inbits=True, scalar=("Bcd", 4))
        self.add("head", 0, what="bits", name="Wide", owner="Wide")
        self.add("field", 1, start=L("int", "0"), size=L("int", "32"), tname="Float", name="wf", owner="Wide", inbits=True, scalar=("Float", 32), spare=True)
        self.add("field", 1, start=L("int", "32"), size=L("int", "31"), tname="UInt", name="wu", owner="Wide", inbits=True, scalar=("UInt", 31), spare=True)
        self.add("field", 1, start=L("int", "63"), size=L("int", "1"), tname="Flag", name="wl", owner="Wide", inbits=True, scalar=("Flag", 1), spare=True, last_bit=True)
        # overlays: a longer field declared AFTER a shorter one that starts at the same / an inner offset
        # a fixed-size parameterised struct (usable as an array element), a one-byte struct, and bits types
        # whose members are ARRAYS of bit-oriented elements
        self.add("head", 0, what="struct", name="PFix", params=[("k", "Aa"), ("n", "UInt:8")], owner="PFix")
        self.struct_default("PFix")
        self.add("field", 1, start=L("int", "0"), size=L("int", "1"), tname="UInt", name="pq", owner="PFix")
        self.add("head", 0, what="struct", name="One", owner="One")
        self.struct_default("One")
        self.add("field", 1, start=L("int", "0"), size=L("int", "1"), tname="UInt", name="oo", owner="One")
        self.add("head", 0, what="bits", name="Nib", owner="Nib")
        self.add("field", 1, start=L("int", "0"), size=L("int", "4"), tname="UInt", name="nv", owner="Nib", inbits=True)
        self.add("head", 0, what="bits", name="Arrb", owner="Arrb")
        self.add("field", 1, start=L("int", "0"), size=L("int", "8"), tname="UInt", tbits=4, dims=[L("int", "2")], name="ba", owner="Arrb", inbits=True, bitarray=True)
        self.add("field", 1, start=L("int", "8"), size=L("int", "4"), tname="Flag", dims=[L("int", "4")], name="bf", owner="Arrb", inbits=True, bitarray=True)
        self.add("field", 1, start=L("int", "12"), size=L("int", "8"), tname="Nib", dims=[L("int", "2")], name="bo", owner="Arrb", inbits=True, bitarray=True)
        self.add("field", 1, start=L("int", "20"), size=L("int", "8"), tname="UInt", tbits=2, dims=[L("int", "2"), L("int", "2")], name="bn", owner="Arrb", inbits=True, bitarray=True)
        self.add("field", 1, start=L("int", "28"), size=L("int", "4"), tname="UInt", name="bpad", owner="Arrb", inbits=True)
        self.add("head", 0, what="struct", name="Over", owner="Over")
        self.struct_default("Over")
        self.add("field", 1, start=L("int", "0"), size=L("int", "1"), tname="UInt", name="tag", owner="Over")
        self.add("field", 1, start=L("int", "0"), size=L("int", "8"), tname="UInt", tbits=8, dims=[L("int", "8")], name="raw", owner="Over")
        self.add("field", 1, start=L("int", "2"), size=L("int", "4"), tname="UInt", name="mid", owner="Over")
        self.add("head", 0, what="struct", name="Part", owner="Part")
        self.struct_default("Part")
        self.add("field", 1, start=L("int", "0"), size=L("int", "4"), tname="UInt", name="pa", owner="Part")
        self.add("field", 1, start=L("int", "2"), size=L("int", "4"), tname="UInt", name="pb", owner="Part")
        self.add("head", 0, what="bits", name="Ob", owner="Ob")
        self.add("field", 1, start=L("int", "0"), size=L("int", "4"), tname="UInt", name="lo", owner="Ob", inbits=True)
        self.add("field", 1, start=L("int", "0"), size=L("int", "16"), tname="UInt", name="all", owner="Ob", inbits=True)
        self.add("head", 0, what="struct", name="Unused", owner="Unused", spare=True)
        self.struct_default("Unused")
        self.add("field", 1, start=L("int", "0"), size=L("int", "1"), tname="UInt", name="uu", owner="Unused", scalar=("UInt", 8), spare=True)
        self.add("field", 1, start=L("int", "1"), size=L("int", "2"), tname="Int", name="ui", owner="Unused", scalar=("Int", 16), spare=True)
        self.add("field", 1, start=L("int", "3"), size=L("int", "1"), tname="Bcd", name="ub", owner="Unused", scalar=("Bcd", 8), spare=True)
        self.add("field", 1, start=L("int", "4"), size=L("int", "4"), tname="Float", name="uf", owner="Unused", scalar=("Float", 32), spare=True)
        self.add("field", 1, start=L("int", "8"), size=L("int", "1"), tname="Bb", name="ue", owner="Unused", enumfield="Bb", spare=True)
        self.add("field", 1, start=L("int", "9"), size=L("int", "4"), tname="Fixed", name="us", owner="Unused", spare=True, structfield=True)
        self.add("field", 1, start=L("int", "13"), size=L("int", "8"), tname="UInt", tbits=16, dims=[L("int", "2"), L("int", "2")], name="ua", owner="Unused", spare=True, array=True)
        self.add("field", 1, start=L("int", "21"), size=L("int", "8"), tname="Wide", name="uw", owner="Unused", spare=True)
        self.add("anon_bits", 1, start=L("int", "29"), size=L("int", "2"), owner="Unused", spare=True)
        self.add("field", 2, start=L("int", "0"), size=L("int", "1"), tname="Flag", name="ab0", owner="Unused", inbits=True, scalar=("Flag", 1), spare=True)
        self.add("field", 2, start=L("int", "1"), size=L("int", "14"), tname="UInt", name="ab1", owner="Unused", inbits=True, scalar=("UInt", 14), spare=True)
        self.add("field", 2, start=L("int", "15"), size=L("int", "1"), tname="Tiny", name="abt", owner="Unused", inbits=True, enumfield="Tiny", spare=True)
        self.add("field", 1, start=L("int", "31"), size=L("int", "8"), tname="Over", name="uo", owner="Unused", spare=True)
        self.add("field", 1, start=L("int", "39"), size=L("int", "6"), tname="Part", name="up", owner="Unused", spare=True)
        self.add("field", 1, start=L("int", "45"), size=L("int", "2"), tname="Ob", name="uob", owner="Unused", spare=True)
        self.add("field", 1, start=L("int", "47"), size=L("int", "4"), tname="Arrb", name="uab", owner="Unused", spare=True)
        self.add("anon_bits", 1, start=L("int", "51"), size=L("int", "2"), owner="Unused", spare=True)
        self.add("field", 2, start=L("int", "0"), size=L("int", "8"), tname="UInt", tbits=4, dims=[L("int", "2")], name="aa", owner="Unused", inbits=True, bitarray=True)
        self.add("field", 2, start=L("int", "8"), size=L("int", "4"), tname="Flag", dims=[L("int", "4")], name="af", owner="Unused", inbits=True, bitarray=True)
        self.add("field", 2, start=L("int", "12"), size=L("int", "4"), tname="UInt", tbits=1, dims=[L("int", "2"), L("int", "2")], name="an", owner="Unused", inbits=True, bitarray=True)
        self.add("head", 0, what="struct", name="Inner", params=[("k", "Aa"), ("n", "UInt:8")], owner="Inner")
        self.struct_default("Inner")
        ienv = Env()
        ienv.params = [("k", "enum:Aa"), ("n", "int")]
        ienv.add("int", "n")
        ienv.add("enum:Aa", "k")
        self.cur_env = copy.deepcopy(ienv)
        self.add("field", 1, start=L("int", "0"), size=L("int", "1"), tname="UInt", name="q", owner="Inner", scalar=("UInt", 8))
        ienv.add("int", "q")
        ienv.present.append("q")
        ig = ExprGen(r, ienv, self.enums)
        self.add("if", 1, cond=X("bool", "==", [L("enum:Aa", "k"), L("enum:Aa", "Aa.AX")]), owner="Inner")
        self.add("field", 2, start=L("int", "1"), size=L("int", "n"), tname="UInt", tbits=8, dims=[None], name="data", owner="Inner")
        self.envs["Inner"] = ienv
        self.cur_env = None
        # user types named like prelude types, at nested and inline positions -------
        self.build_collisions()
        # main struct --------------------------------------------------------------
        self.add("head", 0, what="struct", name="Main", params=[("p", "UInt:8"), ("pe", "Bb")], owner="Main")
        self.struct_default("Main")
        main_head = len(self.lines)
        env = Env()
        env.params = [("p", "int"), ("pe", "enum:Bb")]
        env.add("int", "p")
        env.add("enum:Bb", "pe")
        self.cur_env = copy.deepcopy(env)      # early fields: parameters only
        g = ExprGen(r, env, self.enums)
        self.g = g
        off = 0

        def phys(tname, nbytes, name, kind, **kw):
            nonlocal off
            l = self.add("field", 1, start=L("int", str(off)), size=L("int", str(nbytes)), tname=tname, name=name, owner="Main", **kw)
            off += nbytes
            if kind:
                env.add(kind, name)
            env.present.append(name)
            return l
        phys("UInt", 1, "x", "int", scalar=("UInt", 8))
        phys("Int", r.choice([1, 2]), "y", "int", scalar=("Int", None))
        phys("Bcd", 1, "z", "int", scalar=("Bcd", 8))
        phys("Aa", 1, "en", "enum:Aa", enumfield="Aa")
        phys("Bb", 1, "eb", "enum:Bb", enumfield="Bb")
        # anonymous bits
        self.add("anon_bits", 1, start=L("int", str(off)), size=L("int", "1"), owner="Main")
        self.add("field", 2, start=L("int", "0"), size=L("int", "1"), tname="Flag", name="fl", owner="Main", inbits=True, scalar=("Flag", 1))
        bw = r.randint(1, 7)
        self.add("field", 2, start=L("int", "1"), size=L("int", str(bw)), tname="UInt", name="bu", owner="Main", inbits=True, scalar=("UInt", bw))
        env.add("bool", "fl")
        env.add("int", "bu")
        off += 1
        safe = copy.deepcopy(env)              # unconditional fields at constant offsets
        self.cur_env = safe
        fsz = r.choice([4, 8])
        l = phys("Float", fsz, "flt", None, scalar=("Float", fsz * 8))
        phys("Flags", 2, "flags", "opaque")
        phys("Fixed", 4, "fx", "opaque")
        w16 = phys("UInt", 2, "w", "int", scalar=("UInt", 16))
        if r.random() < 0.5:
            self.add("attr", 2, name="byte_order", value='"%s"' % r.choice(["LittleEndian", "BigEndian"]), scope="field", owner="Main")
        n1 = r.choice([2, 4])
        phys("UInt", n1, "arr", "opaque", tbits=8, dims=[L("int", str(n1))], array=True)
        phys("UInt", 8, "arr2", "opaque", tbits=16, dims=[L("int", "2"), L("int", "2")], array=True)
        phys("Fixed", 8, "arr3", "opaque", dims=[L("int", "2")], array=True)
        one = phys("UInt", 1, "one", "int", scalar=("UInt", 8))
        if r.random() < 0.5:
            self.add("attr", 2, name="byte_order", value='"Null"', scope="field", owner="Main")
        # requires on a field (uses `this`)
        rq = phys("UInt", 1, "rq", "int", scalar=("UInt", 8))
        self.add("attr", 2, name="requires", value=X("bool", r.choice(["<", "<=", "!="]), [L("int", "this"), self.g.const()]), scope="field", owner="Main", this="int", env=_only_this("int"))
        if r.random() < 0.6:
            self.add("attr", 2, name="text_output", value='"%s"' % r.choice(["Emit", "Skip"]), scope="field", owner="Main")
        # parameterised dynamic struct
        self.add("field", 1, start=L("int", str(off)), size=L("int", "3"), tname="Inner", targs=[L("enum:Aa", "en"), L("int", "fwarg")], name="inner", owner="Main", passing=True)
        env.add("opaque", "inner")
        env.present.append("inner")
        off += 3
        # uses of virtual fields that are declared only LATER (fw*): from another let, a condition, a size,
        # a start, an argument (above) and the struct-level [requires]; directly and through chains of lets
        gs = ExprGen(r, safe, self.enums)
        self.add("let", 1, name="ea0", value=X("int", "+", [L("int", "fwi"), g.const()]), owner="Main", env=copy.deepcopy(safe))
        self.add("let", 1, name="ea1", value=X("bool", "&&", [L("bool", "fwb2"), L("bool", "fl")]), owner="Main", env=copy.deepcopy(safe))
        self.add("let", 1, name="ea2", value=X("int", "*", [L("int", "fwc2"), L("int", "2")]), owner="Main", env=copy.deepcopy(safe))
        self.add("if", 1, cond=X("bool", "||", [L("bool", "fwb"), gs.bool_expr(1)]), owner="Main")
        self.add("field", 2, start=L("int", str(off)), size=L("int", "1"), tname="UInt", name="cfw", owner="Main", scalar=("UInt", 8))
        off += 1
        self.add("field", 1, start=L("int", str(off)), size=L("int", "fwsz"), tname="UInt", tbits=8, dims=[None], name="fdyn", owner="Main", array=True)
        self.add("field", 1, start=X("int", "+", [L("int", str(off)), L("int", "fwst")]), size=L("int", "1"), tname="UInt", name="fst", owner="Main", scalar=("UInt", 8))
        off += 2
        # expressions at every nesting depth of a type: arguments inside array element types, three dimensions
        self.add("field", 1, start=L("int", str(off)), size=L("int", "2"), tname="PFix", targs=[gs.enum_expr(1, "Aa"), gs.int_expr(1)],
                 dims=[L("int", "2")], name="pa", owner="Main", passing=True, array=True)
        off += 2
        self.add("field", 1, start=L("int", str(off)), size=L("int", "8"), tname="PFix", targs=[L("enum:Aa", "en"), X("int", "$max", [L("int", "x"), gs.int_expr(1)])],
                 dims=[L("int", "2"), X("int", "+", [L("int", "2"), L("int", "2")])], name="pb", owner="Main", passing=True, array=True)
        off += 8
        self.add("field", 1, start=L("int", str(off)), size=L("int", "24"), tname="UInt", tbits=8,
                 dims=[L("int", "2"), X("int", "$max", [L("int", "3"), L("int", "1")]), L("int", "4")], name="cube", owner="Main", array=True)
        off += 24
        # virtual fields
        nlet = r.randint(3, 6)
        for i in range(nlet):
            kind = r.choice(["int", "int", "bool", "bool", "enum:Aa", "enum:Bb"])
            e = g.of_kind(kind, self.depth)
            self.add("let", 1, name="v%d" % i, value=e, owner="Main", env=copy.deepcopy(env))
            env.add(kind, "v%d" % i)
        self.cur_env = safe
        # conditional fields
        self.add("if", 1, cond=g.bool_expr(self.depth), owner="Main")
        self.add("field", 2, start=L("int", str(off)), size=L("int", "1"), tname="UInt", name="c0", owner="Main", scalar=("UInt", 8))
        off += 1
        self.add("if", 1, cond=X("bool", "==", [L("enum:Aa", "en"), L("enum:Aa", "Aa.AY")]), owner="Main")
        self.add("field", 2, start=L("int", str(off)), size=L("int", "2"), tname="Int", name="c1", owner="Main", scalar=("Int", 16))
        off += 2
        # a conditional block of virtual fields only, and a mixed one (conditions are checked per field)
        self.add("if", 1, cond=g.bool_expr(self.depth), owner="Main", virtual_only=True)
        self.add("let", 2, name="cv0", value=g.int_expr(1), owner="Main", env=copy.deepcopy(env))
        if r.random() < 0.5:
            self.add("let", 2, name="cv1", value=g.bool_expr(1), owner="Main", env=copy.deepcopy(env))
        self.add("if", 1, cond=X("bool", r.choice(["<", ">", "!="]), [L("int", "x"), g.const()]), owner="Main", mixed=True)
        self.add("let", 2, name="cv2", value=g.int_expr(1), owner="Main", env=copy.deepcopy(env))
        self.add("field", 2, start=L("int", str(off)), size=L("int", "1"), tname="UInt", name="c2", owner="Main", scalar=("UInt", 8))
        off += 1
        # the forward-referenced virtual fields themselves (expressions over early fields only: no cycles)
        fenv = copy.deepcopy(safe)
        self.add("let", 1, name="fwi", value=gs.int_expr(self.depth), owner="Main", env=copy.deepcopy(fenv), fwd="int")
        self.add("let", 1, name="fwb", value=gs.bool_expr(self.depth), owner="Main", env=copy.deepcopy(fenv), fwd="bool")
        self.add("let", 1, name="fwc", value=gs.int_expr(self.depth), owner="Main", env=copy.deepcopy(fenv), fwd="int")   # reached only through fwc2
        fenv.add("int", "fwi")
        fenv.add("bool", "fwb")
        fenv.add("int", "fwc")
        self.add("let", 1, name="fwb2", value=L("bool", "fwb"), owner="Main", env=copy.deepcopy(fenv), fwd="bool")
        self.add("let", 1, name="fwi2", value=X("int", "+", [L("int", "fwi"), gs.const()]), owner="Main", env=copy.deepcopy(fenv), fwd="int")
        self.add("let", 1, name="fwc2", value=X("int", "+", [L("int", "fwc"), L("int", "1")]), owner="Main", env=copy.deepcopy(fenv), fwd="int")
        self.add("let", 1, name="fwarg", value=L("int", "fwi2"), owner="Main", env=copy.deepcopy(fenv), fwd="int")
        self.add("let", 1, name="fwsz", value=X("int", "$max", [L("int", "1"), L("int", "fwi2")]), owner="Main", env=copy.deepcopy(fenv), fwd="int")
        self.add("let", 1, name="fwst", value=X("int", "?:", [L("bool", "fwb2"), L("int", "0"), L("int", "1")]), owner="Main", env=copy.deepcopy(fenv), fwd="int")
        # ... and uses AFTER their declaration
        self.add("let", 1, name="la0", value=X("int", "+", [L("int", "fwi"), L("int", "fwc2")]), owner="Main", env=copy.deepcopy(fenv))
        self.add("let", 1, name="la1", value=X("bool", "||", [L("bool", "fwb2"), L("bool", "fwb")]), owner="Main", env=copy.deepcopy(fenv))
        # struct-level requires (declared first, refers to a later let)
        self.lines.insert(main_head, Line("attr", 1, name="requires", value=X("bool", "&&", [L("bool", "fwb"), g.bool_expr(1)]),
                                          scope="struct", owner="Main", env=copy.deepcopy(env)))
        # dynamic tail
        self.add("field", 1, start=X("int", "+", [L("int", str(off)), L("int", "x")]), size=L("int", "w"), tname="UInt", tbits=8, dims=[None], name="tail", owner="Main", array=True)
        self.envs["Main"] = env
        self.cur_env = None

    def build_collisions(self):
        """struct Coll: inline `enum flag:` (type Coll.Flag), nested `struct Float`, inline `bits u_int:` (type
        Coll.UInt).  None of them is the prelude type of that name: Coll.Flag is an enum, the others have no value."""
        r = self.r
        self.add("head", 0, what="struct", name="Coll", owner="Coll")
        self.struct_default("Coll")
        self.add("raw", 1, text="struct Float:", owner="Coll")
        self.add("raw", 2, text="0 [+1]  Bcd  q", owner="Coll")
        self.enums["Coll.Flag"] = ["ON", "OFF"]
        cenv = Env()
        self.cur_env = copy.deepcopy(cenv)
        self.add("raw", 1, text="0 [+1]  enum  flag:", owner="Coll")
        self.add("raw", 2, text="ON = 1", owner="Coll")
        self.add("raw", 2, text="OFF = 0", owner="Coll")
        self.add("raw", 1, text="1 [+1]  Coll.Float  cs", owner="Coll")
        self.add("raw", 1, text="2 [+1]  bits  u_int:", owner="Coll")
        self.add("raw", 2, text="0 [+8]  Bcd  w", owner="Coll")
        self.add("field", 1, start=L("int", "3"), size=L("int", "1"), tname="Bcd", name="n", owner="Coll", scalar=("Bcd", 8))
        cenv.add("enum:Coll.Flag", "flag")
        cenv.add("opaque", "cs")
        cenv.add("opaque", "u_int")
        cenv.add("int", "n")
        cenv.present += ["flag", "cs", "u_int", "n"]
        self.cur_env = copy.deepcopy(cenv)
        g = ExprGen(r, cenv, {"Coll.Flag": ["ON", "OFF"], "Aa": self.enums["Aa"]})
        F = lambda v: L("enum:Coll.Flag", "Coll.Flag." + v)
        fl = L("enum:Coll.Flag", "flag")
        self.add("let", 1, name="e1", value=X("bool", r.choice(["==", "!="]), [fl, F("ON")]), owner="Coll")
        self.add("let", 1, name="e2", value=X("bool", r.choice(["&&", "||"]),
                 [X("bool", "!=", [fl, F("OFF")]), X("bool", r.choice(["<", ">="]), [L("int", "u_int.w"), g.int_expr(1)])]), owner="Coll")
        self.add("let", 1, name="e3", value=X("int", "?:", [X("bool", "==", [fl, F("ON")]), L("int", "cs.q"), g.int_expr(1)]), owner="Coll")
        self.add("let", 1, name="e4", value=X("enum:Coll.Flag", "?:", [g.bool_expr(1), fl, F("OFF")]), owner="Coll")
        self.add("if", 1, cond=X("bool", "==", [fl, F("ON")]), owner="Coll")
        self.add("field", 2, start=L("int", "4"), size=L("int", "1"), tname="Bcd", name="m", owner="Coll", scalar=("Bcd", 8))
        self.add("if", 1, cond=X("bool", "&&", [X("bool", "$present", [L("any", r.choice(["cs", "u_int", "flag"]))]), g.bool_expr(1)]), owner="Coll", virtual_only=True)
        self.add("let", 2, name="e5", value=g.int_expr(1), owner="Coll")
        self.envs["Coll"] = cenv
        self.cur_env = None

    def struct_default(self, owner):
        if not self.module_default:
            self.add("attr", 1, name="byte_order", value='"%s"' % self.order, default=True, scope="struct", owner=owner, env=None)

    def case(self):
        return Case(copy.deepcopy(self.lines))


# ----------------------------------------------------------------------------
# C13 catalogue: one entry per documented typing rule
# ----------------------------------------------------------------------------
def _env_of(base, line):
    return line.env


def _other_enum(en):
    return "Bb" if en == "Aa" else "Aa"


def bad_expressions(rng, g, kind, env):
    """[(rule key, ill-typed expression of apparent kind `kind`)] available in this environment."""
    I = lambda: g.int_expr(1)
    B = lambda: g.bool_expr(1)
    E = lambda en="Aa": g.enum_expr(0, en)
    out = []
    if kind == "int":
        op = rng.choice(["+", "-", "*"])
        out += [("arith-boolean-operand", X("int", op, rng.sample([I(), B()], 2))),
                ("arith-enum-operand", X("int", op, rng.sample([I(), E()], 2))),
                ("max-boolean-argument", X("int", "$max", [I(), B()])),
                ("max-no-argument", X("int", "$max", [])),
                ("bound-boolean-argument", X("int", rng.choice(["$upper_bound", "$lower_bound"]), [B()])),
                ("bound-two-arguments", X("int", rng.choice(["$upper_bound", "$lower_bound"]), [g.int_leaf(True), I()])),
                ("choice-condition-not-boolean", X("int", "?:", [I(), I(), I()])),
                ("choice-branches-differ", X("int", "?:", [B(), I(), B()])),
                ("choice-branches-differ", X("int", "?:", [B(), I(), E()]))]
    elif kind == "bool":
        cmpo = rng.choice(["<", "<=", ">", ">="])
        eqo = rng.choice(["==", "!="])
        ao = rng.choice(["&&", "||"])
        out += [("ordering-boolean-operand", X("bool", cmpo, rng.sample([I(), B()], 2))),
                ("ordering-enum-operands", X("bool", cmpo, [E(), E()])),
                ("ordering-mixed-enum-integer", X("bool", cmpo, rng.sample([I(), E()], 2))),
                ("equality-integer-boolean", X("bool", eqo, rng.sample([I(), B()], 2))),
                ("equality-integer-enum", X("bool", eqo, rng.sample([I(), E()], 2))),
                ("equality-two-enums", X("bool", eqo, [E("Aa"), E("Bb")])),
                ("logical-integer-operand", X("bool", ao, rng.sample([I(), B()], 2))),
                ("logical-enum-operand", X("bool", ao, rng.sample([E(), B()], 2))),
                ("present-of-non-field", X("bool", "$present", [rng.choice([g.const(), X("int", "+", [g.int_leaf(True), g.const()]), L("enum:Aa", "Aa.AX")])])),
                ("choice-condition-not-boolean", X("bool", "?:", [E(), B(), B()])),
                ("choice-branches-differ", X("bool", "?:", [B(), B(), I()]))]
        if env.present:
            out.append(("present-two-arguments", X("bool", "$present", [L("any", env.present[0]), L("any", env.present[-1])])))
        if env.of("opaque"):
            o = rng.choice(env.of("opaque"))
            out.append(("equality-opaque-operand", X("bool", eqo, [L("opaque", o), L("opaque", o)])))
    elif kind.startswith("enum:"):
        en = kind[5:]
        out += [("choice-branches-differ", X(kind, "?:", [B(), E(en), E(_other_enum(en))])),
                ("choice-condition-not-boolean", X(kind, "?:", [I(), E(en), E(en)]))]
    return out


# rules the generator deliberately plants although the reference forbids them and the
# current compiler accepts / crashes (known findings): the case is still "not doc_typed"
def c13_violations(base, rng, per_rule=1):
    """Yield Cases: every rule of the catalogue applied at a random site."""
    cases = []
    lines = base.lines
    # expression rules: collect sites by kind
    sites = []
    for li, l in enumerate(lines):
        env = _env_of(base, l)
        if env is None:
            continue
        for slot, e, want in l.slots():
            for path, node in e.nodes():
                if node.k in ("int", "bool") or node.k.startswith("enum:"):
                    sites.append((li, slot, path, node.k, l))
    by_rule = {}
    rng.shuffle(sites)
    for li, slot, path, k, l in sites:
        env = _env_of(base, l)
        g = ExprGen(rng, _this_env(env, l), base.enums)
        for rule, bad in bad_expressions(rng, g, k, env):
            by_rule.setdefault(rule, [])
            if len(by_rule[rule]) < per_rule:
                by_rule[rule].append((li, slot, path, bad))
    for rule, lst in sorted(by_rule.items()):
        for li, slot, path, bad in lst:
            c = base.case()
            tgt = c.lines[li]
            old = dict(tgt.slots_map())[slot]
            tgt.set_slot(slot, old.replace(path, bad))
            cases.append(Case(c.lines, rule, li + 1, doc_typed=False, cls="C13"))
    # every expression rule once more, in a virtual field that is first reached through a reference from an
    # EARLIER field (directly or through a chain of lets): the verdict must not depend on the visiting order
    fwd = [(li, l) for li, l in enumerate(lines) if l.kind == "let" and l.f.get("fwd")]
    for kind in ("int", "bool"):
        cand = [(li, l) for li, l in fwd if l.f["fwd"] == kind]
        if not cand:
            continue
        li0, l0 = cand[0]
        g0 = ExprGen(rng, l0.env, base.enums)
        for rule, bad in bad_expressions(rng, g0, kind, l0.env):
            li, l = rng.choice(cand)
            g = ExprGen(rng, l.env, base.enums)
            same = [b for r2, b in bad_expressions(rng, g, kind, l.env) if r2 == rule]
            if not same:
                continue
            c = base.case()
            c.lines[li].f["value"] = rng.choice(same)
            cases.append(Case(c.lines, rule, li + 1, doc_typed=False, cls="C13", note="forward-referenced:" + l.f["name"]))
    # positional rules
    def pos_sites(pred):
        return [(li, l) for li, l in enumerate(lines) if pred(l)]

    def wrong(kind_wanted, env, l):
        g = ExprGen(rng, _this_env(env, l), base.enums)
        ks = [k for k in ("int", "bool", "enum:Aa") if k != kind_wanted]
        k = rng.choice(ks)
        return g.of_kind(k, 1)

    def plant(rule, pred, slot_of, want):
        ss = pos_sites(pred)
        rng.shuffle(ss)
        for li, l in ss[:per_rule]:
            env = _env_of(base, l) or Env()
            c = base.case()
            tgt = c.lines[li]
            slot = slot_of(tgt)
            if slot is None:
                continue
            tgt.set_slot(slot, wrong(want, env, l))
            cases.append(Case(c.lines, rule, li + 1, doc_typed=False, cls="C13"))
    plant("field-start-not-integer", lambda l: l.kind in ("field", "anon_bits") and l.owner in base.envs, lambda t: "start", "int")
    plant("field-size-not-integer", lambda l: l.kind == "field" and l.owner in base.envs and not l.f.get("inbits"), lambda t: "size", "int")
    # every dimension of every array, at every depth (inner, middle, outer): wrong kind, and an ill-typed length
    for li, l in pos_sites(lambda l: l.kind == "field" and l.env is not None and l.f.get("dims")):
        for di, d in enumerate(l.f["dims"]):
            if d is None:
                continue
            depth = "%d-of-%d" % (di + 1, len(l.f["dims"]))
            c = base.case()
            c.lines[li].set_slot("dims:%d" % di, wrong("int", l.env, l))
            cases.append(Case(c.lines, "array-length-not-integer", li + 1, doc_typed=False, cls="C13", note="dimension " + depth))
            if len(l.f["dims"]) > 1:
                g2 = ExprGen(rng, l.env, base.enums)
                rule, bad = rng.choice(bad_expressions(rng, g2, "int", l.env))
                c = base.case()
                c.lines[li].set_slot("dims:%d" % di, bad)
                cases.append(Case(c.lines, rule, li + 1, doc_typed=False, cls="C13", note="dimension " + depth))
    for li, l in pos_sites(lambda l: l.kind == "if"):
        env = _env_of(base, l) or Env()
        c = base.case()
        c.lines[li].set_slot("cond", wrong("bool", env, l))
        cases.append(Case(c.lines, "condition-not-boolean", li + 1, doc_typed=False, cls="C13"))
        # a bare field as the condition: integer, enum, or a struct/bits-typed (valueless) one
        bare = [(k, n) for k in ("int", "opaque") for n in env.of(k)] + \
               [(k, n) for k in env.names if k.startswith("enum:") for n in env.of(k)]
        if bare:
            k, n = rng.choice(bare)
            c = base.case()
            c.lines[li].set_slot("cond", L(k, n))
            cases.append(Case(c.lines, "condition-not-boolean", li + 1, doc_typed=False, cls="C13"))
    # valueless / enum-typed fields whose type is NAMED like a prelude type, as boolean operands
    for li, l in pos_sites(lambda l: l.kind == "let" and l.owner == "Coll" and l.f["value"].k == "bool"):
        for rule, nm, k in (("logical-enum-operand", "flag", "enum:Coll.Flag"), ("logical-opaque-operand", "cs", "opaque"),
                            ("logical-opaque-operand", "u_int", "opaque")):
            c = base.case()
            c.lines[li].f["value"] = X("bool", rng.choice(["&&", "||"]), rng.sample([L(k, nm), c.lines[li].f["value"]], 2))
            cases.append(Case(c.lines, rule, li + 1, doc_typed=False, cls="C13"))
        c = base.case()
        c.lines[li].f["value"] = X("bool", "==", [L("enum:Coll.Flag", "flag"), L("bool", "true")])
        cases.append(Case(c.lines, "equality-enum-boolean", li + 1, doc_typed=False, cls="C13"))
        c = base.case()
        c.lines[li].f["value"] = X("bool", "==", [L("opaque", "u_int"), L("int", "1")])
        cases.append(Case(c.lines, "equality-opaque-operand", li + 1, doc_typed=False, cls="C13"))
        break
    plant("requires-not-boolean", lambda l: l.kind == "attr" and l.f["name"] == "requires", lambda t: "value", "bool")
    # enum value (no environment: constants only)
    ev = pos_sites(lambda l: l.kind == "enum_value")
    rng.shuffle(ev)
    for li, l in ev[:per_rule]:
        c = base.case()
        c.lines[li].f["value"] = rng.choice([L("bool", "true"), X("bool", "==", [L("int", "1"), L("int", "1")])])
        cases.append(Case(c.lines, "enum-value-not-integer", li + 1, doc_typed=False, cls="C13"))
    # passed parameters
    ps = pos_sites(lambda l: l.kind == "field" and l.f.get("passing"))
    for li, l in ps:     # also the arguments inside array element types (pa, pb)
        env = _env_of(base, l)
        g = ExprGen(rng, env, base.enums)
        variants = [("parameter-too-few", [l.f["targs"][0]]),
                    ("parameter-too-many", l.f["targs"] + [g.int_leaf()]),
                    ("parameter-integer-for-enum", [g.int_leaf(), l.f["targs"][1]]),
                    ("parameter-enum-for-integer", [l.f["targs"][0], g.enum_expr(0, "Aa")]),
                    ("parameter-boolean-for-integer", [l.f["targs"][0], g.bool_expr(0)]),
                    ("parameter-other-enum", [g.enum_expr(0, "Bb"), l.f["targs"][1]])]
        for rule, targs in variants:
            c = base.case()
            c.lines[li].f["targs"] = targs
            cases.append(Case(c.lines, rule, li + 1, doc_typed=False, cls="C13"))
    # parameter on a type without parameters
    fx = pos_sites(lambda l: l.kind == "field" and l.f["tname"] == "Fixed" and not l.f.get("dims"))
    for li, l in fx[:1]:
        c = base.case()
        c.lines[li].f["targs"] = [L("int", "1")]
        cases.append(Case(c.lines, "parameter-too-many", li + 1, doc_typed=False, cls="C13"))
    # declared parameter types
    hs = pos_sites(lambda l: l.kind == "head" and l.f.get("params"))
    rng.shuffle(hs)
    for li, l in hs[:1]:
        for rule, ty in (("parameter-declared-boolean", "Flag"), ("parameter-declared-struct", "Fixed")):
            c = base.case()
            ps2 = list(c.lines[li].f["params"])
            ps2.append(("zz", ty))
            c.lines[li].f["params"] = ps2
            # keep uses consistent: the extra formal makes every use an arity error as well, so
            # only plant it on a struct nobody instantiates
            if l.f["name"] == "Main":
                cases.append(Case(c.lines, rule, li + 1, doc_typed=False, cls="C13"))
    # every violation planted in the LOCATION of a physical field once more with the next physical field of the same
    # block placed at `$next`: the desugaring of `$next` copies the previous field's start and size expressions,
    # the ill-typed one included, and the error must still be reported on the user's line
    import copy
    extra = []
    for c in cases:
        li = c.line - 1
        l, b = c.lines[li], lines[li]
        if l.kind not in ("field", "anon_bits") or b.kind != l.kind:
            continue
        if l.f["start"].render() == b.f["start"].render() and l.f["size"].render() == b.f["size"].render():
            continue
        nxt = None
        for j in range(li + 1, len(c.lines)):
            m = c.lines[j]
            if m.indent < l.indent or m.kind == "head" and m.indent <= l.indent:
                break
            if m.indent == l.indent and m.kind in ("field", "anon_bits") and m.owner == l.owner:
                nxt = j
                break
            if m.indent == l.indent and m.kind in ("if", "let"):
                continue
        if nxt is None:
            continue
        ls = copy.deepcopy(c.lines)
        ls[nxt].f["start"] = L("int", "$next")
        extra.append(Case(ls, c.rule, c.line, doc_typed=False, cls="C13", note=(c.note + " " if c.note else "") + "before-$next"))
    cases.extend(extra)
    return cases


def c13_welltyped_extras(base, rng):
    """Well-typed variants (doc_typed=True) that exercise typing at positions the base does not."""
    out = []
    lines = base.lines
    # an array length whose expression has a boolean SUB-expression
    for li, l in enumerate(lines):
        if l.kind == "field" and l.f.get("name") == "arr" and l.owner == "Main":
            c = base.case()
            n = c.lines[li].f["dims"][0]
            c.lines[li].f["dims"] = [X("int", "?:", [X("bool", "==", [L("int", "x"), L("int", "1")]), n, n])]
            out.append(Case(c.lines, "ok:array-length-with-boolean-subexpression", li + 1, doc_typed=True, cls="C13"))
    # an enum value given as (an expression of) a value of another enum: valid
    for li, l in enumerate(lines):
        if l.kind == "enum_value" and l.owner == "Bb" and l.f.get("edge") == "lo":
            c = base.case()
            c.lines[li].f["value"] = L("enum:Aa", "Aa.AX")
            out.append(Case(c.lines, "ok:enum-value-from-other-enum", li + 1, doc_typed=True, cls="C13"))
    # $present of a parameter: always true
    for li, l in enumerate(lines):
        if l.kind == "if" and l.owner == "Main" and l.f.get("mixed"):
            c = base.case()
            c.lines[li].f["cond"] = X("bool", "&&", [X("bool", "$present", [L("any", "p")]), c.lines[li].f["cond"]])
            out.append(Case(c.lines, "ok:present-of-parameter", li + 1, doc_typed=True, cls="C13"))
    # a top-level type of another module that happens to be called Flag
    c = base.case()
    c.lines.insert(0, Line("raw", 0, text='import "other.emb" as oth'))
    c.lines += [Line("raw", 0, text="struct UsesImported:"),
                Line("raw", 1, text='[$default byte_order: "LittleEndian"]'),
                Line("raw", 1, text="0 [+1]  oth.Flag  oflag"),
                Line("raw", 1, text="let ob = oflag == oth.Flag.%s" % rng.choice(["ON", "OFF"]))]
    case = Case(c.lines, "ok:imported-type-named-flag", len(c.lines), doc_typed=True, cls="C13")
    case.extra = {"other.emb": "enum Flag:\n  ON = 1\n  OFF = 0\n"}
    out.append(case)
    return out


def _this_env(env, line):
    return env


def _slots_map(self):
    return [(n, e) for n, e, _ in self.slots()]


Line.slots_map = _slots_map

C13_KNOWN = {
    "ordering-enum-operands": "typecheck-enum-ordering-accepted",          # F13
}


# ----------------------------------------------------------------------------
# C14 catalogue: boundary values and single layout / attribute rule violations
# ----------------------------------------------------------------------------
RESERVED_FIELD = ["class", "int", "while", "goto", "switch", "return", "lambda", "yield", "register"]
RESERVED_ENUM_VALUE = ["NULL", "EOF", "INT_MAX", "NAN", "EDOM", "SIGINT"]
RESERVED_TYPE = ["None", "True", "False", "Self", "NSObject", "CGFloat"]


def c14_cases(base, rng):
    """Yield Cases (violations: doc_realisable False; boundary variants: doc_realisable True)."""
    lines = base.lines
    out = []

    def find(pred):
        return [i for i, l in enumerate(lines) if pred(l)]

    def named(n):
        r = find(lambda l: l.kind == "field" and l.f.get("name") == n)
        return r[0] if r else None

    def edit(rule, idx, fn, ok=False, line_off=0, head=False):
        if idx is None:
            return
        c = base.case()
        fn(c.lines[idx], c.lines)
        alt = []
        if head:   # the rule is about the enclosing type: its error sits on the type's first line
            alt = [max(i for i in range(idx + 1) if lines[i].kind == "head") + 1]
        out.append(Case(c.lines, rule, idx + 1 + line_off, doc_typed=True, doc_realisable=ok, cls="C14", alt_lines=alt))

    def insert_after(rule, idx, new_lines, ok=False, which=0):
        """insert lines after index idx; the mutated line is the which-th inserted one"""
        if idx is None:
            return
        c = base.case()
        for k, nl in enumerate(new_lines):
            c.lines.insert(idx + 1 + k, nl)
        out.append(Case(c.lines, rule, idx + 2 + which, doc_typed=True, doc_realisable=ok, cls="C14"))

    def setf(**kw):
        def fn(l, _):
            for k, v in kw.items():
                l.f[k] = v
        return fn

    I = lambda n: L("int", str(n))
    # ---- scalar widths in bits (unit 1) ----
    wu = named("wu")           # 31-bit UInt at bit 32 of Wide (64-bit bits)
    ab1 = named("ab1")         # 15-bit UInt in anonymous bits
    g1 = named("g1")
    for nm, idx in (("uint", ab1),):
        edit("width-0:%s-in-bits" % nm, idx, setf(size=I(0)))
    edit("boundary-ok:uint-1-bit", ab1, setf(size=I(1)), ok=True)
    # Wide: 0 [+32] Float, 32 [+31] UInt, 63 [+1] Flag  -> make one 64-bit UInt / Int / Bcd
    wf = named("wf")
    for t in ("UInt", "Int", "Bcd"):
        edit("boundary-ok:%s-64-bits" % t.lower(), wf, setf(tname=t, size=I(64)), ok=True)
    edit("boundary-ok:float-64-bits", wf, setf(size=I(64)), ok=True)
    edit("float-33-bits", wf, setf(size=I(33)))
    edit("float-16-bits", wf, setf(size=I(16)))
    edit("flag-2-bits", named("ab0"), setf(size=I(2)))
    edit("bits-65:uint-65", wf, setf(tname="UInt", size=I(65)), head=True)
    wl = named("wl")
    edit("bits-65:members-sum-to-65", wl, setf(start=I(64)), head=True)
    # ---- scalar widths in struct (unit 8) ----
    for nm, t in (("uu", "uint"), ("ui", "int"), ("ub", "bcd")):
        edit("width-72:%s-in-struct" % t, named(nm), setf(size=I(9)))
        edit("width-0:%s-in-struct" % t, named(nm), setf(size=I(0)))
        edit("boundary-ok:%s-64-in-struct" % t, named(nm), setf(size=I(8)), ok=True)
    edit("float-24-bits", named("uf"), setf(size=I(3)))
    edit("boundary-ok:float-64-in-struct", named("uf"), setf(size=I(8)), ok=True)
    # ---- enums ----
    hi = find(lambda l: l.kind == "enum_value" and l.f.get("edge") == "hi")[0]
    lo = find(lambda l: l.kind == "enum_value" and l.f.get("edge") == "lo")[0]
    mb = base.enum_bits["Bb"]
    sg = base.enum_signed["Bb"]
    top = (2 ** (mb - 1) - 1) if sg else (2 ** mb - 1)
    bot = -(2 ** (mb - 1)) if sg else 0
    edit("enum-value-above-range", hi, setf(value=I(top + 1)))
    edit("boundary-ok:enum-value-at-maximum", hi, setf(value=I(top)), ok=True)
    edit("enum-value-below-range", lo, setf(value=L("int", "-%d" % (-(bot - 1)))))
    edit("boundary-ok:enum-value-at-minimum", lo, setf(value=L("int", str(bot) if bot >= 0 else "-%d" % -bot)), ok=True)
    mbl = find(lambda l: l.kind == "attr" and l.f["name"] == "maximum_bits")[0]
    edit("enum-maximum-bits-0", mbl, setf(value=I(0)))
    edit("enum-maximum-bits-65", mbl, setf(value=I(65)))
    edit("boundary-ok:enum-maximum-bits-64", mbl, setf(value=I(64)), ok=True)
    edit("enum-field-wider-than-maximum-bits", named("ue"), setf(size=I(3)))
    edit("enum-field-width-0", named("g2"), setf(size=I(0)))
    edit("boundary-ok:enum-field-narrower", named("g2"), setf(size=I(2)), ok=True)
    tmb = find(lambda l: l.kind == "attr" and l.f.get("tiny"))[0]
    thi = find(lambda l: l.kind == "enum_value" and l.f.get("tiny_hi"))[0]
    edit("enum-value-above-range:1-bit", thi, setf(value=I(2)))
    edit("enum-maximum-bits-0:one-bit-enum", tmb, setf(value=I(0)))
    edit("boundary-ok:enum-maximum-bits-2", tmb, setf(value=I(2)), ok=True)
    edit("boundary-ok:enum-maximum-bits-63", mbl, setf(value=I(63)), ok=True)
    edit("enum-field-wider-than-maximum-bits:1-bit", named("abt"), setf(size=I(2), start=I(14)))
    # ---- overlays ----
    overh = find(lambda l: l.kind == "head" and l.f["name"] == "Over")[0]
    insert_after("boundary-ok:fixed-size-attribute-equal:overlay", overh + (0 if base.module_default else 1), [Line("attr", 1, name="fixed_size_in_bits", value="64")], ok=True)
    parth = find(lambda l: l.kind == "head" and l.f["name"] == "Part")[0]
    insert_after("fixed-size-attribute-mismatch:overlay", parth + (0 if base.module_default else 1), [Line("attr", 1, name="fixed_size_in_bits", value="32")])
    edit("overlay-struct-in-too-small-field", named("uo"), setf(size=I(1)))
    edit("overlay-struct-in-too-small-field", named("up"), setf(size=I(4)))
    edit("overlay-bits-in-too-small-field", named("uob"), setf(size=I(1)))
    # ---- bits ----
    edit("bits-byte-oriented-member", named("g3"), setf(tname="Fixed", size=I(32), start=I(16)))
    edit("bits-not-fixed-size", named("g3"), setf(tname="UInt", tbits=1, dims=[None], size=L("int", "g1")), head=True)
    # ---- arrays ----
    ua = named("ua")
    edit("array-inner-dimension-omitted", ua, setf(dims=[None, I(2)]))
    edit("boundary-ok:array-outermost-omitted", ua, setf(dims=[I(2), None]), ok=True)
    edit("array-element-not-whole-bytes", ua, setf(tbits=4))
    edit("array-element-no-size", ua, setf(tbits=None, dims=[I(4)]))
    arr2 = named("arr2")
    edit("array-inner-dimension-dynamic", arr2, setf(dims=[L("int", "x"), I(2)]))
    inner = named("inner")
    if inner is not None:
        tl = lines[inner]
        insert_after("array-element-dynamic-size", inner,
                     [Line("field", 1, start=I(200), size=I(6), tname="Inner", targs=tl.f["targs"], dims=[I(2)], name="dyn", owner="Main")])
    # ---- per-type rules inside array ELEMENT types: named bits, anonymous bits, struct; 1-D and nested ----
    for nm in ("ba", "bn", "aa", "an", "bo"):
        i0 = named(nm)
        if i0 is None:
            continue
        nd = len(lines[i0].f["dims"])
        bits_total = int(lines[i0].f["size"].t)
        if bits_total % 8 == 0:
            edit("bits-byte-oriented-member:array-element-%dd" % nd, i0,
                 setf(tname="One", tbits=None, dims=[I(1)] * (nd - 1) + [I(bits_total // 8)]))
        edit("width-65:uint-array-element-in-bits-%dd" % nd, i0, setf(tname="UInt", tbits=65))
        edit("width-0:uint-array-element-in-bits-%dd" % nd, i0, setf(tname="UInt", tbits=0))
    edit("explicit-size-mismatch:flag-array-element", named("bf"), setf(tbits=2))
    edit("explicit-size-mismatch:bits-array-element", named("bo"), setf(tbits=8))
    edit("float-24-bits:array-element", named("bn"), setf(tname="Float", tbits=24))
    edit("width-72:uint-array-element-in-struct", ua, setf(tbits=72))
    edit("width-0:uint-array-element-in-struct", ua, setf(tbits=0))
    edit("float-24-bits:array-element-in-struct", ua, setf(tname="Float", tbits=24))
    edit("enum-field-wider-than-maximum-bits:array-element", ua, setf(tname="Bb", tbits=24))
    edit("boundary-ok:enum-array-element", ua, setf(tname="Bb", tbits=8), ok=True)
    edit("boundary-ok:float-array-element", ua, setf(tname="Float", tbits=32, dims=[I(1), I(2)]), ok=True)
    edit("boundary-ok:flag-array-2d-in-bits", named("bn"), setf(tname="Flag", tbits=None, dims=[I(2), I(4)]), ok=True)
    edit("boundary-ok:bits-array-in-anonymous-bits", named("aa"), setf(tname="Nib", tbits=None), ok=True)
    # ---- explicit sizes ----
    edit("explicit-size-mismatch:struct", named("us"), setf(tbits=24))
    edit("boundary-ok:explicit-size-equal", named("us"), setf(tbits=32), ok=True)
    edit("explicit-size-mismatch:flag", named("ab0"), setf(tbits=2))
    edit("explicit-size-larger-than-field", named("uu"), setf(tbits=16))
    edit("explicit-size-smaller-than-field", named("ui"), setf(tbits=8))
    # ---- byte order ----
    def attr_line(indent, name, value, default=False, backend=None):
        return Line("attr", indent, name=name, value=value, default=default, backend=backend)
    if not base.module_default:
        # a struct without any $default: a 2-byte UInt needs an explicit byte order
        end = len(lines) - 1
        insert_after("byte-order-missing", end,
                     [Line("head", 0, what="struct", name="Zed"), Line("field", 1, start=I(0), size=I(2), tname="UInt", name="zz")], which=1)
        insert_after("boundary-ok:one-byte-needs-no-byte-order", end,
                     [Line("head", 0, what="struct", name="Zed"), Line("field", 1, start=I(0), size=I(1), tname="UInt", name="zz")], ok=True, which=1)
    insert_after("byte-order-on-bits-member", g1, [attr_line(2, "byte_order", '"LittleEndian"')])
    insert_after("byte-order-on-struct-typed-field", named("us"), [attr_line(2, "byte_order", '"BigEndian"')])
    insert_after("byte-order-null-on-multibyte", named("ui"), [attr_line(2, "byte_order", '"Null"')])
    insert_after("boundary-ok:byte-order-null-on-one-byte", named("uu"), [attr_line(2, "byte_order", '"Null"')], ok=True)
    insert_after("byte-order-invalid-value", named("ui"), [attr_line(2, "byte_order", '"MiddleEndian"')])
    insert_after("boundary-ok:byte-order-on-bits-typed-field", named("uw"), [attr_line(2, "byte_order", '"BigEndian"')], ok=True)
    # ---- attribute tables ----
    mainh = find(lambda l: l.kind == "head" and l.f["name"] == "Unused")[0]
    enumh = find(lambda l: l.kind == "head" and l.f["name"] == "Bb")[0]
    uu = named("uu")
    insert_after("attribute-wrong-scope:maximum_bits-on-struct", mainh, [attr_line(1, "maximum_bits", "8")])
    insert_after("attribute-wrong-scope:text_output-on-struct", mainh, [attr_line(1, "text_output", '"Skip"')])
    insert_after("attribute-wrong-scope:is_signed-on-field", uu, [attr_line(2, "is_signed", "true")])
    insert_after("attribute-wrong-scope:fixed_size-on-field", uu, [attr_line(2, "fixed_size_in_bits", "8")])
    insert_after("attribute-wrong-scope:byte_order-on-enum", enumh, [attr_line(1, "byte_order", '"BigEndian"')])
    insert_after("attribute-duplicate", mbl, [attr_line(1, "maximum_bits", str(mb))])
    insert_after("attribute-duplicate", uu, [attr_line(2, "text_output", '"Skip"'), attr_line(2, "text_output", '"Emit"')], which=1)
    edit("attribute-wrong-value-type:maximum_bits-boolean", mbl, setf(value=L("bool", "true")))
    edit("attribute-wrong-value-type:maximum_bits-string", mbl, setf(value='"8"'))
    sgl = find(lambda l: l.kind == "attr" and l.f["name"] == "is_signed")[0]
    edit("attribute-wrong-value-type:is_signed-integer", sgl, setf(value=I(1)))
    edit("attribute-wrong-value-type:is_signed-string", sgl, setf(value='"true"'))
    insert_after("attribute-wrong-value-type:byte_order-integer", named("ui"), [attr_line(2, "byte_order", "3")])
    insert_after("attribute-wrong-value-type:text_output-unknown-string", uu, [attr_line(2, "text_output", '"Maybe"')])
    insert_after("attribute-wrong-value-type:requires-string", uu, [attr_line(2, "requires", '"this"')])
    insert_after("attribute-not-defaultable", mainh, [attr_line(1, "text_output", '"Skip"', default=True)])
    insert_after("attribute-not-defaultable", enumh, [attr_line(1, "maximum_bits", "8", default=True)])
    insert_after("attribute-unknown", uu, [attr_line(2, "frobnicate", "1")])
    insert_after("attribute-unknown", mainh, [attr_line(1, "alignment", "4")])
    fixedh = find(lambda l: l.kind == "head" and l.f["name"] == "Fixed")[0]
    insert_after("fixed-size-attribute-mismatch", fixedh, [attr_line(1, "fixed_size_in_bits", "24")])
    insert_after("boundary-ok:fixed-size-attribute-equal", fixedh, [attr_line(1, "fixed_size_in_bits", "32")], ok=True)
    innerh = find(lambda l: l.kind == "head" and l.f["name"] == "Inner")[0]
    insert_after("fixed-size-attribute-on-dynamic-struct", innerh, [attr_line(1, "fixed_size_in_bits", "16")])
    insert_after("attribute-nonconstant-integer", mainh, [attr_line(1, "fixed_size_in_bits", L("int", "uu"))])
    insert_after("boundary-ok:text-output-on-field", uu, [attr_line(2, "text_output", '"Skip"')], ok=True)
    # ---- reserved words ----
    edit("reserved-word:field-name", uu, setf(name=rng.choice(RESERVED_FIELD)))
    aq = find(lambda l: l.kind == "enum_value" and l.f.get("spare"))[0]
    edit("reserved-word:enum-value-name", aq, setf(name=rng.choice(RESERVED_ENUM_VALUE)))
    # rename the unused struct (nobody refers to it)
    edit("reserved-word:type-name", mainh, setf(name=rng.choice(RESERVED_TYPE)))
    # ---- parameters ----
    mh = find(lambda l: l.kind == "head" and l.f["name"] == "Main")[0]
    def add_param(ty):
        def fn(l, _):
            l.f["params"] = list(l.f["params"]) + [("zq", ty)]
        return fn
    edit("parameter-width-0", mh, add_param("UInt:0"))
    edit("parameter-width-65", mh, add_param("UInt:65"))
    edit("boundary-ok:parameter-width-64", mh, add_param("UInt:64"), ok=True)
    edit("parameter-integer-without-size", mh, add_param("UInt"))
    edit("parameter-enum-with-size", mh, add_param("Aa:8"))
    return out


C14_KNOWN = {}


# ----------------------------------------------------------------------------
# $default byte_order scoping: sibling and nested types with defaults at different scopes
# ----------------------------------------------------------------------------
def default_scope_cases(rng, n=6):
    """Modules made of several sibling / nested structs whose `$default byte_order` is set (or not) at
    module, struct and nested-struct scope in varying order.  By the reference a field gets its own
    attribute, else the NEAREST ENCLOSING $default, else Null if it is one byte; a wider scalar with
    no default in scope makes the module unrealisable (error on that field)."""
    orders = ["LittleEndian", "BigEndian"]
    out = []
    for k in range(n):
        lines, bad = [], []
        if k % 3 == 0:
            mod = None                      # later siblings must NOT see an earlier struct's default
        elif k % 3 == 1:
            mod = rng.choice(orders)        # later siblings must see exactly the module default
        else:
            mod = rng.choice([None] + orders)
        if mod:
            lines.append(Line("attr", 0, name="byte_order", value='"%s"' % mod, default=True))
        ntypes = rng.randint(3, 5)
        for t in range(ntypes):
            if t == 0:
                own = rng.choice([o for o in orders if o != mod])      # an early struct WITH a default ...
            elif t == 1:
                own = None                                             # ... followed by one WITHOUT
            else:
                own = rng.choice([None, None] + orders)
            name = "Tt%d" % t
            lines.append(Line("head", 0, what="struct", name=name))
            if own:
                lines.append(Line("attr", 1, name="byte_order", value='"%s"' % own, default=True))
            scope = own or mod
            nested = rng.random() < 0.6
            if nested:
                nown = rng.choice([None, None] + orders)
                lines.append(Line("raw", 1, text="struct Nest:"))
                if nown:
                    lines.append(Line("attr", 2, name="byte_order", value='"%s"' % nown, default=True))
                nscope = nown or scope
                w = rng.choice([1, 2, 4])
                lines.append(Line("field", 2, start=L("int", "0"), size=L("int", str(w)), tname="UInt", name="na"))
                if w > 1 and nscope is None:
                    bad.append(len(lines))
                if rng.random() < 0.5:
                    lines.append(Line("field", 2, start=L("int", "4"), size=L("int", "2"), tname="Int", name="nb"))
                    if nscope is None:
                        bad.append(len(lines))
                lines.append(Line("field", 2, start=L("int", "7"), size=L("int", "1"), tname="UInt", name="pad"))
            off = 0
            if nested:
                lines.append(Line("field", 1, start=L("int", "0"), size=L("int", "8"), tname="%s.Nest" % name, name="nn"))
                off = 8
            for j in range(rng.randint(1, 3)):
                w = rng.choice([1, 2, 2, 4, 8])
                ty = rng.choice(["UInt", "Int"]) if w != 4 else rng.choice(["UInt", "Int", "Float"])
                lines.append(Line("field", 1, start=L("int", str(off)), size=L("int", str(w)), tname=ty, name="f%d" % j))
                off += w
                explicit = rng.random() < 0.2
                if explicit:
                    lines.append(Line("attr", 2, name="byte_order", value='"%s"' % rng.choice(orders)))
                elif w > 1 and scope is None:
                    bad.append(len(lines))
            if rng.random() < 0.5:
                lines.append(Line("anon_bits", 1, start=L("int", str(off)), size=L("int", "2")))
                if scope is None:
                    bad.append(len(lines))
                lines.append(Line("field", 2, start=L("int", "0"), size=L("int", "16"), tname="UInt", name="bw", inbits=True))
        if bad:
            out.append(Case(lines, "byte-order-missing:default-scope", bad[0], doc_typed=True, doc_realisable=False,
                            cls="C14", alt_lines=bad[1:]))
        else:
            out.append(Case(lines, "boundary-ok:default-scope", 1, doc_typed=True, doc_realisable=True, cls="C14"))
    return out


# ----------------------------------------------------------------------------
# back-end-qualified attributes
# ----------------------------------------------------------------------------
FOREIGN_VALUES = {
    "byte_order": (['"BigEndian"', '"LittleEndian"', '"Null"'], ["3", "true", '"MiddleEndian"']),
    "fixed_size_in_bits": (["8", "24"], ['"x"', "true"]),
    "maximum_bits": (["2", "1"], ['"8"', "false"]),
    "is_signed": (["true", "false"], ["1", '"yes"']),
    "requires": (["false", "true"], ['"abc"', "3"]),
    "text_output": (['"Skip"', '"Emit"'], ["7", '"Maybe"']),
    "addressable_unit_size": (["8", "1"], ['"q"', "true"]),
}


def backend_cases(base, rng, n=24):
    """A back-end-qualified attribute is not a front-end attribute, whatever its name and value: with the
    qualifier declared in [expected_back_ends] the module stays realisable and every effective front-end
    attribute (byte order, enum width/sign, fixed size) stays what it was; an undeclared qualifier is an error."""
    lines = base.lines
    out = []

    def idx(pred):
        r = [i for i, l in enumerate(lines) if pred(l)]
        return r[0] if r else None
    first_type = idx(lambda l: l.kind == "head")
    sites = {   # scope -> (insert after this line index, indent)
        "module": (first_type - 1, 0),
        "struct": (idx(lambda l: l.kind == "head" and l.f["name"] == "Fixed"), 1),
        "bits": (idx(lambda l: l.kind == "head" and l.f["name"] == "Flags"), 1),
        "enum": (idx(lambda l: l.kind == "head" and l.f["name"] == "Bb"), 1),
        "enum-value": (idx(lambda l: l.kind == "enum_value" and l.f.get("edge") == "lo"), 2),
        "field": (idx(lambda l: l.kind == "field" and l.f.get("name") == "ui"), 2),
        "virtual-field": (idx(lambda l: l.kind == "let" and l.owner == "Main"), 2),
    }
    combos = [(sc, nm) for sc in sites for nm in FOREIGN_VALUES]
    rng.shuffle(combos)

    def build(sc, nm, backend, declared, value, default):
        c = base.case()
        after, indent = sites[sc]
        new = Line("attr", indent, name=nm, value=value, default=default, backend=backend)
        c.lines.insert(after + 1, new)
        shift = 0
        if declared:
            c.lines.insert(0, Line("attr", 0, name="expected_back_ends", value='"%s"' % declared))
            shift = 1
        return c.lines, after + 2 + shift

    for k, (sc, nm) in enumerate(combos[:n]):
        good, bad = FOREIGN_VALUES[nm]
        value = rng.choice(good if k % 2 == 0 else bad)
        default = rng.random() < 0.4
        ls, line = build(sc, nm, "xyz", "cpp, xyz", value, default)
        out.append(Case(ls, "boundary-ok:foreign-back-end-attribute:%s" % sc, line, doc_typed=True, doc_realisable=True, cls="C14"))
    for sc, nm in combos[n:n + 6]:
        good, bad = FOREIGN_VALUES[nm]
        ls, line = build(sc, nm, "cpp", None, rng.choice(good + bad), rng.random() < 0.3)
        # the front end accepts it; the C++ back end, which owns the qualifier, knows only namespace and enum_case
        out.append(Case(ls, "cpp-unknown-attribute:front-end-name:%s" % sc, line, doc_typed=True, doc_realisable=False, cls="C14"))
    for sc, nm in combos[n + 6:n + 10]:
        good, bad = FOREIGN_VALUES[nm]
        ls, line = build(sc, nm, "xyz", None, rng.choice(good), False)
        out.append(Case(ls, "attribute-undeclared-back-end", line, doc_typed=True, doc_realisable=False, cls="C14"))
        ls, line = build(sc, nm, "abc", "cpp, xyz", rng.choice(good), False)
        out.append(Case(ls, "attribute-undeclared-back-end", line, doc_typed=True, doc_realisable=False, cls="C14"))
    return out


# ----------------------------------------------------------------------------
# C14 extension: strings for the (cpp) namespace / enum_case validators, (cpp) attribute cases,
# further front-end rules, imports
# ----------------------------------------------------------------------------
_WS = [" ", " ", " ", "\t", "\n", "\x0b", "\x0c", "\r", "\x1c", "\x1f"]
_IDS = ["a", "foo", "bar_1", "_x", "A9", "x__y", "Z", "ns2", "emboss", "q0_"]
_CPP_WORDS = ["class", "int", "namespace", "NULL", "auto", "xor_eq", "_Bool", "complex", "this", "register"]
_NEAR_WORDS = ["Class", "class_", "null", "ints", "nameSpace", "Auto"]


def ns_strings(rng, n):
    """[(rule, text)]: namespace values around every clause of the documented grammar."""
    out = [("ns-ok:plain", "foo::bar::baz"), ("ns-ok:leading-colons", "::foo::bar::baz"), ("ns-ok:single", "simple"),
           ("ns-empty", ""), ("ns-empty:spaces", "  \t "), ("ns-global", "::"), ("ns-global:spaces", " :: "),
           ("ns-invalid:trailing-colons", "foo::"), ("ns-invalid:single-colon", "foo:bar"), ("ns-invalid:triple-colon", "foo:::bar"),
           ("ns-invalid:digit-first", "9foo"), ("ns-invalid:two-idents", "foo bar"), ("ns-invalid:dot", "foo.bar"),
           ("ns-invalid:double-global", "::::foo"), ("ns-invalid:space-in-colons", "foo: :bar"), ("ns-invalid:dash", "foo-bar"),
           ("ns-reserved", "foo::class"), ("ns-reserved:first", "int::foo"), ("ns-reserved:null", "NULL"),
           ("ns-ok:near-reserved", "Class::null::ints"), ("ns-ok:newline-end", "foo::bar\n"), ("ns-ok:newline-inside", "foo\n::\nbar"),
           ("ns-invalid:nul", "foo\x00"), ("ns-ok:unit-separator", "\x1ffoo\x1c"), ("ns-invalid:x1b", "\x1bfoo"),
           ("ns-invalid:x0e", "foo\x0e"), ("ns-invalid:x21", "foo!"), ("ns-invalid:at", "@foo"), ("ns-invalid:bracket", "foo[")]

    def ws():
        return "".join(rng.choice(_WS) for _ in range(rng.choice([0, 0, 0, 1, 1, 2])))
    for _ in range(n):
        k = rng.randint(1, 4)
        ids = [rng.choice(_IDS + _NEAR_WORDS) for _ in range(k)]
        rule = "ns-ok:random"
        if rng.random() < 0.25:
            ids[rng.randrange(k)] = rng.choice(_CPP_WORDS)
            rule = "ns-reserved:random"
        s = ws() + (("::" + ws()) if rng.random() < 0.4 else "")
        s += ("::").join(ws() + i + ws() for i in ids)
        m = rng.random()
        if m < 0.45:
            pos = rng.randrange(len(s) + 1)
            ch = rng.choice([":", "::", " ", "9", "-", ".", ",", "\t", "a", "_", ":::", "\x00", "\x7f", "\x1b", "\x0e", "@", "[", "`", "{", "/", ";"])
            if rng.random() < 0.5 and pos < len(s):
                s = s[:pos] + s[pos + 1:]
                rule = "ns-mutated:delete"
            else:
                s = s[:pos] + ch + s[pos:]
                rule = "ns-mutated:insert"
        out.append((rule, s))
    return out


def ec_strings(rng, n, supported=("SHOUTY_CASE", "kCamelCase")):
    out = [("ec-ok:one", "kCamelCase"), ("ec-ok:two", "SHOUTY_CASE, kCamelCase"), ("ec-ok:trailing-comma", "kCamelCase,"),
           ("ec-ok:trailing-comma-space", "kCamelCase , "), ("ec-empty", ""), ("ec-empty:spaces", "  "), ("ec-empty:comma", ","),
           ("ec-empty:double-comma", "kCamelCase,,SHOUTY_CASE"), ("ec-empty:leading-comma", ",kCamelCase"),
           ("ec-empty:two-trailing", "kCamelCase,,"), ("ec-duplicate", "kCamelCase, kCamelCase"),
           ("ec-duplicate:three", "SHOUTY_CASE,kCamelCase,SHOUTY_CASE"), ("ec-unsupported", "snake_case"),
           ("ec-unsupported:lower", "kcamelcase"), ("ec-unsupported:inner-space", "kCamel Case"),
           ("ec-ok:tabs", "\tkCamelCase\t,\nSHOUTY_CASE\r"), ("ec-unsupported:nul", "kCamelCase\x00"), ("ec-ok:x1f", "\x1fkCamelCase")]
    pool = list(supported) + list(supported) + ["snake_case", "K_CAMEL", "kCamelCas", "", "kCamelCase2"]

    def ws():
        return "".join(rng.choice(_WS) for _ in range(rng.choice([0, 0, 1, 1, 2])))
    for _ in range(n):
        k = rng.randint(1, 3)
        cs = [rng.choice(pool) for _ in range(k)]
        s = ",".join(ws() + c + ws() for c in cs)
        if rng.random() < 0.3:
            s += "," + ws()
        if rng.random() < 0.2:
            pos = rng.randrange(len(s) + 1)
            s = s[:pos] + rng.choice([",", " ", "x", "\x00", ";"]) + s[pos:]
        out.append(("ec-random", s))
    return out


def _mini_lines(default=True):
    """A small realisable module with one site of every attribute scope (cheap to compile: the (cpp)
    attribute rules, [requires] placement, parameter and 64-bit rules do not depend on the rest)."""
    I = lambda n: L("int", str(n))
    ls = []
    if default:
        ls.append(Line("attr", 0, name="byte_order", value='"LittleEndian"', default=True))
    ls += [
        Line("head", 0, what="enum", name="Ee", site="enum"),
        Line("attr", 1, name="maximum_bits", value="8"),
        Line("enum_value", 1, name="AA", value=I(0), site="enum-value"),
        Line("enum_value", 1, name="BB", value=I(1)),
        Line("head", 0, what="bits", name="Bi", site="bits"),
        Line("field", 1, start=I(0), size=I(3), tname="UInt", name="lo"),
        Line("field", 1, start=I(3), size=I(1), tname="Flag", name="fg"),
        Line("field", 1, start=I(4), size=I(4), tname="Ee", name="hi"),
        Line("head", 0, what="struct", name="St", params=[("pa", "UInt:8"), ("pe", "Ee")], site="struct"),
        Line("field", 1, start=I(0), size=I(1), tname="UInt", name="xx", site="field"),
        Line("field", 1, start=I(1), size=I(2), tname="Int", name="yy"),
        Line("field", 1, start=I(3), size=I(1), tname="Bi", name="bi"),
        Line("field", 1, start=I(4), size=I(4), tname="Float", name="ff"),
        Line("field", 1, start=I(8), size=I(1), tname="Ee", name="ee"),
        Line("field", 1, start=I(9), size=L("int", "xx"), tname="UInt", tbits=8, dims=[None], name="arr"),
        Line("let", 1, name="vv", value=X("int", "+", [L("int", "xx"), I(1)]), site="virtual-field"),
        Line("let", 1, name="vs", value=L("opaque", "bi")),
    ]
    return ls


def _site(ls, name):
    if name == "module":
        return -1, 0
    for i, l in enumerate(ls):
        if l.f.get("site") == name:
            return i, (2 if name in ("enum-value", "field", "virtual-field") else 1)
    raise KeyError(name)


def _named(ls, n):
    return [i for i, l in enumerate(ls) if l.kind in ("field", "let") and l.f.get("name") == n][0]


# what the language reference allows: (attribute, scope, $default?)
DOC_CPP_ALLOWED = {("namespace", "module", False), ("enum_case", "module", True), ("enum_case", "struct", True),
                   ("enum_case", "bits", True), ("enum_case", "enum", True), ("enum_case", "enum-value", False)}
CPP_SCOPES = ["module", "struct", "bits", "enum", "enum-value", "field", "virtual-field"]
NS_GOOD = ["foo::bar::baz", "::foo::bar::baz", "simple", " a :: b ", "_x9::Y_", "::\\n a"]
NS_BAD = [("empty", ""), ("empty", "   "), ("global", "::"), ("global", " :: "), ("invalid", "foo::"), ("invalid", "foo:bar"),
          ("invalid", "foo:::bar"), ("invalid", "9foo"), ("invalid", "foo bar"), ("invalid", "foo.bar"), ("invalid", "::::a"),
          ("reserved", "foo::class"), ("reserved", "int"), ("reserved", "a::NULL::b"), ("reserved", " namespace ")]
EC_GOOD = ["kCamelCase", "SHOUTY_CASE", "SHOUTY_CASE, kCamelCase", "kCamelCase,SHOUTY_CASE,", " kCamelCase , "]
EC_BAD = [("empty", ""), ("empty", ","), ("empty", "kCamelCase,,SHOUTY_CASE"), ("empty", ",kCamelCase"), ("empty", "kCamelCase,,"),
          ("duplicate", "kCamelCase, kCamelCase"), ("duplicate", "SHOUTY_CASE,kCamelCase,SHOUTY_CASE"),
          ("unsupported", "snake_case"), ("unsupported", "kcamelcase"), ("unsupported", "kCamel Case"), ("unsupported", "kCamelCase;SHOUTY_CASE")]


def cpp_cases(rng, thorough=False):
    """(cpp) namespace / enum_case at every scope, with and without $default, good and bad values."""
    out = []

    def build(rule, ok, sc, nm, value, default, second=None):
        ls = _mini_lines()
        i, indent = _site(ls, sc)
        new = [Line("attr", indent, name=nm, value=value, default=default, backend="cpp")]
        if second is not None:
            new.append(Line("attr", indent, name=second[0], value=second[1], default=second[2], backend="cpp"))
        at = i + 1 if sc != "module" else 0
        for k, nl in enumerate(new):
            ls.insert(at + k, nl)
        out.append(Case(ls, rule, at + len(new), doc_typed=True, doc_realisable=ok, cls="C14"))

    q = lambda s: '"%s"' % s
    # placement table
    for sc in CPP_SCOPES:
        for nm in ("namespace", "enum_case"):
            for default in (False, True):
                good = q(rng.choice(NS_GOOD if nm == "namespace" else EC_GOOD))
                if (nm, sc, default) in DOC_CPP_ALLOWED:
                    build("boundary-ok:cpp-%s-on-%s" % (nm, sc), True, sc, nm, good, default)
                elif (nm, sc, not default) in DOC_CPP_ALLOWED:
                    build("cpp-%s:%s" % ("not-defaultable" if default else "must-be-default", "%s-on-%s" % (nm, sc)), False, sc, nm, good, default)
                else:
                    build("cpp-wrong-scope:%s-on-%s" % (nm, sc), False, sc, nm, good, default)
    # values
    for v in NS_GOOD:
        build("boundary-ok:cpp-namespace-value", True, "module", "namespace", q(v), False)
    for cls, v in NS_BAD:
        build("cpp-namespace-%s" % cls, False, "module", "namespace", q(v), False)
    ec_sites = [("module", True), ("struct", True), ("bits", True), ("enum", True), ("enum-value", False)]
    for v in EC_GOOD:
        sc, d = rng.choice(ec_sites)
        build("boundary-ok:cpp-enum-case-value", True, sc, "enum_case", q(v), d)
    for cls, v in EC_BAD:
        sc, d = rng.choice(ec_sites)
        build("cpp-enum-case-%s" % cls, False, sc, "enum_case", q(v), d)
    # multiplicity, value kinds, unknown names
    build("cpp-attribute-duplicate", False, "module", "namespace", q("a"), False, second=("namespace", q("b"), False))
    build("cpp-attribute-duplicate", False, "enum", "enum_case", q("kCamelCase"), True, second=("enum_case", q("SHOUTY_CASE"), True))
    build("boundary-ok:cpp-two-different-attributes", True, "module", "namespace", q("a::b"), False, second=("enum_case", q("kCamelCase"), True))
    build("cpp-attribute-wrong-value-type", False, "module", "namespace", "3", False)
    build("cpp-attribute-wrong-value-type", False, "enum", "enum_case", "true", True)
    build("cpp-attribute-wrong-value-type", False, "enum-value", "enum_case", "Ee.BB", False)
    for sc in rng.sample(CPP_SCOPES, 3 if not thorough else 7):
        nm = rng.choice(["byte_order", "text_output", "requires", "name_space", "enumcase"])
        val = {"byte_order": q("BigEndian"), "text_output": q("Skip"), "requires": "true"}.get(nm, q("x"))
        build("cpp-unknown-attribute:%s" % sc, False, sc, nm, val, False)
    return out


def ext_cases(rng):
    """[requires] placement, parameter rules, the 64-bit limit of run-time integer expressions."""
    out = []
    I = lambda n: L("int", str(n))

    def after(rule, ok, fname, new_lines, which=0):
        ls = _mini_lines()
        i = _named(ls, fname)
        for k, nl in enumerate(new_lines):
            ls.insert(i + 1 + k, nl)
        out.append(Case(ls, rule, i + 2 + which, doc_typed=True, doc_realisable=ok, cls="C14"))
    req = lambda v: Line("attr", 2, name="requires", value=v)
    after("boundary-ok:requires-on-integer-field", True, "xx", [req("this < 200")])
    after("boundary-ok:requires-on-enum-field", True, "ee", [req("this == Ee.AA")])
    after("boundary-ok:requires-on-virtual-field", True, "vv", [req("this != 7")])
    after("requires-on-array-field", False, "arr", [req("true")])
    after("requires-on-structure-field", False, "bi", [req("true")])
    after("requires-on-float-field", False, "ff", [req("true")])
    after("requires-on-opaque-virtual-field", False, "vs", [req("true")])
    # boolean fields: a Flag in the bits type
    ls = _mini_lines()
    i = _named(ls, "fg")
    ls.insert(i + 1, req("this || true"))
    out.append(Case(ls, "boundary-ok:requires-on-boolean-field", i + 2, doc_typed=True, doc_realisable=True, cls="C14"))
    # parameters
    for rule, ok, ty in (("parameter-enum-with-size", False, "Ee:8"), ("parameter-integer-without-size", False, "UInt"),
                         ("parameter-integer-without-size", False, "Int"), ("boundary-ok:parameter-int-64", True, "Int:64"),
                         ("boundary-ok:parameter-enum-without-size", True, "Ee"), ("parameter-width-65", False, "Int:65"),
                         ("parameter-width-0", False, "Bcd:0"), ("boundary-ok:parameter-width-1", True, "UInt:1")):
        ls = _mini_lines()
        h = [k for k, l in enumerate(ls) if l.f.get("site") == "struct"][0]
        ls[h].f["params"] = list(ls[h].f["params"]) + [("pz", ty)]
        out.append(Case(ls, rule, h + 1, doc_typed=True, doc_realisable=ok, cls="C14"))
    # reserved words as parameter names: one snake_case word from each of several languages' lists (regenerated from
    # the compiler's list), as first and as last parameter; a non-reserved neighbour stays realisable
    import re as _re
    from compiler.front_end import constraints as _constraints
    by_lang = {}
    for w, lang in sorted(_constraints.get_reserved_word_list().items()):
        if _re.fullmatch(r"[a-z][a-z_0-9]*", w):
            by_lang.setdefault(lang, []).append(w)
    langs = sorted(by_lang)
    picked = [(lang, rng.choice(by_lang[lang])) for lang in (langs if len(langs) <= 6 else rng.sample(langs, 6))]
    if "class" not in [w for _, w in picked]:
        picked.append(("fixed", "class"))
    for k, (lang, w) in enumerate(picked):
        for pos in ("first", "last"):
            if pos == "last" and k % 2:
                continue
            ls = _mini_lines()
            h = [j for j, l in enumerate(ls) if l.f.get("site") == "struct"][0]
            ps = list(ls[h].f["params"])
            ps = [(w, ps[0][1])] + ps[1:] if pos == "first" else ps + [(w, "Int:16")]
            ls[h].f["params"] = ps
            out.append(Case(ls, "reserved-word:parameter-name:%s:%s" % (pos, _re.sub(r"[^A-Za-z0-9]+", "-", str(lang))), h + 1,
                            doc_typed=True, doc_realisable=False, cls="C14"))
        near = w + "_"
        while near in _constraints.get_reserved_word_list():
            near += "x"
        ls = _mini_lines()
        h = [j for j, l in enumerate(ls) if l.f.get("site") == "struct"][0]
        ls[h].f["params"] = list(ls[h].f["params"]) + [(near, "Int:16")]
        out.append(Case(ls, "boundary-ok:parameter-name-next-to-reserved-word", h + 1, doc_typed=True, doc_realisable=True, cls="C14"))
    # 64-bit limits: xx is 0..255, yy is -32768..32767
    K = "0x0101_0101_0101_0101"        # 255 * K = 2**64 - 1
    S = "0x0001_0000_0000_0000"        # -32768 * S = -2**63
    let = lambda n, v: Line("let", 1, name=n, value=L("int", v))
    after("boundary-ok:expression-reaches-uint64-maximum", True, "vs", [let("g0", "xx * %s" % K)])
    after("expression-exceeds-uint64", False, "vs", [let("g1", "xx * %s + 1" % K)])
    after("boundary-ok:expression-reaches-int64-minimum", True, "vs", [let("g2", "yy * %s" % S)])
    after("expression-below-int64", False, "vs", [let("g3", "yy * %s - 1" % S)])
    after("expression-fits-neither-64-bit-type", False, "vs", [let("g4", "xx * %s + yy" % K)])
    after("expression-mixes-int64-and-uint64", False, "vs", [Line("let", 1, name="g5", value=L("bool", "xx * %s > yy" % K))])
    after("boundary-ok:comparison-in-uint64", True, "vs", [Line("let", 1, name="g6", value=L("bool", "xx * %s > pa" % K))])
    after("field-size-exceeds-64-bits", False, "vs",
          [Line("field", 1, start=I(300), size=L("int", "xx * 0x100_0000_0000_0000 * 0x1000"), tname="UInt", tbits=8, dims=[None], name="big")])
    after("expression-intermediate-exceeds-uint64", False, "vs", [let("g7", "(xx * %s + 1) - (xx * %s + 1)" % (K, K))])
    return out


IMPORTED = """[$default byte_order: "BigEndian"]
%s
struct Bar:
  0 [+2]  UInt  q
struct Dyn:
  0 [+1]  UInt  n
  1 [+n]  UInt:8[]  d
enum Ee:
  [maximum_bits: 8]
  AA = 1
bits Nib:
  0 [+4]  UInt  v
"""


def import_cases(rng):
    """A field whose type comes from an imported module obeys the same rules."""
    out = []

    def mk(rule, ok, body, line, head='[$default byte_order: "LittleEndian"]', imp_extra="", in_import=False):
        text_lines = ['import "o.emb" as o', head, "struct Main:"] + body
        text_lines = [t for t in text_lines if t is not None]
        ls = [Line("raw", 0, text=t) for t in text_lines]
        c = Case(ls, rule, line, doc_typed=True, doc_realisable=ok, cls="C14")
        c.extra = {"o.emb": IMPORTED % imp_extra}
        out.append(c)
    mk("boundary-ok:imported-struct-field", True, ["  0 [+2]  o.Bar  b", "  2 [+1]  o.Ee  e", "  3 [+1]  bits:", "    0 [+4]  o.Nib  n", "  4 [+4]  o.Bar[2]  a"], 4)
    mk("enum-field-wider-than-maximum-bits:imported", False, ["  0 [+2]  o.Bar  b", "  2 [+2]  o.Ee  e"], 5)
    mk("explicit-size-mismatch:imported-struct", False, ["  0 [+2]  o.Bar:8  b"], 4)
    mk("boundary-ok:explicit-size-equal:imported-struct", True, ["  0 [+2]  o.Bar:16  b"], 4)
    mk("bits-byte-oriented-member:imported", False, ["  0 [+2]  bits:", "    0 [+16]  o.Bar  b"], 5)
    mk("array-element-dynamic-size:imported", False, ["  0 [+8]  o.Dyn[2]  d"], 4)
    mk("imported-struct-in-too-small-field", False, ["  0 [+1]  o.Bar  b"], 4)
    mk("byte-order-on-struct-typed-field:imported", False, ["  0 [+2]  o.Bar  b", '    [byte_order: "BigEndian"]'], 5)
    mk("array-element-not-whole-bytes:imported", False, ["  0 [+1]  o.Nib[2]  n"], 4)
    # the imported module's $default is not the importer's
    mk("byte-order-missing:imported-default-does-not-apply", False, ["  0 [+2]  UInt  u"], 3, head=None)
    mk("boundary-ok:imported-type-needs-no-byte-order", True, ["  0 [+2]  o.Bar  b"], 3, head=None)
    # rules inside the imported module
    mk("cpp-namespace-reserved:imported-module", False, ["  0 [+2]  o.Bar  b"], 2, imp_extra='[(cpp) namespace: "x::class"]', in_import=True)
    mk("boundary-ok:cpp-namespace:imported-module", True, ["  0 [+2]  o.Bar  b"], 2, imp_extra='[(cpp) namespace: "x::y"]')
    mk("attribute-undeclared-back-end:imported-module", False, ["  0 [+2]  o.Bar  b"], 2, imp_extra='[(xyz) namespace: "x::y"]', in_import=True)
    mk("attribute-duplicate:imported-module", False, ["  0 [+2]  o.Bar  b"], 2, imp_extra='[$default byte_order: "BigEndian"]', in_import=True)
    return out


def constant_size_cases():
    """Physical fields whose SIZE is constant without being a literal: a reference to a constant `let` of the same
    structure, arithmetic on constant lets, a static reference `Kk.n`, and the literal itself.  A field "has a fixed
    size" when its size expression can only take one value: by the reference, size-less UInt/Int/Bcd/enum fields of
    1..8 bytes are realisable in all four spellings, an explicit width or a fixed-size structure must equal 8*n.
    Deterministic (no rng): every run has the whole family.  Verdicts are by construction."""
    out = []
    spellings = [("constant-let", lambda n: "n"), ("arithmetic-on-constant-lets", lambda n: "n + m - 2"),
                 ("static-reference", lambda n: "Kk.n"), ("literal", lambda n: str(n))]
    rows = []   # (type text, n, realisable?, rule)
    for n in (1, 2, 8):
        rows.append(("UInt", n, True, "boundary-ok:sizeless-uint-%d-bytes" % n))
    rows.append(("UInt", 9, False, "width-72:uint"))
    rows.append(("UInt", 0, False, "width-0:uint"))
    rows.append(("Int", 3, True, "boundary-ok:sizeless-int-3-bytes"))
    rows.append(("Bcd", 8, True, "boundary-ok:sizeless-bcd-8-bytes"))
    rows.append(("Big", 1, True, "boundary-ok:sizeless-enum-1-byte"))
    rows.append(("Big", 8, True, "boundary-ok:sizeless-enum-8-bytes"))
    rows.append(("Small", 2, False, "enum-field-wider-than-maximum-bits"))
    rows.append(("Float", 4, True, "boundary-ok:float-4-bytes"))
    rows.append(("Float", 3, False, "float-24-bits"))
    rows.append(("UInt:16", 2, True, "boundary-ok:explicit-size-equal"))
    rows.append(("UInt:16", 1, False, "explicit-size-larger-than-field"))
    rows.append(("UInt:16", 3, False, "explicit-size-smaller-than-field"))
    rows.append(("Two", 2, True, "boundary-ok:fixed-size-struct-fits"))
    rows.append(("Two", 1, False, "struct-in-too-small-field"))
    rows.append(("Two", 3, False, "struct-in-too-large-field"))
    for ty, n, ok, rule in rows:
        for sp, f in spellings:
            text = ['[$default byte_order: "LittleEndian"]', "enum Big:", "  XA = 0", "enum Small:", "  [maximum_bits: 8]", "  SA = 0",
                    "struct Two:", "  0 [+2]  UInt  t", "struct Kk:", "  let n = %d" % n, "  let m = 2",
                    "  0 [+%s]  %s  x" % (f(n), ty), "  16 [+1]  UInt  tail_byte"]
            ls = [Line("raw", 0, text=t) for t in text]
            out.append(Case(ls, "%s:size-by-%s" % (rule, sp), 12, doc_typed=True, doc_realisable=ok, cls="C14"))
    return out
