"""C05 — fail-closed translator: /repo's CURRENT compiler/front_end/expression_bounds.py -> Gallina.

`translate(repo)` parses the source with `ast` and returns the text of the definitions
(one `Definition g_<name>` per translated function) written against the small run-time
library of coq/theories/Bounds/GenBridge.v.  Every statement and expression must match a
shape listed here; anything else raises `Unsupported(function, what)` — nothing is skipped
silently (the three recognised no-ops are IR plumbing and are listed in NOOPS below).

Value model (as the task fixes it): a python value that is an int, a stringified int,
"infinity" or "-infinity" is an `ext` (`Fin z` / `PosInf` / `NegInf`); `str()` is the identity,
`int()` raises on the two words; a raised exception / failed assert is `None`.
Known conflation: an int and its stringified form are the same `Fin z`.

`equality_file(...)` emits, for each translated function, the theorem that the regenerated
definition equals the hand-written function of Bounds/Model.v that the soundness theorems
are about, with a fixed proof script.
"""
import ast
import os

SRC = os.path.join("compiler", "front_end", "expression_bounds.py")


class Unsupported(Exception):
    def __init__(self, fn, what, node=None):
        self.fn, self.what = fn, what
        self.line = getattr(node, "lineno", None)
        Exception.__init__(self, "%s: %s%s" % (fn, what, " (line %s)" % self.line if self.line else ""))


# ---------------------------------------------------------------------------------------------
# types of translated expressions
#   'Z' int   'V' ext   'B' bool   ('L', t) list   ('T', (t...)) tuple   'R' expression with .type.integer
#   'RI' the .type.integer record itself   'FN' FunctionMapping member   ('F', sig) function value
#   'CB' the condition operand of ?: (option bool = type.boolean.value if present)   ('S', str) static python string
# ---------------------------------------------------------------------------------------------
def coq_ty(t):
    if t == "Z":
        return "Z"
    if t == "V":
        return "ext"
    if t == "B":
        return "bool"
    if t in ("R", "RI"):
        return "grec"
    if t == "FN":
        return "gfn"
    if t == "CB":
        return "(option bool)"
    if isinstance(t, tuple) and t[0] == "L":
        return "(list %s)" % (coq_ty(t[1]) if t[1] else "_")
    if isinstance(t, tuple) and t[0] == "T":
        return "(%s)" % " * ".join(coq_ty(x) for x in t[1])
    raise KeyError(t)


class Ex:
    def __init__(self, term, ty, eff=False, parts=None):
        self.term, self.ty, self.eff, self.parts = term, ty, eff, parts

    def __repr__(self):
        return "Ex(%r,%r,%r)" % (self.term, self.ty, self.eff)


# name -> (parameter list [(python name, type)], return type, pure?)
HELPERS = {
    "_is_infinite": ([("a", "V")], "B", True),
    "_sign": ([("a", "V")], "Z", False),
    "_add": ([("a", "V"), ("b", "V")], "V", False),
    "_sub": ([("a", "V"), ("b", "V")], "V", False),
    "_mul": ([("a", "V"), ("b", "V")], "V", False),
    "_max": ([("a", ("L", "V"))], "V", False),
    "_min": ([("a", ("L", "V"))], "V", False),
    "_greatest_common_divisor": ([("a", "V"), ("b", "V")], "V", False),
    "_shared_modular_value": ([("left", ("T", ("V", "V"))), ("right", ("T", ("V", "V")))], ("T", ("V", "V")), False),
}
# rule-level functions: python parameter `expression` stands for these Gallina parameters
RULES = {
    "_compute_constraints_of_additive_operator": dict(params=[("fn", "FN"), ("args", ("L", "R"))]),
    "_compute_constraints_of_multiplicative_operator": dict(params=[("args", ("L", "R"))]),
    "_compute_constraints_of_maximum_function": dict(params=[("args", ("L", "R"))]),
    "_compute_constraints_of_choice_operator": dict(params=[("cond", "CB"), ("if_true", "R"), ("if_false", "R")], choice=True),
}
ORDER = ["_is_infinite", "_sign", "_add", "_sub", "_mul", "_max", "_min", "_greatest_common_divisor",
         "_shared_modular_value"] + list(RULES)
FIELDS = ["minimum_value", "maximum_value", "modulus", "modular_value"]
NOOPS = [
    "for <x> in <args>: assert <x>.type.integer.<field>[, msg]      (protobuf field presence; the record always has the field)",
    "expression = ir_data_utils.builder(expression)                   (IR view plumbing)",
    "ir_data_utils.reader(expression)                                  (IR view plumbing, identity)",
    "<operands>[0].type.which_type / expression.type.which_type        (statically \"integer\" in this instantiation; the IndexError of "
    "the subscript inside such a test is not modelled; an if on it keeps its dead branch as dead code)",
]


def gname(py):
    return "g" + py if py.startswith("_") else "g_" + py


def vname(py):
    return "v_" + py


def _attr_chain(node):
    """a.b.c -> (base node, ['b','c'])"""
    names = []
    while isinstance(node, ast.Attribute):
        names.append(node.attr)
        node = node.value
    return node, list(reversed(names))


class FnTranslator:
    def __init__(self, fn_name, fdef, known):
        self.fn = fn_name
        self.fdef = fdef
        self.known = known          # already translated helper names
        self.rule = RULES.get(fn_name)
        self.ret_ty = None if self.rule else HELPERS[fn_name][1]
        self.counter = 0

    def bad(self, what, node=None):
        raise Unsupported(self.fn, what, node)

    def fresh(self, base):
        self.counter += 1
        return "%s%d" % (base, self.counter)

    # ---- coercions -------------------------------------------------------------------------
    def coerce(self, e, ty, node=None):
        """Ex of type `ty` (possibly effectful)."""
        if e.ty == ty:
            return e
        if e.ty == "Z" and ty == "V":
            if e.eff:
                x = self.fresh("z")
                return Ex("(%s <- %s;; Some (Fin %s))" % (x, e.term, x), "V", True)
            return Ex("(Fin %s)" % e.term, "V")
        if e.ty == "V" and ty == "Z":
            if e.eff:
                x = self.fresh("w")
                return Ex("(%s <- %s;; py_int %s)" % (x, e.term, x), "Z", True)
            return Ex("(py_int %s)" % e.term, "Z", True)
        if e.ty in ("R", "RI") and ty in ("R", "RI"):
            return Ex(e.term, ty, e.eff)
        if isinstance(ty, tuple) and isinstance(e.ty, tuple) and ty[0] == e.ty[0] == "T" and len(ty[1]) == len(e.ty[1]):
            if e.parts and not e.eff:
                return self.mk_tuple([self.coerce(p, t, node) for p, t in zip(e.parts, ty[1])])
            names = [self.fresh("u") for _ in ty[1]]
            inner = self.mk_tuple([self.coerce(Ex(nm, t0), t1, node) for nm, t0, t1 in zip(names, e.ty[1], ty[1])])
            body = "let '(%s) := %s in %s" % (", ".join(names), "%s", inner.term if inner.eff else "Some %s" % inner.term)
            if e.eff:
                p = self.fresh("p")
                return Ex("(%s <- %s;; %s)" % (p, e.term, body % p), ty, True)
            return Ex("(%s)" % (body % e.term), ty, True)
        if isinstance(ty, tuple) and isinstance(e.ty, tuple) and ty[0] == e.ty[0] == "L":
            if e.ty[1] is None:
                return Ex(e.term, ty, e.eff)
            if e.parts is not None:
                return self.mk_list([self.coerce(p, ty[1], node) for p in e.parts])
        self.bad("cannot use a value of type %r where %r is needed" % (e.ty, ty), node)

    def bind_all(self, exs, build):
        """build(list of pure terms) -> Ex ; wraps binds for the effectful ones (left to right)."""
        terms, binds = [], []
        for e in exs:
            if e.eff:
                x = self.fresh("t")
                binds.append((x, e.term))
                terms.append(x)
            else:
                terms.append(e.term)
        r = build(terms)
        if not binds:
            return r
        body = r.term if r.eff else "Some %s" % r.term
        for x, t in reversed(binds):
            body = "(%s <- %s;; %s)" % (x, t, body)
        return Ex(body, r.ty, True, None)

    def mk_tuple(self, parts):
        if any(p.term is None for p in parts):      # static strings / parameters: never materialised
            return Ex(None, ("T", tuple(p.ty for p in parts)), parts=parts)
        return self.bind_all(parts, lambda ts: Ex("(%s)" % ", ".join(ts), ("T", tuple(p.ty for p in parts)),
                                                  parts=[Ex(t, p.ty) for t, p in zip(ts, parts)]))

    def mk_list(self, parts):
        if not parts:
            return Ex("[]", ("L", None), parts=[])
        tys = {p.ty for p in parts}
        ty = parts[0].ty if len(tys) == 1 else "V" if tys <= {"Z", "V"} else None
        if ty is None:
            self.bad("list of mixed element types %r" % (tys,))
        parts = [self.coerce(p, ty) for p in parts]
        return self.bind_all(parts, lambda ts: Ex("[%s]" % "; ".join(ts), ("L", ty), parts=[Ex(t, ty) for t in ts]))

    # ---- expressions -----------------------------------------------------------------------
    def expr(self, n, env):
        m = getattr(self, "e_" + type(n).__name__, None)
        if m is None:
            self.bad("expression form %s" % type(n).__name__, n)
        return m(n, env)

    def e_Constant(self, n, env):
        v = n.value
        if isinstance(v, bool) or v is None:
            self.bad("constant %r" % (v,), n)
        if isinstance(v, int):
            return Ex("(%d)" % v if v < 0 else "%d" % v, "Z")
        if v == "infinity":
            return Ex("PosInf", "V")
        if v == "-infinity":
            return Ex("NegInf", "V")
        if isinstance(v, str) and v.lstrip("-").isdigit() and str(int(v)) == v:
            return Ex("(Fin %s)" % ("(%s)" % v if v.startswith("-") else v), "V")
        if isinstance(v, str):
            return Ex(None, ("S", v))
        self.bad("constant %r" % (v,), n)

    def e_Name(self, n, env):
        if n.id in env:
            return env[n.id]
        self.bad("name %r is not a local known at this point" % n.id, n)

    def e_Tuple(self, n, env):
        return self.mk_tuple([self.expr(x, env) for x in n.elts])

    def e_List(self, n, env):
        return self.mk_list([self.expr(x, env) for x in n.elts])

    def e_Attribute(self, n, env):
        base, names = _attr_chain(n)
        # ir_data.FunctionMapping.X
        if isinstance(base, ast.Name) and base.id == "ir_data" and len(names) == 2 and names[0] == "FunctionMapping":
            if names[1] in ("ADDITION", "SUBTRACTION"):
                return Ex(names[1], "FN")
            self.bad("FunctionMapping.%s" % names[1], n)
        b = self.plumb(base, env)
        if b.ty == "EXPR":
            if names == ["function", "function"] and "fn" in env["$params"]:
                return Ex("fn", "FN")
            if names == ["function", "args"]:
                if self.rule.get("choice"):
                    ps = [Ex("cond", "CB"), Ex("if_true", "R"), Ex("if_false", "R")]
                    return Ex(None, ("T", ("CB", "R", "R")), parts=ps)
                return Ex("args", ("L", "R"))
            if names == ["type", "which_type"]:
                return Ex(None, ("S", "integer"))
            if len(names) == 3 and names[:2] == ["type", "integer"] and names[2] in FIELDS:
                key = "$res." + names[2]
                if key not in env:
                    self.bad("expression.type.integer.%s read before it is assigned" % names[2], n)
                return env[key]
            self.bad("attribute path expression.%s" % ".".join(names), n)
        if b.ty == "R":
            if names == ["type", "integer"]:
                return Ex(b.term, "RI", b.eff)
            if names == ["type", "which_type"]:
                return Ex(None, ("S", "integer"))
            if names == ["type"]:
                return Ex(b.term, ("TYPE",), b.eff)
            if len(names) == 3 and names[:2] == ["type", "integer"] and names[2] in FIELDS:
                return self.field(b, names[2])
            self.bad("attribute path .%s of an operand" % ".".join(names), n)
        if b.ty == "RI":
            if len(names) == 1 and names[0] in FIELDS:
                return self.field(b, names[0])
            self.bad("attribute path .%s of an integer type record" % ".".join(names), n)
        if b.ty == "CB":
            if names == ["type", "boolean", "value"]:
                return Ex(b.term, "B", True)     # None when the field is absent
            self.bad("attribute path .%s of the condition" % ".".join(names), n)
        self.bad("attribute access .%s on a value of type %r" % (".".join(names), b.ty), n)

    def field(self, b, f):
        if b.eff:
            x = self.fresh("r")
            return Ex("(%s <- %s;; Some (g_%s %s))" % (x, b.term, f, x), "V", True)
        return Ex("(g_%s %s)" % (f, b.term), "V")

    def plumb(self, base, env):
        """base object of an attribute chain: a local, `expression`, or ir_data_utils.reader/builder(expression)"""
        if isinstance(base, ast.Call) and isinstance(base.func, ast.Attribute):
            fb, fnames = _attr_chain(base.func)
            if isinstance(fb, ast.Name) and fb.id == "ir_data_utils" and fnames in (["reader"], ["builder"]) \
                    and len(base.args) == 1 and not base.keywords:
                return self.plumb(base.args[0], env)
        if isinstance(base, ast.Name) or isinstance(base, ast.Subscript):
            return self.expr(base, env)
        self.bad("base of an attribute chain: %s" % type(base).__name__, base)

    def e_Subscript(self, n, env):
        v = self.expr(n.value, env)
        s = n.slice
        if isinstance(v.ty, tuple) and v.ty[0] == "DICT":
            k = self.expr(s, env)
            if k.ty != "FN" or k.eff:
                self.bad("dict subscript with a key of type %r" % (k.ty,), n)
            table = v.parts
            arms = []
            for c in ("ADDITION", "SUBTRACTION"):
                if c not in table:
                    self.bad("dict of functions lacks the key %s" % c, n)
                arms.append("%s => %s" % (c, table[c]))
            return Ex("(match %s with %s end)" % (k.term, " | ".join(arms)), ("F", v.ty[1]))
        if isinstance(v.ty, tuple) and v.ty[0] == "L":
            if isinstance(s, ast.Constant) and isinstance(s.value, int) and not isinstance(s.value, bool) and s.value >= 0:
                if v.eff:
                    self.bad("subscript of an effectful list", n)
                return Ex("(py_nth %s %d)" % (v.term, s.value), v.ty[1], True)
            if isinstance(s, ast.Slice) and s.upper is None and s.step is None and isinstance(s.lower, ast.Constant) \
                    and s.lower.value == 1 and not v.eff:
                return Ex("(tl %s)" % v.term, v.ty)
            self.bad("list subscript form", n)
        self.bad("subscript on a value of type %r" % (v.ty,), n)

    def e_Dict(self, n, env):
        table, sig = {}, None
        for k, val in zip(n.keys, n.values):
            ke = self.expr(k, env)
            if ke.ty != "FN":
                self.bad("dict key of type %r" % (ke.ty,), n)
            if not (isinstance(val, ast.Name) and val.id in self.known and val.id in HELPERS):
                self.bad("dict value that is not a translated helper function", n)
            s = (tuple(t for _, t in HELPERS[val.id][0]), HELPERS[val.id][1])
            if sig is not None and s != sig:
                self.bad("dict of functions with different signatures", n)
            sig = s
            table[ke.term] = gname(val.id)
        return Ex(None, ("DICT", sig), parts=table)

    def e_UnaryOp(self, n, env):
        a = self.expr(n.operand, env)
        if isinstance(n.op, ast.USub):
            a = self.coerce(a, "Z", n)
            return self.bind_all([a], lambda ts: Ex("(- %s)" % ts[0], "Z"))
        if isinstance(n.op, ast.Not):
            if a.ty != "B":
                self.bad("not applied to a value of type %r" % (a.ty,), n)
            return self.bind_all([a], lambda ts: Ex("(negb %s)" % ts[0], "B"))
        self.bad("unary operator %s" % type(n.op).__name__, n)

    def e_BinOp(self, n, env):
        a = self.coerce(self.expr(n.left, env), "Z", n)
        b = self.coerce(self.expr(n.right, env), "Z", n)
        op = type(n.op).__name__
        if op in ("Add", "Sub", "Mult"):
            sym = {"Add": "+", "Sub": "-", "Mult": "*"}[op]
            return self.bind_all([a, b], lambda ts: Ex("(%s %s %s)" % (ts[0], sym, ts[1]), "Z"))
        if op in ("Mod", "FloorDiv"):
            f = {"Mod": "py_mod", "FloorDiv": "py_floordiv"}[op]
            return self.bind_all([a, b], lambda ts: Ex("(%s %s %s)" % (f, ts[0], ts[1]), "Z", True))
        self.bad("binary operator %s" % op, n)

    def e_BoolOp(self, n, env):
        vals = [self.expr(v, env) for v in n.values]
        for v in vals:
            if v.ty != "B":
                self.bad("and/or on a value of type %r (truthiness is not modelled)" % (v.ty,), n)
        is_or = isinstance(n.op, ast.Or)
        acc = vals[-1]
        for v in reversed(vals[:-1]):
            if not v.eff and not acc.eff:
                acc = Ex("(%s %s %s)" % (v.term, "||" if is_or else "&&", acc.term), "B")
            else:
                x = self.fresh("c")
                rest = acc.term if acc.eff else "Some %s" % acc.term
                short = "Some true" if is_or else "Some false"
                body = "(if %s then %s else %s)" % ((x, short, rest) if is_or else (x, rest, short))
                acc = Ex("(%s <- %s;; %s)" % (x, v.term if v.eff else "Some %s" % v.term, body), "B", True)
        return acc

    def e_Compare(self, n, env):
        operands = [self.expr(x, env) for x in [n.left] + n.comparators]
        if len(operands) > 2 and any(o.eff for o in operands):
            self.bad("chained comparison of effectful operands", n)
        outs = []
        for i, op in enumerate(n.ops):
            outs.append(self.compare1(op, operands[i], operands[i + 1], n))
        acc = outs[-1]
        for o in reversed(outs[:-1]):
            if o.eff or acc.eff:
                self.bad("chained comparison of effectful operands", n)
            acc = Ex("(%s && %s)" % (o.term, acc.term), "B")
        return acc

    def compare1(self, op, a, b, n):
        o = type(op).__name__
        sa = isinstance(a.ty, tuple) and a.ty[0] == "S"
        sb = isinstance(b.ty, tuple) and b.ty[0] == "S"
        if o in ("Eq", "NotEq"):
            if sa and sb:
                r = (a.ty[1] == b.ty[1]) == (o == "Eq")
                return Ex("true" if r else "false", "B", parts="STATIC")
            if sa or sb:
                self.bad("comparison with the string %r" % ((a.ty if sa else b.ty)[1],), n)
            if a.ty == "FN" and b.ty == "FN":
                t = "(gfn_eqb %s %s)" % (a.term, b.term)
                return Ex(t if o == "Eq" else "(negb %s)" % t, "B")
            if a.ty == "Z" and b.ty == "Z":
                f = "Z.eqb"
            elif a.ty in ("Z", "V") and b.ty in ("Z", "V"):
                a, b, f = self.coerce(a, "V"), self.coerce(b, "V"), "ext_eqb"
            else:
                self.bad("== between values of types %r and %r" % (a.ty, b.ty), n)
            return self.bind_all([a, b], lambda ts: Ex(("(%s %s %s)" if o == "Eq" else "(negb (%s %s %s))") % (f, ts[0], ts[1]), "B"))
        if o in ("In", "NotIn"):
            if not (isinstance(b.ty, tuple) and b.ty[0] == "T" and b.parts):
                self.bad("`in` whose right side is not a literal tuple", n)
            if sa:
                if not all(isinstance(p.ty, tuple) and p.ty[0] == "S" for p in b.parts):
                    self.bad("`in` of a string in a tuple of non-strings", n)
                r = (a.ty[1] in [p.ty[1] for p in b.parts]) == (o == "In")
                return Ex("true" if r else "false", "B", parts="STATIC")
            if a.ty not in ("Z", "V") or a.eff or any(p.ty not in ("Z", "V") or p.eff for p in b.parts):
                self.bad("`in` on values of type %r" % (a.ty,), n)
            a = self.coerce(a, "V")
            t = "(%s)" % " || ".join("ext_eqb %s %s" % (a.term, self.coerce(p, "V").term) for p in b.parts)
            return Ex(t if o == "In" else "(negb %s)" % t, "B")
        if o in ("Gt", "GtE", "Lt", "LtE"):
            if sa or sb:
                self.bad("ordering comparison with a string", n)
            a, b = self.coerce(a, "Z", n), self.coerce(b, "Z", n)
            pat = {"Gt": "(%(b)s <? %(a)s)", "GtE": "(%(b)s <=? %(a)s)", "Lt": "(%(a)s <? %(b)s)", "LtE": "(%(a)s <=? %(b)s)"}[o]
            return self.bind_all([a, b], lambda ts: Ex(pat % dict(a=ts[0], b=ts[1]), "B"))
        self.bad("comparison operator %s" % o, n)

    def e_IfExp(self, n, env):
        c = self.expr(n.test, env)
        if c.ty != "B":
            self.bad("conditional expression on a value of type %r" % (c.ty,), n)
        a, b = self.expr(n.body, env), self.expr(n.orelse, env)
        if a.ty != b.ty:
            if {a.ty, b.ty} <= {"Z", "V"}:
                a, b = self.coerce(a, "V"), self.coerce(b, "V")
            else:
                self.bad("conditional expression with branches of types %r / %r" % (a.ty, b.ty), n)
        if a.eff or b.eff:
            ta = a.term if a.eff else "Some %s" % a.term
            tb = b.term if b.eff else "Some %s" % b.term
            inner = lambda ct: Ex("(if %s then %s else %s)" % (ct, ta, tb), a.ty, True)
        else:
            inner = lambda ct: Ex("(if %s then %s else %s)" % (ct, a.term, b.term), a.ty)
        return self.bind_all([c], lambda ts: inner(ts[0]))

    def generator(self, g, env, max_ifs):
        if len(g.generators) != 1:
            self.bad("generator with several `for` clauses", g)
        c = g.generators[0]
        if c.is_async or not isinstance(c.target, ast.Name) or len(c.ifs) > max_ifs:
            self.bad("generator clause form", g)
        it = self.expr(c.iter, env)
        if not (isinstance(it.ty, tuple) and it.ty[0] == "L") or it.eff or it.ty[1] is None:
            self.bad("generator over a value of type %r" % (it.ty,), g)
        x = vname(c.target.id)
        env2 = dict(env)
        env2[c.target.id] = Ex(x, it.ty[1])
        conds = [self.expr(i, env2) for i in c.ifs]
        for cd in conds:
            if cd.ty != "B" or cd.eff:
                self.bad("generator filter that is not a pure boolean", g)
        elt = self.expr(g.elt, env2)
        return it, x, conds, elt

    def e_ListComp(self, n, env):
        it, x, conds, elt = self.generator(n, env, 0)
        if elt.eff:
            self.bad("list comprehension with an effectful element", n)
        if elt.ty == "RI" and elt.term == x:
            return Ex(it.term, ("L", "RI"))
        return Ex("(map (fun %s => %s) %s)" % (x, elt.term, it.term), ("L", elt.ty))

    def e_Call(self, n, env):
        if n.keywords:
            self.bad("call with keyword arguments", n)
        f = n.func
        if isinstance(f, ast.Attribute) and f.attr == "has_field" and len(n.args) == 1 and isinstance(n.args[0], ast.Constant) \
                and n.args[0].value == "value":
            base, names = _attr_chain(f)
            b = self.plumb(base, env)
            if b.ty == "CB" and names == ["type", "boolean", "has_field"] and not b.eff:
                return Ex("(match %s with Some _ => true | None => false end)" % b.term, "B")
            self.bad("has_field on something that is not <condition>.type.boolean", n)
        if isinstance(f, ast.Name):
            name = f.id
            if name in ("any", "all") and len(n.args) == 1 and isinstance(n.args[0], ast.GeneratorExp):
                it, x, conds, elt = self.generator(n.args[0], env, 0)
                if elt.ty != "B" or elt.eff:
                    self.bad("%s() over elements that are not pure booleans" % name, n)
                return Ex("(%s (fun %s => %s) %s)" % ("existsb" if name == "any" else "forallb", x, elt.term, it.term), "B")
            if name in ("max", "min") and len(n.args) == 1 and isinstance(n.args[0], ast.GeneratorExp):
                it, x, conds, elt = self.generator(n.args[0], env, 1)
                elt = self.coerce(elt, "Z", n)
                src = it.term if not conds else "(filter (fun %s => %s) %s)" % (x, conds[0].term, it.term)
                body = elt.term if elt.eff else "Some %s" % elt.term
                xs = self.fresh("xs")
                return Ex("(%s <- py_mapM (fun %s => %s) %s;; py_%s_ints %s)" % (xs, x, body, src, name, xs), "Z", True)
            args = [self.expr(a, env) for a in n.args]
            if name == "int" and len(args) == 1:
                return self.coerce(args[0], "Z", n)
            if name == "str" and len(args) == 1:
                if args[0].ty not in ("Z", "V"):
                    self.bad("str() of a value of type %r" % (args[0].ty,), n)
                return self.coerce(args[0], "V", n)
            if name == "abs" and len(args) == 1:
                a = self.coerce(args[0], "Z", n)
                return self.bind_all([a], lambda ts: Ex("(Z.abs %s)" % ts[0], "Z"))
            if name == "_math_gcd" and len(args) == 2:
                a, b = self.coerce(args[0], "Z", n), self.coerce(args[1], "Z", n)
                return self.bind_all([a, b], lambda ts: Ex("(Z.gcd %s %s)" % (ts[0], ts[1]), "Z"))
            if name in HELPERS:
                if name not in self.known:
                    self.bad("call of %s, which was not translated" % name, n)
                params, rty, pure = HELPERS[name]
                return self.call(gname(name), [t for _, t in params], rty, not pure, args, n)
            if name in env and isinstance(env[name].ty, tuple) and env[name].ty[0] == "F":
                ptys, rty = env[name].ty[1]
                return self.call(env[name].term, list(ptys), rty, True, args, n)
            self.bad("call of %s()" % name, n)
        self.bad("call of a non-name callee", n)

    def call(self, fterm, ptys, rty, eff, args, n):
        if len(args) != len(ptys):
            self.bad("call of %s with %d arguments" % (fterm, len(args)), n)
        args = [self.coerce(a, t, n) for a, t in zip(args, ptys)]
        return self.bind_all(args, lambda ts: Ex("(%s %s)" % (fterm, " ".join(ts)), rty, eff))

    # ---- statements ------------------------------------------------------------------------
    def terminates(self, stmts):
        if not stmts:
            return False
        s = stmts[-1]
        if isinstance(s, ast.Return):
            return True
        if isinstance(s, ast.If):
            return self.terminates(s.body) and self.terminates(s.orelse)
        if isinstance(s, ast.Assert) and isinstance(s.test, ast.Constant) and s.test.value is False:
            return True
        return False

    def assigned(self, stmts):
        out = []

        def tgt(t):
            if isinstance(t, ast.Name):
                out.append(t.id)
            elif isinstance(t, (ast.Tuple, ast.List)):
                for e in t.elts:
                    tgt(e)
            elif isinstance(t, ast.Attribute):
                base, names = _attr_chain(t)
                if isinstance(base, ast.Name) and base.id == "expression" and len(names) == 3:
                    out.append("$res." + names[2])
                else:
                    self.bad("assignment target", t)
            else:
                self.bad("assignment target", t)

        for s in stmts:
            if isinstance(s, ast.Assign):
                for t in s.targets:
                    tgt(t)
            elif isinstance(s, ast.AugAssign):
                tgt(s.target)
            elif isinstance(s, ast.If):
                out += self.assigned(s.body) + self.assigned(s.orelse)
            elif isinstance(s, ast.For):
                out += self.assigned(s.body)
            elif isinstance(s, ast.Expr) and isinstance(s.value, ast.Call) and isinstance(s.value.func, ast.Attribute):
                c = s.value
                if c.func.attr == "append" and isinstance(c.func.value, ast.Name):
                    out.append(c.func.value.id)
                elif c.func.attr == "CopyFrom":
                    out += ["$res." + f for f in FIELDS]
        seen, res = set(), []
        for x in out:
            if x not in seen:
                seen.add(x)
                res.append(x)
        return res

    def cname(self, key):
        return "res_" + key[5:] if key.startswith("$res.") else vname(key)

    def bind(self, name, e, rest):
        """text: bind coq variable `name` to Ex e, then rest"""
        if e.eff:
            return "%s <- %s;;\n%s" % (name, e.term, rest)
        return "let %s := %s in\n%s" % (name, e.term, rest)

    def block(self, stmts, env, k):
        if not stmts:
            return k(env)
        s, rest = stmts[0], stmts[1:]
        m = getattr(self, "s_" + type(s).__name__, None)
        if m is None:
            self.bad("statement form %s" % type(s).__name__, s)
        return m(s, rest, env, k)

    def s_Expr(self, s, rest, env, k):
        v = s.value
        if isinstance(v, ast.Constant) and isinstance(v.value, str):
            return self.block(rest, env, k)       # docstring
        if isinstance(v, ast.Call) and isinstance(v.func, ast.Attribute) and not v.keywords and len(v.args) == 1:
            if v.func.attr == "append" and isinstance(v.func.value, ast.Name):
                nm = v.func.value.id
                l = self.expr(v.func.value, env)
                x = self.expr(v.args[0], env)
                if not (isinstance(l.ty, tuple) and l.ty[0] == "L") or l.eff:
                    self.bad("append to a value of type %r" % (l.ty,), s)
                ety = l.ty[1] or x.ty
                x = self.coerce(x, ety, s)
                env2 = dict(env)
                new = self.bind_all([x], lambda ts: Ex("(%s ++ [%s])" % (l.term, ts[0]), ("L", ety)))
                env2[nm] = Ex(vname(nm), ("L", ety))
                return self.bind(vname(nm), new, self.block(rest, env2, k))
            base, names = _attr_chain(v.func)
            if names == ["type", "CopyFrom"] and isinstance(base, ast.Name) and base.id == "expression":
                src = self.expr(v.args[0], env)
                if src.ty != ("TYPE",) or src.eff:
                    self.bad("CopyFrom of something that is not <operand>.type", s)
                env2 = dict(env)
                out = []
                for f in FIELDS:
                    env2["$res." + f] = Ex("res_" + f, "V")
                    out.append(("res_" + f, Ex("(g_%s %s)" % (f, src.term), "V")))
                body = self.block(rest, env2, k)
                for nm, e in reversed(out):
                    body = self.bind(nm, e, body)
                return body
        self.bad("expression statement", s)

    def s_Return(self, s, rest, env, k):
        if rest:
            self.bad("statements after return", s)
        if self.rule:
            if s.value is not None:
                self.bad("return with a value in a rule function", s)
            return self.finish_rule(env, s)
        if s.value is None:
            self.bad("bare return in a helper", s)
        e = self.coerce(self.expr(s.value, env), self.ret_ty, s)
        return e.term if e.eff else "Some %s" % e.term

    def finish_rule(self, env, node=None):
        missing = [f for f in FIELDS if "$res." + f not in env]
        if missing:
            self.bad("the function can finish without assigning expression.type.integer.%s" % ", ".join(missing), node)
        return "Some (mk_grec %s)" % " ".join(env["$res." + f].term for f in FIELDS)

    def s_Assert(self, s, rest, env, k):
        c = self.expr(s.test, env)          # the message is not evaluated unless the assert fails
        if c.ty != "B":
            self.bad("assert of a value of type %r (truthiness is not modelled)" % (c.ty,), s)
        body = self.block(rest, env, k)
        if c.eff:
            x = self.fresh("c")
            return "%s <- %s;;\nif %s then\n%s\nelse None" % (x, c.term, x, body)
        return "if %s then\n%s\nelse None" % (c.term, body)

    def s_AugAssign(self, s, rest, env, k):
        if not isinstance(s.target, ast.Name):
            self.bad("augmented assignment target", s)
        new = ast.Assign(targets=[s.target], value=ast.BinOp(left=ast.Name(id=s.target.id, ctx=ast.Load()), op=s.op, right=s.value))
        ast.copy_location(new, s)
        ast.fix_missing_locations(new)
        return self.s_Assign(new, rest, env, k)

    def s_Assign(self, s, rest, env, k):
        if len(s.targets) != 1:
            self.bad("multiple assignment targets", s)
        t = s.targets[0]
        # expression = ir_data_utils.builder(expression)
        if isinstance(t, ast.Name) and t.id == "expression":
            v = s.value
            if isinstance(v, ast.Call) and isinstance(v.func, ast.Attribute) and isinstance(v.func.value, ast.Name) \
                    and v.func.value.id == "ir_data_utils" and v.func.attr == "builder" and len(v.args) == 1 \
                    and isinstance(v.args[0], ast.Name) and v.args[0].id == "expression" and self.rule:
                return self.block(rest, env, k)
            self.bad("assignment to `expression`", s)
        val = self.expr(s.value, env)
        env2 = dict(env)
        if isinstance(t, ast.Name):
            if isinstance(val.ty, tuple) and val.ty[0] in ("DICT",):
                env2[t.id] = val
                return self.block(rest, env2, k)
            if isinstance(val.ty, tuple) and val.ty[0] in ("S", "TYPE"):
                self.bad("assignment of a value of type %r" % (val.ty,), s)
            env2[t.id] = Ex(vname(t.id), val.ty)
            return self.bind(vname(t.id), val, self.block(rest, env2, k))
        if isinstance(t, ast.Attribute):
            base, names = _attr_chain(t)
            if not (self.rule and isinstance(base, ast.Name) and base.id == "expression" and len(names) == 3
                    and names[:2] == ["type", "integer"] and names[2] in FIELDS):
                self.bad("assignment to an attribute other than expression.type.integer.<field>", s)
            if val.ty not in ("V", "Z"):
                self.bad("value of type %r assigned to expression.type.integer.%s" % (val.ty, names[2]), s)
            if val.ty == "Z":
                self.bad("an int (not a string) assigned to expression.type.integer.%s" % names[2], s)
            key = "$res." + names[2]
            env2[key] = Ex("res_" + names[2], "V")
            return self.bind("res_" + names[2], val, self.block(rest, env2, k))
        if isinstance(t, (ast.Tuple, ast.List)) and all(isinstance(e, ast.Name) for e in t.elts):
            names = [e.id for e in t.elts]
            if len(set(names)) != len(names):
                self.bad("repeated name in a tuple target", s)
            if isinstance(val.ty, tuple) and val.ty[0] == "T":
                if len(val.ty[1]) != len(names):
                    self.bad("tuple unpacking of %d values into %d names" % (len(val.ty[1]), len(names)), s)
                for nm, ty in zip(names, val.ty[1]):
                    env2[nm] = Ex(vname(nm), ty)
                body = self.block(rest, env2, k)
                if val.parts and not val.eff and val.term is None:
                    # static tuple of parameters
                    for nm, p in reversed(list(zip(names, val.parts))):
                        body = self.bind(vname(nm), p, body)
                    return body
                pat = "'(%s)" % ", ".join(vname(nm) for nm in names)
                if val.eff:
                    p = self.fresh("p")
                    return "%s <- %s;;\nlet %s := %s in\n%s" % (p, val.term, pat, p, body)
                return "let %s := %s in\n%s" % (pat, val.term, body)
            if isinstance(val.ty, tuple) and val.ty[0] == "L" and val.ty[1] is not None and not val.eff:
                for nm in names:
                    env2[nm] = Ex(vname(nm), val.ty[1])
                body = self.block(rest, env2, k)
                return "match %s with\n| [%s] =>\n%s\n| _ => None\nend" % (val.term, "; ".join(vname(nm) for nm in names), body)
            self.bad("unpacking of a value of type %r" % (val.ty,), s)
        self.bad("assignment target form", s)

    def s_If(self, s, rest, env, k):
        c = self.expr(s.test, env)
        if c.ty != "B":
            self.bad("if on a value of type %r (truthiness is not modelled)" % (c.ty,), s)
        if c.parts == "STATIC":
            # a test on <operand>.type.which_type, which is "integer" by the instantiation of this translation:
            # only the live branch continues; the other one is still translated (shape-checked) and kept as dead code
            live, deadb = (s.body, s.orelse) if c.term == "true" else (s.orelse, s.body)
            other = self.block(list(deadb), env, lambda e: "None") if deadb else "None"
            body = self.block(list(live) + list(rest), env, k)
            return "if %s then\n%s\nelse\n%s" % ((c.term, body, other) if c.term == "true" else (c.term, other, body))
        tt, te = self.terminates(s.body), self.terminates(s.orelse)

        def dead(_env):
            self.bad("control reaches the end of a branch that was classified as returning", s)

        def wrap(then, els):
            if c.eff:
                x = self.fresh("c")
                return "%s <- %s;;\nif %s then\n%s\nelse\n%s" % (x, c.term, x, then, els)
            return "if %s then\n%s\nelse\n%s" % (c.term, then, els)

        if tt and te:
            if rest:
                self.bad("statements after an if whose branches both return", s)
            return wrap(self.block(s.body, env, dead), self.block(s.orelse, env, dead))
        if tt:
            return wrap(self.block(s.body, env, dead), self.block(list(s.orelse) + list(rest), env, k))
        if te:
            return wrap(self.block(list(s.body) + list(rest), env, k), self.block(s.orelse, env, dead))
        # neither branch returns: join the assigned variables
        W = self.assigned(list(s.body) + list(s.orelse))
        if not W:
            self.bad("if without effect", s)
        ends = []

        def probe(e):
            ends.append(e)
            return "PROBE"

        self.block(s.body, env, probe)
        self.block(s.orelse, env, probe)
        if len(ends) != 2:
            self.bad("a branch of a joining if completes in several places", s)
        tys = {}
        for w in W:
            if w not in ends[0] or w not in ends[1]:
                self.bad("%s is assigned in only one branch of an if and not defined before it" % w, s)
            a, b = ends[0][w].ty, ends[1][w].ty
            if a == b:
                tys[w] = a
            elif {a, b} <= {"Z", "V"}:
                tys[w] = "V"
            else:
                self.bad("%s has types %r / %r at the end of the two branches" % (w, a, b), s)

        def out(e):
            parts = [self.coerce(e[w], tys[w], s) for w in W]
            return "Some (%s)" % ", ".join(p.term for p in parts) if len(parts) > 1 else "Some %s" % parts[0].term

        then = self.block(s.body, env, out)
        els = self.block(s.orelse, env, out)
        env2 = dict(env)
        for w in W:
            env2[w] = Ex(self.cname(w), tys[w])
        body = self.block(rest, env2, k)
        j = self.fresh("j")
        pat = "let '(%s) := %s in\n" % (", ".join(self.cname(w) for w in W), j) if len(W) > 1 else "let %s := %s in\n" % (self.cname(W[0]), j)
        return "%s <- (%s);;\n%s%s" % (j, wrap(then, els), pat, body)

    def s_For(self, s, rest, env, k):
        if s.orelse or not isinstance(s.target, ast.Name):
            self.bad("for loop form", s)
        it = self.expr(s.iter, env)
        if not (isinstance(it.ty, tuple) and it.ty[0] == "L" and it.ty[1] is not None) or it.eff:
            self.bad("for over a value of type %r" % (it.ty,), s)
        # recognised no-op: presence asserts on every operand
        if all(isinstance(b, ast.Assert) and isinstance(b.test, ast.Attribute) for b in s.body):
            for b in s.body:
                base, names = _attr_chain(b.test)
                if not (isinstance(base, ast.Name) and base.id == s.target.id and it.ty[1] == "R"
                        and len(names) == 3 and names[:2] == ["type", "integer"] and names[2] in FIELDS):
                    self.bad("assert of the truthiness of something that is not <operand>.type.integer.<field>", b)
            return self.block(rest, env, k)
        W = [w for w in self.assigned(s.body) if w in env]
        if not W or any(w.startswith("$res.") for w in self.assigned(s.body)):
            self.bad("for loop without loop-carried locals (or assigning the result record)", s)
        st = self.fresh("st")
        x = vname(s.target.id)
        env_in = dict(env)
        env_in[s.target.id] = Ex(x, it.ty[1])
        for w in W:
            env_in[w] = Ex(vname(w), env[w].ty)
        tys = {}

        def out(e):
            parts = []
            for w in W:
                want = env[w].ty
                if isinstance(want, tuple) and want[0] == "L" and want[1] is None:
                    want = e[w].ty
                tys[w] = want
                parts.append(self.coerce(e[w], want, s))
            return "Some (%s)" % ", ".join(p.term for p in parts) if len(parts) > 1 else "Some %s" % parts[0].term

        body = self.block(s.body, env_in, out)
        pat = "let '(%s) := %s in\n" % (", ".join(vname(w) for w in W), st) if len(W) > 1 else "let %s := %s in\n" % (vname(W[0]), st)
        init = "(%s)" % ", ".join(env[w].term for w in W) if len(W) > 1 else env[W[0]].term
        env2 = dict(env)
        for w in W:
            env2[w] = Ex(vname(w), tys.get(w, env[w].ty))
        after = self.block(rest, env2, k)
        return "%s <- py_foldM (fun %s %s =>\n%s%s) %s %s;;\n%s%s" % (st, st, x, pat, body, it.term, init, pat, after)

    # ---- a whole function ------------------------------------------------------------------
    def translate(self):
        f = self.fdef
        a = f.args
        if a.vararg or a.kwarg or a.kwonlyargs or a.defaults or a.posonlyargs or f.decorator_list:
            self.bad("function signature form")
        pynames = [x.arg for x in a.args]
        env = {}
        if self.rule:
            if pynames != ["expression"]:
                self.bad("parameters %r (expected ['expression'])" % (pynames,))
            env["expression"] = Ex(None, "EXPR")
            env["$params"] = [p for p, _ in self.rule["params"]]
            params = self.rule["params"]
            body = self.block(list(f.body), env, lambda e: self.finish_rule(e, f))
            sig = " ".join("(%s : %s)" % (p, coq_ty(t)) for p, t in params)
            return "Definition %s %s : option grec :=\n%s." % (gname(self.fn), sig, body)
        params, rty, pure = HELPERS[self.fn]
        if pynames != [p for p, _ in params]:
            self.bad("parameters %r (expected %r)" % (pynames, [p for p, _ in params]))
        for p, t in params:
            env[p] = Ex(vname(p), t)
        sig = " ".join("(%s : %s)" % (vname(p), coq_ty(t)) for p, t in params)
        if pure:
            stmts = [s for s in f.body if not (isinstance(s, ast.Expr) and isinstance(s.value, ast.Constant) and isinstance(s.value.value, str))]
            if len(stmts) != 1 or not isinstance(stmts[0], ast.Return) or stmts[0].value is None:
                self.bad("body of a helper used as a pure predicate is not a single return")
            e = self.expr(stmts[0].value, env)
            if e.eff or e.ty != rty:
                self.bad("helper used as a pure predicate has an effectful body or the wrong type")
            return "Definition %s %s : %s :=\n%s." % (gname(self.fn), sig, coq_ty(rty), e.term)

        def falls_off(e):
            self.bad("control can reach the end of the function without a return")

        body = self.block(list(f.body), env, falls_off)
        return "Definition %s %s : option %s :=\n%s." % (gname(self.fn), sig, coq_ty(rty), body)


def load_functions(repo):
    path = os.path.join(repo, SRC)
    src = open(path, encoding="utf-8").read()
    tree = ast.parse(src, path)
    fns, dups = {}, set()
    for node in tree.body:
        if isinstance(node, ast.FunctionDef):
            if node.name in fns:
                dups.add(node.name)
            fns[node.name] = node
    # _math_gcd must be math.gcd (or its documented fallback)
    ok_gcd = False
    for node in tree.body:
        if isinstance(node, ast.If):
            txt = ast.unparse(node)
            if txt.replace(" ", "").replace("\n", "") == "ifhasattr(math,'gcd'):_math_gcd=math.gcdelse:_math_gcd=fractions.gcd":
                ok_gcd = True
        elif isinstance(node, ast.Assign) and any(isinstance(t, ast.Name) and t.id == "_math_gcd" for t in node.targets):
            ok_gcd = ast.unparse(node.value) == "math.gcd"
    # module-level rebinding of a translated name (e.g. `_mul = something`) is not understood
    rebinds = []
    for node in ast.walk(tree):
        if isinstance(node, (ast.Assign, ast.AugAssign, ast.AnnAssign)):
            tg = node.targets if isinstance(node, ast.Assign) else [node.target]
            for t in tg:
                if isinstance(t, ast.Name) and t.id in ORDER:
                    rebinds.append(t.id)
        if isinstance(node, ast.Global) or isinstance(node, ast.Nonlocal):
            rebinds += list(node.names)
    return fns, dups, ok_gcd, rebinds, src


def translate(repo):
    """-> (definitions {python name: Gallina text}, failures [Unsupported]) in ORDER."""
    fns, dups, ok_gcd, rebinds, src = load_functions(repo)
    defs, fails = {}, []
    known = set()
    for name in ORDER:
        try:
            if name not in fns:
                raise Unsupported(name, "function not found in expression_bounds.py")
            if name in dups or name in rebinds:
                raise Unsupported(name, "function is defined or rebound more than once")
            uses_gcd = any(isinstance(x, ast.Name) and x.id == "_math_gcd" for x in ast.walk(fns[name]))
            if uses_gcd and not ok_gcd:
                raise Unsupported(name, "_math_gcd is not bound to math.gcd in the recognised way")
            for x in ast.walk(fns[name]):
                if isinstance(x, (ast.FunctionDef, ast.Lambda, ast.Try, ast.While, ast.With, ast.Global, ast.Nonlocal, ast.Import,
                                  ast.ImportFrom, ast.Delete, ast.Raise, ast.Yield, ast.Await, ast.NamedExpr, ast.Starred)) and x is not fns[name]:
                    raise Unsupported(name, "construct %s" % type(x).__name__, x)
            defs[name] = FnTranslator(name, fns[name], known).translate()
            known.add(name)
        except Unsupported as ex:
            fails.append(ex)
        except (KeyError, AttributeError, TypeError, IndexError) as ex:   # a shape the translator mishandles: fail closed
            fails.append(Unsupported(name, "internal translator error %r" % (ex,)))
    return defs, fails


HEADER = """(* GENERATED by harness/bounds_x.py from %s — do not edit *)
From Coq Require Import ZArith List Bool Lia ZifyBool.
Import ListNotations.
Require Import EmbossV.Bounds.Model EmbossV.Bounds.GenBridge.
Open Scope Z_scope.
"""


def definitions_file(repo, defs):
    out = [HEADER % os.path.join(repo, SRC)]
    for name in ORDER:
        if name in defs:
            out.append("(* %s *)\n%s\n" % (name, defs[name]))
    return "\n".join(out)



# ---------------------------------------------------------------------------------------------
# equality of each regenerated definition with the hand-written model: statements and FIXED proof scripts
# (tactics and bridge lemmas: coq/theories/Bounds/GenBridge.v)
# ---------------------------------------------------------------------------------------------
EQ_PROOFS = {
    'g_is_infinite': r'''Theorem g_is_infinite_eq : forall a, g_is_infinite a = ext_is_inf a.
Proof. bx_ext. Qed.
''',
    'g_sign': r'''Theorem g_sign_eq : forall a, g_sign a = Some (ext_sign a).
Proof. bx_ext. Qed.
''',
    'g_add': r'''Theorem g_add_eq : forall a b, g_add a b = ext_add a b.
Proof. bx_ext. Qed.
''',
    'g_sub': r'''Theorem g_sub_eq : forall a b, g_sub a b = ext_sub a b.
Proof. bx_ext. Qed.
''',
    'g_mul': r'''Theorem g_mul_eq : forall a b, g_mul a b = Some (ext_mul a b).
Proof. bx_ext. Qed.
''',
    'g_max': r'''Theorem g_max_eq : forall x l, g_max (x :: l) = ext_max_list (x :: l).
Proof. intros. rewrite <- (max_shape_model g_is_infinite g_is_infinite_eq). reflexivity. Qed.
''',
    'g_min': r'''Theorem g_min_eq : forall x l, g_min (x :: l) = ext_min_list (x :: l).
Proof. intros. rewrite <- (min_shape_model g_is_infinite g_is_infinite_eq). reflexivity. Qed.
''',
    'g_greatest_common_divisor': r'''Theorem g_greatest_common_divisor_eq : forall a b, g_greatest_common_divisor a b = gcd_spec a b.
Proof. bx_ext. Qed.
''',
    'g_shared_modular_value': r'''Theorem g_shared_modular_value_eq : forall lm lv rm rv, md_nonneg lm -> md_nonneg rm ->
  g_shared_modular_value (m2e lm, Fin lv) (m2e rm, Fin rv) = option_map sh2g (shared_modular_value lm lv rm rv).
Proof.
  intros lm lv rm rv Hl Hr. unfold g_shared_modular_value, shared_modular_value.
  bx_gcd g_greatest_common_divisor_eq. bx_gcd_cases.
  all: first [solve [bx_fin] | destruct lm, rm; solve [bx_fin]].
Qed.
''',
    'g_compute_constraints_of_additive_operator': r'''Theorem g_compute_constraints_of_additive_operator_eq : forall sub l r, md_nonneg l.(md) -> md_nonneg r.(md) ->
  g_compute_constraints_of_additive_operator (fn_of sub) [a2g l; a2g r] = option_map a2g (aval_additive sub l r).
Proof.
  intros sub [llo lhi lmd lmv] [rlo rhi rmd rmv] Hl Hr. cbn [md] in Hl, Hr.
  unfold g_compute_constraints_of_additive_operator, aval_additive.
  destruct sub; cbn [fn_of gfn_eqb]; bx_gcd g_greatest_common_divisor_eq;
  rewrite ?g_add_eq, ?g_sub_eq; cbn [ext_sub ext_add ext_neg]; bx_gcd_cases;
  repeat match goal with |- context [ext_sub ?a ?b] => destruct (ext_sub a b) end;
  repeat match goal with |- context [ext_add ?a ?b] => destruct (ext_add a b) end;
  bx_fin.
Qed.

Theorem g_compute_constraints_of_additive_operator_on_analysis : forall G a b ia ib x y sub, (forall i, aval_wf (G i)) ->
  analyze G a = Some ia -> analyze G b = Some ib -> as_int ia = Some x -> as_int ib = Some y ->
  g_compute_constraints_of_additive_operator (fn_of sub) [a2g x; a2g y] = option_map a2g (aval_additive sub x y).
Proof.
  intros G a b ia ib x y sub HG Ha Hb Hx Hy. apply g_compute_constraints_of_additive_operator_eq; apply wf_md_nonneg;
    [exact (operand_wf G a ia x HG Ha Hx) | exact (operand_wf G b ib y HG Hb Hy)].
Qed.
''',
    'g_compute_constraints_of_multiplicative_operator': r'''Local Opaque g_greatest_common_divisor.
Theorem g_compute_constraints_of_multiplicative_operator_eq : forall l r, aval_wf l -> aval_wf r ->
  g_compute_constraints_of_multiplicative_operator [a2g l; a2g r] = option_map a2g (aval_mul l r).
Proof.
  intros [llo lhi lmd lmv] [rlo rhi rmd rmv] Hl Hr. unfold aval_wf in Hl, Hr; cbn [md mv] in Hl, Hr.
  unfold g_compute_constraints_of_multiplicative_operator, aval_mul.
  cbn [py_nth nth_error a2g g_minimum_value g_maximum_value g_modulus g_modular_value lo hi md mv].
  rewrite !g_mul_eq. cbn iota. rewrite g_min_eq, g_max_eq.
  destruct (ext_min_list _) as [mn|]; [|reflexivity].
  destruct (ext_max_list _) as [mx|]; [|reflexivity].
  destruct lmd as [lm|], rmd as [rm|]; bx_cbn.
  4: reflexivity.
  2: { destruct (rmv =? 0) eqn:E0; [reflexivity|]. rewrite py_mod_nz by bx_nz. reflexivity. }
  2: { destruct (lmv =? 0) eqn:E0; [reflexivity|]. rewrite py_mod_nz by bx_nz. bx_fin. }
  repeat (bx_gcd g_greatest_common_divisor_eq; bx_gcd_cases; bx_cbn).
  all: repeat (match goal with |- context [if ?c then _ else _] => destruct c eqn:? end; bx_cbn); try reflexivity.
  all: bx_gcd g_greatest_common_divisor_eq;
       repeat match goal with E : gcdx ?a ?b = _ |- context [gcdx ?a ?b] => rewrite E end;
       bx_cbn; rewrite ?Z.mul_1_l; rewrite ?py_mod_nz by bx_nz; try reflexivity.
Qed.

Theorem g_compute_constraints_of_multiplicative_operator_on_analysis : forall G a b ia ib x y, (forall i, aval_wf (G i)) ->
  analyze G a = Some ia -> analyze G b = Some ib -> as_int ia = Some x -> as_int ib = Some y ->
  g_compute_constraints_of_multiplicative_operator [a2g x; a2g y] = option_map a2g (aval_mul x y).
Proof.
  intros G a b ia ib x y HG Ha Hb Hx Hy. apply g_compute_constraints_of_multiplicative_operator_eq;
    [exact (operand_wf G a ia x HG Ha Hx) | exact (operand_wf G b ib y HG Hb Hy)].
Qed.
''',
    'g_compute_constraints_of_choice_operator': r'''Theorem g_compute_constraints_of_choice_operator_eq : forall t f, md_nonneg t.(md) -> md_nonneg f.(md) ->
  g_compute_constraints_of_choice_operator None (a2g t) (a2g f) = option_map a2g (aval_choice t f).
Proof.
  intros [tlo thi tmd tmv] [flo fhi fmd fmv] Ht Hf. cbn [md] in Ht, Hf.
  unfold g_compute_constraints_of_choice_operator, aval_choice. bx_proj.
  rewrite g_min_eq, g_max_eq. bx_proj. rewrite g_shared_modular_value_eq by assumption.
  destruct (shared_modular_value _ _ _ _) as [[m v]|]; reflexivity.
Qed.

Theorem g_compute_constraints_of_choice_operator_const : forall b t f,
  g_compute_constraints_of_choice_operator (Some b) t f = Some (if b then t else f).
Proof. intros [|] [? ? ? ?] [? ? ? ?]; reflexivity. Qed.

Theorem g_compute_constraints_of_choice_operator_on_analysis : forall G a b ia ib x y, (forall i, aval_wf (G i)) ->
  analyze G a = Some ia -> analyze G b = Some ib -> as_int ia = Some x -> as_int ib = Some y ->
  g_compute_constraints_of_choice_operator None (a2g x) (a2g y) = option_map a2g (aval_choice x y).
Proof.
  intros G a b ia ib x y HG Ha Hb Hx Hy. apply g_compute_constraints_of_choice_operator_eq; apply wf_md_nonneg;
    [exact (operand_wf G a ia x HG Ha Hx) | exact (operand_wf G b ib y HG Hb Hy)].
Qed.
''',
    'g_compute_constraints_of_maximum_function': r'''Theorem g_compute_constraints_of_maximum_function_eq : forall args, Forall (fun a => md_nonneg a.(md)) args ->
  (r <- g_compute_constraints_of_maximum_function (map a2g args);; g2a r) = aval_max args.
Proof.
  intros [|a0 rest] Hall; [reflexivity|]. inversion Hall as [|? ? H0 Hrest]; subst.
  destruct a0 as [lo0 hi0 md0 mv0]. cbn [md] in H0.
  unfold g_compute_constraints_of_maximum_function, aval_max. cbn [map].
  rewrite !g_max_eq, map_a2g_lo, map_a2g_hi. bx_proj.
  destruct (ext_eqb _ _).
  - destruct (fold_left ext_max2 (map lo rest) lo0); reflexivity.
  - rewrite (foldM_shared g_shared_modular_value g_shared_modular_value_eq) by assumption.
    destruct (shared_fold md0 mv0 rest) as [[m v]|]; cbn [option_map sh2g fst snd]; [apply g2a_mk|reflexivity].
Qed.

Theorem g_compute_constraints_of_maximum_function_on_analysis : forall G args is avs, (forall i, aval_wf (G i)) ->
  sequence (map (analyze G) args) = Some is -> sequence (map as_int is) = Some avs ->
  (r <- g_compute_constraints_of_maximum_function (map a2g avs);; g2a r) = aval_max avs.
Proof.
  intros G args is avs HG E1 E2. apply g_compute_constraints_of_maximum_function_eq. apply Forall_wf_md_nonneg.
  exact (operands_wf G args is avs HG E1 E2).
Qed.
''',
}


def theorem_names_of(pyname):
    import re
    return re.findall(r"^Theorem\s+(\w+)", EQ_PROOFS[gname(pyname)], re.M)


def equality_file(defs, logical_defs, assum_dir=None):
    """Text of the theorem file for the functions in `defs` (all of ORDER when the translation is complete)."""
    out = ["(* GENERATED by harness/bounds_x.py: each regenerated definition equals the model function of Bounds/Model.v *)",
           "From Coq Require Import ZArith List Bool Lia ZifyBool.", "Import ListNotations.",
           "Require Import EmbossV.Bounds.Model EmbossV.Bounds.GenBridge EmbossV.Bounds.GenBridgeWf.", "Require Import %s." % logical_defs,
           "Open Scope Z_scope.", ""]
    names = []
    for name in ORDER:
        if name in defs:
            out.append(EQ_PROOFS[gname(name)])
            names += theorem_names_of(name)
    if assum_dir:
        for n in names:
            out.append('Redirect "%s" Print Assumptions %s.' % (os.path.join(assum_dir, n), n))
    return "\n".join(out) + "\n", names



# ---------------------------------------------------------------------------------------------
# the check: regenerate, compile, prove; on failure evaluate both sides on a grid and search for a failing input
# ---------------------------------------------------------------------------------------------
LOGICAL = "EmbossVBx"


def _z(n):
    n = int(n)
    return "(%d)" % n if n < 0 else "%d" % n


def _ext(x):
    return {"infinity": "PosInf", "-infinity": "NegInf"}.get(x) or "(Fin %s)" % _z(x)


def _mod(x):
    return "None" if x == "infinity" else "(Some %s)" % _z(x)


def _aval(a):
    return "(mk_aval %s %s %s %s)" % (_ext(a[0]), _ext(a[1]), _mod(a[2]), _z(a[3]))


EXT_GRID = ["-infinity", "infinity", 0, 1, -1, 2, -3, 7, 255, -128, 2**32, -(2**63), 2**64 - 1]
SMALL_EXT = ["-infinity", "infinity", 0, 5, -7, 2**40]
MOD_GRID = ["infinity", 1, 2, 4, 6, 12, 20]
VAL_GRID = [0, 1, 3, 4, 7, 15]

# operands of rule-level grid points: Emboss snippet ({a} = field suffix) or None, and a fallback annotation
# (minimum, maximum, modulus, modular_value); realisable ones are re-read from the real compiler when searching
OPERANDS = [
    ("0", (0, 0, "infinity", 0)), ("1", (1, 1, "infinity", 1)), ("5", (5, 5, "infinity", 5)), ("12", (12, 12, "infinity", 12)),
    ("(0-1)", (-1, -1, "infinity", -1)), ("(0-7)", (-7, -7, "infinity", -7)), ("1099511627776", (2**40, 2**40, "infinity", 2**40)),
    ("u8{a}", (0, 255, 1, 0)), ("s8{a}", (-128, 127, 1, 0)), ("(u8{a}*4+3)", (3, 1023, 4, 3)), ("(s8{a}*6+2)", (-766, 764, 6, 2)),
    ("(u8{a}*12+7)", (7, 3067, 12, 7)), ("(u16{a}*20+15)", (15, 1310715, 20, 15)),
    ("big{a}", ("-infinity", "infinity", 1, 0)), ("$max(big{a}, 5)", (5, "infinity", 1, 0)),
    ("(0-$max(big{a}, 5))", ("-infinity", -5, 1, 0)), ("(big{a}*4+1)", ("-infinity", "infinity", 4, 1)),
    ("$max(big{a}, 0)", (0, "infinity", 1, 0)),
    (None, ("-infinity", 5, 1, 0)), (None, (-3, "infinity", 4, 1)), (None, (0, 0, "infinity", 0)), (None, (-6, 9, 3, 0)),
]
MODULE = ('[$default byte_order: "LittleEndian"]\nstruct Foo:\n  0 [+1]  UInt  na\n  1 [+1]  UInt  nb\n  2 [+1]  UInt  u8a\n'
          '  3 [+1]  UInt  u8b\n  4 [+1]  Int  s8a\n  5 [+1]  Int  s8b\n  6 [+2]  UInt  u16a\n  8 [+2]  UInt  u16b\n'
          '  10 [+1]  bits:\n    0 [+1]  Flag  fl\n  11 [+na]  UInt  biga\n  300 [+nb]  UInt  bigb\n  let v = %s\n')


def grids():
    """{python function name: dict(ty, lhs, rhs, eqb, points=[(coq term of the argument tuple, python object)])}"""
    g = {}
    e1 = [(_ext(a), (a,)) for a in EXT_GRID]
    e2 = [("(%s, %s)" % (_ext(a), _ext(b)), (a, b)) for a in EXT_GRID for b in EXT_GRID]
    g["_is_infinite"] = dict(ty="ext", lhs="g_is_infinite x", rhs="ext_is_inf x", eqb="Bool.eqb", points=e1)
    g["_sign"] = dict(ty="ext", lhs="g_sign x", rhs="Some (ext_sign x)", eqb="bx_opt Z.eqb", points=e1)
    for n, m in (("_add", "ext_add (fst x) (snd x)"), ("_sub", "ext_sub (fst x) (snd x)"), ("_mul", "Some (ext_mul (fst x) (snd x))"),
                 ("_greatest_common_divisor", "gcd_spec (fst x) (snd x)")):
        g[n] = dict(ty="(ext * ext)", lhs="%s (fst x) (snd x)" % gname(n), rhs=m, eqb="bx_opt ext_eqb", points=e2)
    ls = [[a] for a in SMALL_EXT] + [[a, b] for a in SMALL_EXT for b in SMALL_EXT] + \
         [[a, b, c] for a in SMALL_EXT for b in SMALL_EXT for c in SMALL_EXT]
    lp = [("[%s]" % "; ".join(_ext(a) for a in l), (l,)) for l in ls]
    g["_max"] = dict(ty="(list ext)", lhs="g_max x", rhs="ext_max_list x", eqb="bx_opt ext_eqb", points=lp)
    g["_min"] = dict(ty="(list ext)", lhs="g_min x", rhs="ext_min_list x", eqb="bx_opt ext_eqb", points=lp)
    sp = [("(%s, %s, %s, %s)" % (_mod(lm), _z(lv), _mod(rm), _z(rv)), (lm, lv, rm, rv))
          for lm in MOD_GRID for lv in VAL_GRID for rm in MOD_GRID for rv in VAL_GRID]
    g["_shared_modular_value"] = dict(
        ty="(modulus * Z * modulus * Z)",
        lhs="let '(lm, lv, rm, rv) := x in g_shared_modular_value (m2e lm, Fin lv) (m2e rm, Fin rv)",
        rhs="let '(lm, lv, rm, rv) := x in option_map sh2g (shared_modular_value lm lv rm rv)", eqb="bx_opt bx_pair_eqb", points=sp)
    n = len(OPERANDS)
    pairs = [(i, j) for i in range(n) for j in range(n)]
    pp = lambda: [("(%s, %s)" % (_aval(OPERANDS[i][1]), _aval(OPERANDS[j][1])), (i, j)) for i, j in pairs]
    for sub in (False, True):
        g["_compute_constraints_of_additive_operator" + (":sub" if sub else ":add")] = dict(
            ty="(aval * aval)", lhs="g_compute_constraints_of_additive_operator %s [a2g (fst x); a2g (snd x)]" % ("SUBTRACTION" if sub else "ADDITION"),
            rhs="option_map a2g (aval_additive %s (fst x) (snd x))" % ("true" if sub else "false"), eqb="bx_opt grec_eqb", points=pp(),
            template="%s - %s" if sub else "%s + %s")
    g["_compute_constraints_of_multiplicative_operator"] = dict(
        ty="(aval * aval)", lhs="g_compute_constraints_of_multiplicative_operator [a2g (fst x); a2g (snd x)]",
        rhs="option_map a2g (aval_mul (fst x) (snd x))", eqb="bx_opt grec_eqb", points=pp(), template="%s * %s")
    g["_compute_constraints_of_choice_operator"] = dict(
        ty="(aval * aval)", lhs="g_compute_constraints_of_choice_operator None (a2g (fst x)) (a2g (snd x))",
        rhs="option_map a2g (aval_choice (fst x) (snd x))", eqb="bx_opt grec_eqb", points=pp(), template="(fl ? %s : %s)")
    triples = [(i, j, (i * 7 + j * 3 + 1) % n) for i, j in pairs if (i + 2 * j) % 3 == 0]
    mp = [("[%s]" % "; ".join(_aval(OPERANDS[k][1]) for k in t), t) for t in pairs + triples]
    g["_compute_constraints_of_maximum_function"] = dict(
        ty="(list aval)", lhs="(r <- g_compute_constraints_of_maximum_function (map a2g x);; g2a r)", rhs="aval_max x",
        eqb="bx_opt aval_eqb'", points=mp, template="$max(%s)")
    return g


def grid_file(defs, out_base):
    """Coq file evaluating, per translated function, [eqb (generated x) (model x)] over the grid."""
    gs = grids()
    lines = ["From Coq Require Import ZArith List Bool.", "Import ListNotations.",
             "Require Import EmbossV.Bounds.Model EmbossV.Bounds.GenBridge.", "Require Import %s.BoundsGen." % LOGICAL,
             "Open Scope Z_scope."]
    used = []
    for k, (key, spec) in enumerate(gs.items()):
        if key.split(":")[0] not in defs:
            continue
        used.append((k, key, spec))
        lines.append("Definition grid_%d : list %s := [\n%s].\n" % (k, spec["ty"], ";\n".join(t for t, _ in spec["points"])))
        lines.append('Redirect "%s_%d" Eval vm_compute in (map (fun x => %s (%s) (%s)) grid_%d).'
                     % (out_base, k, spec["eqb"], spec["lhs"], spec["rhs"], k))
    return "\n".join(lines) + "\n", used


def _compile(fw, path, d, timeout=900):
    return fw.coqc(path, timeout=timeout, extra_flags=["-Q", d, LOGICAL])


def run_tie(ctx, c05):
    """The regenerated-model tie of C05.  Returns True when every equality theorem checked."""
    from harness import fw
    import re
    import shutil
    d = os.path.join(ctx.bdir, "boundsx")
    shutil.rmtree(d, ignore_errors=True)
    os.makedirs(d)
    src_path = os.path.join(fw.REPO, SRC)
    try:
        defs, fails = translate(fw.REPO)
    except (OSError, SyntaxError) as ex:
        ctx.obligation("expression_bounds.py translated to Gallina", False)
        ctx.violation("bounds-translator", "cannot read/parse %s: %r" % (src_path, ex),
                      dict(kind="tie", translator="harness/bounds_x.py", error=repr(ex)), found_input=False)
        return False
    ctx.extra["bounds_translator"] = dict(source=src_path, translated=[n for n in ORDER if n in defs],
                                          rejected=[str(f) for f in fails], recognised_noops=NOOPS)
    ctx.obligation("expression_bounds.py translated to Gallina by the fail-closed translator (%d of %d functions)"
                   % (len(defs), len(ORDER)), not fails)
    for f in fails:
        ctx.violation("bounds-translator", "harness/bounds_x.py no longer understands %s of expression_bounds.py: %s"
                      % (f.fn, f.what + (" (line %s)" % f.line if f.line else "")),
                      dict(kind="tie", translator="harness/bounds_x.py", function=f.fn, line=f.line, what=f.what,
                           tie="regenerated definition of %s = model function of Bounds/Model.v" % f.fn), found_input=False)
    rc, out = fw.coq_make(["Bounds/GenBridgeWf.vo"])       # (depends on Bounds/GenBridge.vo)
    if rc != 0:
        ctx.obligation("Bounds/GenBridge.v, Bounds/GenBridgeWf.v build", False)
        ctx.violation("proof-broken:Bounds/GenBridgeWf.v", "static bridge files do not build", dict(kind="proof", log=out[-3000:]), found_input=False)
        return False
    gen_v = os.path.join(d, "BoundsGen.v")
    open(gen_v, "w").write(definitions_file(fw.REPO, defs))
    rc, out = _compile(fw, gen_v, d)
    if rc != 0:
        ctx.obligation("regenerated definitions compile", False)
        ctx.violation("bounds-translator", "the Gallina regenerated from expression_bounds.py does not type-check",
                      dict(kind="tie", translator="harness/bounds_x.py", file=gen_v, log=out[-3000:]), found_input=False)
        return False
    # theorems only for functions whose own definition and whose callees were translated
    eq_v = os.path.join(d, "BoundsGenEq.v")
    adir = os.path.join(d, "assum")
    os.makedirs(adir)
    text, names = equality_file(defs, LOGICAL + ".BoundsGen", adir)
    open(eq_v, "w").write(text)
    problems = fw.audit_file(gen_v) + fw.audit_file(eq_v)
    ctx.obligation("audit of the generated files", not problems)
    if problems:
        ctx.violation("audit", "forbidden vernacular in generated files", dict(kind="audit", problems=problems), found_input=False)
    rc, out = _compile(fw, eq_v, d)
    if rc == 0:
        ok = True
        for n in names:
            pth = os.path.join(adir, n + ".out")
            closed = os.path.exists(pth) and "Closed under the global context" in open(pth).read()
            ctx.obligation("regenerated = model: " + n, closed, [] if closed else ["<not closed>"])
            if not closed:
                ok = False
                ctx.violation("axiom:" + n, "generated theorem %s is not closed under the global context" % n,
                              dict(kind="axiom", theorem=n), found_input=False)
        return ok and not fails
    # ---- some equality no longer checks: which one, and is there a concrete failing input? -----------------
    m = re.findall(r'line (\d+), characters', out)
    broken = "?"
    if m:
        upto = "\n".join(text.split("\n")[:int(m[0])])
        th = re.findall(r"^Theorem\s+(\w+)", upto, re.M)
        broken = th[-1] if th else "?"
    for n in names:
        ctx.obligation("regenerated = model: " + n, False)
    ctx.note("generated equality theorem %s no longer checks:\n%s" % (broken, out[-1500:]))
    gtext, used = grid_file(defs, os.path.join(d, "grid"))
    grid_v = os.path.join(d, "BoundsGrid.v")
    open(grid_v, "w").write(gtext)
    rc2, out2 = _compile(fw, grid_v, d)
    diffs = {}
    if rc2 == 0:
        for k, key, spec in used:
            t = open(os.path.join(d, "grid_%d.out" % k)).read()
            vals = re.findall(r"\b(true|false)\b", t.split("=", 1)[1].rsplit(":", 1)[0])
            if len(vals) != len(spec["points"]):
                ctx.note("grid output of %s not understood" % key)
                continue
            bad = [spec["points"][i][1] for i, v in enumerate(vals) if v == "false"]
            ctx.count("grid-points:" + key, len(vals))
            if bad:
                diffs[key] = (spec, bad)
    else:
        ctx.note("grid evaluation failed: %s" % out2[-1500:])
    found = search_inputs(ctx, c05, diffs)
    summary = {k: [repr(x) for x in b[:8]] for k, (sp, b) in diffs.items()}
    if not found:
        ctx.violation("bounds-regenerated-model:" + broken,
                      "the definition regenerated from expression_bounds.py is no longer proved equal to the model (theorem %s); "
                      "%s" % (broken, "it differs from the model on grid arguments %s but no expression with unsound bounds was found"
                              % summary if diffs else "no difference on the argument grid"),
                      dict(kind="tie", theorem=broken, file=eq_v, grid_differences=summary, log=out[-2500:]), found_input=False)
    return False


def search_inputs(ctx, c05, diffs):
    """Turn grid differences of the rule-level functions into Emboss expressions and look for an environment on which the
    real compiler's annotation is wrong (c05.search_counterexample), or for a crash of the pass.  True when one was reported."""
    from harness import irx
    found = False
    budget = 160
    for key, (spec, bad) in diffs.items():
        if "template" not in spec:
            continue
        step = max(1, len(bad) // 40)
        for t in bad[::step]:
            ops = [OPERANDS[k][0] for k in t]
            if any(o is None for o in ops) or budget <= 0:
                continue
            budget -= 1
            sn = [o.replace("{a}", "ab"[min(i, 1)]) for i, o in enumerate(ops)]
            expr = spec["template"] % (", ".join(sn) if key.endswith("maximum_function") else tuple(sn))
            text = MODULE % expr
            ctx.count("search-modules:" + key)
            try:
                ir, errs = c05.compile_for_bounds(text)
            except Exception as ex:
                import traceback
                tb = traceback.extract_tb(ex.__traceback__)
                if any(fr.filename.endswith("expression_bounds.py") for fr in tb[-3:]):
                    ctx.violation("bounds-assert", "expression_bounds raised %r (line %d) on 'let v = %s'" % (ex, tb[-1].lineno, expr),
                                  dict(kind="module", module=text, exception=repr(ex), line=tb[-1].lineno, from_grid_difference=key),
                                  found_input=True)
                    found = True
                continue
            if errs or ir is None:
                continue
            for (e, where, attr) in irx.top_level_expressions(ir):
                if where != "Foo/v" or attr is not None:
                    continue
                cex = c05.search_counterexample(ctx, ir, e, tries=60)
                if cex:
                    ctx.violation("bounds-unsound", "inferred bounds wrong for 'let v = %s': %s (found from a difference between the "
                                  "regenerated %s and the model)" % (expr, cex[1], key),
                                  dict(kind="expression", module=text, where=where, environment=cex[0], message=cex[1],
                                       from_grid_difference=key, python=str(irx.annotation(e))), found_input=True)
                    found = True
        if found:
            break
    return found


if __name__ == "__main__":
    import sys
    repo = sys.argv[1] if len(sys.argv) > 1 else "/repo"
    d, f = translate(repo)
    print(definitions_file(repo, d))
    for ex in f:
        print("(* FAILED: %s *)" % ex)
