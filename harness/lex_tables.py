"""Fail-closed translator: tokenizer.py's pattern tables -> Coq (EmbossV.Lex.Regex AST).

Regenerated on every run from the working tree:
  * LITERAL_TOKEN_PATTERNS / REGEX_TOKEN_PATTERNS of compiler/front_end/tokenizer.py
    (the regex *source strings* are parsed here; only the syntax subset the Coq
    model gives a semantics to is accepted, anything else raises Unsupported);
  * the token table of doc/grammar.md (text), for the doc == code check;
  * the white-space set (str.isspace == what lstrip() strips == \\s of `re`,
    cross-checked over all code points) and the str.splitlines() terminator set.

Regex AST (python tuples), mirrors Lex/Regex.v:
  ('eps',) ('eol',) ('chr', neg, [(lo,hi)..]) ('cat',a,b) ('alt',a,b) ('star',a) ('rep',a,m,n)
`x+` is Cat x (Star x), `x?` is Alt x Eps.  Sequences and alternations nest to the right.
"""
import importlib
import os
import re
import sys


class Unsupported(Exception):
    pass


_SPECIAL = set("()[]{}*+?|^$.\\")
# characters that may follow a backslash and mean themselves (punctuation only)
_PUNCT = set("!\"#$%&'()*+,-./:;<=>?@[\\]^_`{|}~ ")
_SIMPLE_ESC = {"n": 10, "t": 9, "r": 13, "f": 12, "v": 11}


class _P:
    def __init__(self, src, ws_ranges):
        self.s, self.i, self.ws = src, 0, ws_ranges

    def fail(self, why):
        raise Unsupported("regex %r at offset %d: %s" % (self.s, self.i, why))

    def peek(self):
        return self.s[self.i] if self.i < len(self.s) else None

    def parse(self):
        a = self.alt()
        if self.i != len(self.s):
            self.fail("unbalanced ')'")
        return a

    def alt(self):
        branches = [self.seq()]
        while self.peek() == "|":
            self.i += 1
            branches.append(self.seq())
        r = branches[-1]
        for b in reversed(branches[:-1]):
            r = ("alt", b, r)
        return r

    def seq(self):
        items = []
        while self.peek() is not None and self.peek() not in "|)":
            items.append(self.item())
        if not items:
            return ("eps",)
        r = items[-1]
        for b in reversed(items[:-1]):
            r = ("cat", b, r)
        return r

    def item(self):
        a = self.atom()
        c = self.peek()
        if c in ("*", "+", "?"):
            self.i += 1
            if a[0] == "eol":
                self.fail("quantified anchor")
            if self.peek() in ("?", "+"):
                self.fail("lazy / possessive quantifier")
            if self.peek() in ("*", "{"):
                self.fail("stacked quantifier")
            if c == "*":
                return ("star", a)
            if c == "+":
                return ("cat", a, ("star", a))
            return ("alt", a, ("eps",))
        if c == "{":
            m = re.compile(r"\{(\d+)(?:,(\d+))?\}").match(self.s, self.i)
            if not m:
                self.fail("unsupported {..} form")
            self.i = m.end()
            if a[0] == "eol":
                self.fail("quantified anchor")
            if self.peek() in ("?", "+", "*", "{"):
                self.fail("lazy / possessive / stacked quantifier")
            lo = int(m.group(1))
            hi = int(m.group(2)) if m.group(2) is not None else lo
            if lo > hi or hi > 64:
                self.fail("bad repeat bounds")
            return ("rep", a, lo, hi)
        return a

    def escape(self, in_class):
        # self.s[self.i] == '\\'
        self.i += 1
        c = self.peek()
        if c is None:
            self.fail("dangling backslash")
        self.i += 1
        if c in _SIMPLE_ESC:
            return _SIMPLE_ESC[c]
        if c == "s" and not in_class:
            return "ws"
        if c in _PUNCT:
            return ord(c)
        self.i -= 1
        self.fail("unsupported escape \\%s" % c)

    def atom(self):
        c = self.peek()
        if c == "(":
            if self.s[self.i:self.i + 3] != "(?:":
                self.fail("only non-capturing groups (?:...) are supported")
            self.i += 3
            a = self.alt()
            if self.peek() != ")":
                self.fail("missing ')'")
            self.i += 1
            return a
        if c == "[":
            return self.cls()
        if c == ".":
            self.i += 1
            return ("chr", True, [(10, 10)])
        if c == "$":
            self.i += 1
            return ("eol",)
        if c == "\\":
            v = self.escape(False)
            if v == "ws":
                return ("chr", False, list(self.ws))
            return ("chr", False, [(v, v)])
        if c in _SPECIAL:
            self.fail("unsupported syntax %r" % c)
        self.i += 1
        return ("chr", False, [(ord(c), ord(c))])

    def cls_char(self):
        c = self.peek()
        if c is None:
            self.fail("unterminated class")
        if c == "\\":
            return self.escape(True)
        if c == "[":
            self.fail("'[' inside class")
        self.i += 1
        return ord(c)

    def cls(self):
        self.i += 1
        neg = False
        if self.peek() == "^":
            neg = True
            self.i += 1
        if self.peek() == "]":
            self.fail("']' as first class member")
        ranges = []
        while True:
            c = self.peek()
            if c is None:
                self.fail("unterminated class")
            if c == "]":
                self.i += 1
                break
            if c == "-":
                self.fail("'-' in class outside a range")
            lo = self.cls_char()
            hi = lo
            if self.peek() == "-":
                self.i += 1
                if self.peek() == "]":
                    self.fail("trailing '-' in class")
                hi = self.cls_char()
                if hi < lo:
                    self.fail("reversed range")
            ranges.append((lo, hi))
        return ("chr", neg, ranges)


def parse_regex(src, ws_ranges):
    return _P(src, ws_ranges).parse()


def to_ranges(codes):
    out = []
    for c in sorted(codes):
        if out and out[-1][1] + 1 == c:
            out[-1] = (out[-1][0], c)
        else:
            out.append((c, c))
    return out


def unicode_sets():
    """(white-space code points, line-break code points) as Python sees them."""
    ws = [c for c in range(0x110000) if chr(c).isspace()]
    rx = re.compile(r"\s")
    ws_re = [c for c in range(0x110000) if rx.match(chr(c))]
    ws_strip = [c for c in range(0x110000) if (chr(c) + "x").lstrip() == "x"]
    if ws != ws_re or ws != ws_strip:
        raise Unsupported("str.isspace, \\s and lstrip() disagree on the white-space set")
    br = [c for c in range(0x110000) if len(("a" + chr(c) + "b").splitlines()) == 2]
    return ws, br


# the terminators hard-wired in Lex/Tokenizer.v (is_break); checked against Python each run
MODEL_BREAKS = [10, 11, 12, 13, 28, 29, 30, 133, 8232, 8233]


class Tables:
    """lits: [str]; pats: [(src, ast, symbol|None)]; doc: [(src, ast, symbol|None, is_literal)]"""
    pass


def load_code_tables(repo):
    if repo not in sys.path[:1]:
        sys.path.insert(0, repo)
    tok = importlib.import_module("compiler.front_end.tokenizer")
    if not os.path.abspath(tok.__file__).startswith(os.path.abspath(repo) + os.sep):
        raise Unsupported("tokenizer imported from %s, not from %s" % (tok.__file__, repo))
    ws, br = unicode_sets()
    if br != MODEL_BREAKS:
        raise Unsupported("str.splitlines() terminators %r differ from the model's %r" % (br, MODEL_BREAKS))
    t = Tables()
    t.tokenizer = tok
    t.ws, t.ws_ranges, t.breaks = ws, to_ranges(ws), br
    lits = list(tok.LITERAL_TOKEN_PATTERNS)
    for l in lits:
        if not isinstance(l, str) or not l:
            raise Unsupported("literal pattern %r is not a non-empty str" % (l,))
    t.lits = lits
    t.pats = []
    for p in tok.REGEX_TOKEN_PATTERNS:
        rx, symbol = p.regex, p.symbol
        if not isinstance(rx, re.Pattern) or not isinstance(rx.pattern, str):
            raise Unsupported("pattern entry %r is not a compiled str regex" % (p,))
        if rx.flags != re.UNICODE:
            raise Unsupported("regex %r compiled with flags %r (only the default is modelled)" % (rx.pattern, rx.flags))
        if symbol is not None and (not isinstance(symbol, str) or not symbol):
            raise Unsupported("symbol %r" % (symbol,))
        t.pats.append((rx.pattern, parse_regex(rx.pattern, t.ws_ranges), symbol))
    # how _tokenize_line uses the tables is modelled by hand (Lex/Tokenizer.v); the correspondence tests it
    return t


def lit_ast(l):
    r = ("chr", False, [(ord(l[-1]), ord(l[-1]))])
    for ch in reversed(l[:-1]):
        r = ("cat", ("chr", False, [(ord(ch), ord(ch))]), r)
    return r


def load_doc_table(repo, ws_ranges):
    """Rows of the token table in doc/grammar.md as [(regex source, ast, symbol|None)]."""
    path = os.path.join(repo, "doc", "grammar.md")
    lines = open(path, encoding="utf-8").read().split("\n")
    heads = [i for i, l in enumerate(lines) if re.fullmatch(r"Pattern\s+\| Symbol", l)]
    if len(heads) != 1:
        raise Unsupported("grammar.md: expected exactly one 'Pattern | Symbol' header, found %d" % len(heads))
    i = heads[0] + 1
    if not re.fullmatch(r"-+ \| -+", lines[i]):
        raise Unsupported("grammar.md: malformed table rule line")
    rows = []
    i += 1
    while i < len(lines) and lines[i].strip():
        l = lines[i]
        if " | " not in l:
            raise Unsupported("grammar.md: malformed table row %r" % l)
        pat, symtxt = l.rsplit(" | ", 1)
        pat = pat.rstrip(" ")
        if len(pat) < 3 or pat[0] != "`" or pat[-1] != "`":
            raise Unsupported("grammar.md: malformed pattern cell %r" % pat)
        pat = pat[1:-1]
        if symtxt == "*no symbol emitted*":
            symbol = None
        elif len(symtxt) >= 3 and symtxt[0] == "`" and symtxt[-1] == "`":
            symbol = symtxt[1:-1]
        else:
            raise Unsupported("grammar.md: malformed symbol cell %r" % symtxt)
        if symbol is not None and len(symbol) >= 3 and symbol[0] == '"' and symbol[-1] == '"':
            # literal row: generate_grammar_md escapes every non-word character with a backslash
            src = pat
        else:
            # regex row: generate_grammar_md writes `\|` for `|` (markdown table escape) and nothing else
            src = pat.replace("\\|", "|")
        rows.append((src, parse_regex(src, ws_ranges), symbol))
        i += 1
    if not rows:
        raise Unsupported("grammar.md: empty token table")
    return rows


# ---------------------------------------------------------------------------
# Coq output
# ---------------------------------------------------------------------------

def coq_str(s):
    return "[" + ";".join(str(ord(c)) for c in s) + "]"


def coq_ranges(rs):
    return "[" + ";".join("(%d,%d)" % r for r in rs) + "]"


def coq_re(a):
    k = a[0]
    if k == "eps":
        return "Eps"
    if k == "eol":
        return "Eol"
    if k == "chr":
        return "(Chr %s %s)" % ("true" if a[1] else "false", coq_ranges(a[2]))
    if k == "cat":
        return "(Cat %s %s)" % (coq_re(a[1]), coq_re(a[2]))
    if k == "alt":
        return "(Alt %s %s)" % (coq_re(a[1]), coq_re(a[2]))
    if k == "star":
        return "(Star %s)" % coq_re(a[1])
    if k == "rep":
        return "(Rep %s %d%%nat %d%%nat)" % (coq_re(a[1]), a[2], a[3])
    raise Unsupported("ast node %r" % (a,))


def coq_osym(s):
    return "None" if s is None else "(Some %s)" % coq_str(s)


def write_table_v(path, t, doc_rows):
    """The generated table file: code_table, doc_rows."""
    with open(path, "w") as f:
        f.write("(* GENERATED by harness/lex_tables.py from compiler/front_end/tokenizer.py and doc/grammar.md *)\n")
        f.write("From Coq Require Import NArith List.\nImport ListNotations.\n")
        f.write("Require Import EmbossV.Lex.Regex EmbossV.Lex.Tokenizer.\nLocal Open Scope N_scope.\n\n")
        f.write("Definition code_lits : list str := [\n  ")
        f.write(";\n  ".join("%s (* %s *)" % (coq_str(l), l.replace("*)", "* )")) for l in t.lits))
        f.write("\n].\n\n")
        f.write("Definition code_pats : list (re * option str) := [\n  ")
        f.write(";\n  ".join("(%s, %s)" % (coq_re(a), coq_osym(sy)) for _, a, sy in t.pats))
        f.write("\n].\n\n")
        f.write("Definition ws_ranges : list (N * N) := %s.\n\n" % coq_ranges(t.ws_ranges))
        f.write("Definition code_table : table := mkTable code_lits code_pats ws_ranges.\n\n")
        f.write("Definition doc_rows : list (re * option str) := [\n  ")
        f.write(";\n  ".join("(%s, %s)" % (coq_re(a), coq_osym(sy)) for _, a, sy in doc_rows))
        f.write("\n].\n")


# ---------------------------------------------------------------------------
# random member of a regex's language (for token soup)
# ---------------------------------------------------------------------------

def sample(a, rng, depth=0):
    k = a[0]
    if k == "eps" or k == "eol":
        return ""
    if k == "chr":
        neg, rs = a[1], a[2]
        if not neg:
            lo, hi = rng.choice(rs)
            return chr(rng.randint(lo, hi))
        pool = "aZ0_ $\"\\#-x.\t" + chr(0xe9) + chr(0x3000) + chr(0x1f600)
        for _ in range(50):
            c = rng.choice(pool)
            if not any(lo <= ord(c) <= hi for lo, hi in rs):
                return c
        return ""
    if k == "cat":
        return sample(a[1], rng, depth) + sample(a[2], rng, depth)
    if k == "alt":
        return sample(a[1] if rng.random() < 0.5 else a[2], rng, depth)
    if k == "star":
        n = rng.choice([0, 0, 1, 1, 2, 3, 5, 9])
        return "".join(sample(a[1], rng, depth + 1) for _ in range(n))
    if k == "rep":
        n = rng.randint(a[2], a[3])
        return "".join(sample(a[1], rng, depth + 1) for _ in range(n))
    raise Unsupported("ast node %r" % (a,))
