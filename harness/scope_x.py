"""C12 translator: surface IR (glue.parse_emboss_file(..., stop_before_step="resolve_symbols"))
-> a term of EmbossV.Scope.Model.input, and the implementation's observable result
(symbol_resolver.resolve_symbols / resolve_field_references on the same IR)
-> a term of (outcome1 * option outcome2).

Fail-closed: everything not understood raises OutOfModel (callers count it).

Independence: the scope context (module, enclosing type path, attribute-in-field)
of every Reference is computed here by an own walk over the IR; only the ORDER
in which references are visited is taken from compiler.util.traverse_ir (the
order only decides which error is reported first).
"""
import re

from compiler.front_end import dependency_checker
from compiler.front_end import symbol_resolver
from compiler.util import ir_data
from compiler.util import ir_data_utils
from compiler.util import traverse_ir


class OutOfModel(Exception):
    pass


class ModuleLevelReference(OutOfModel):
    """A Reference outside every type definition (module-level attribute value)."""


# -- Coq syntax ---------------------------------------------------------------

def cstr(s):
    """A name as a Coq identifier that the case file's header defines once as a string constant
    (elaborating a string literal costs ~10 nodes per character; an identifier costs one)."""
    for ch in s:
        if not (32 <= ord(ch) < 127):
            raise OutOfModel("non-printable character in name %r" % s)
    return "s_" + (s.encode("ascii").hex() or "e")


_IDENT = re.compile(r"\bs_([0-9a-f]*|e)\b")


def string_definitions(terms):
    """Coq definitions of every s_<hex> identifier used in `terms`."""
    seen = set()
    for t in terms:
        seen.update(m.group(0) for m in _IDENT.finditer(t))
    out = []
    for ident in sorted(seen):
        h = ident[2:]
        text = "" if h == "e" else bytes.fromhex(h).decode("ascii")
        out.append('Definition %s : string := "%s".' % (ident, text.replace('"', '""')))
    return "\n".join(out) + "\n"


def cN(n):
    return "%d%%N" % int(n)


def clist(xs):
    return "[" + "; ".join(xs) + "]"


def copt(x):
    return "None" if x is None else "(Some %s)" % x


def ccname(mod, path):
    return "(CN %s %s)" % (cstr(mod), clist(cstr(p) for p in path))


def line_of(loc):
    if loc is None:
        return 0
    try:
        return int(loc.start.line) if loc.start else 0
    except AttributeError:
        return 0


# -- the IR walk ----------------------------------------------------------------

class Translation:
    def __init__(self, ir):
        self.ir = ir
        self.site = {}        # id(Reference | FieldReference) -> (mod, types tuple, attr or None)
        self.keep = []        # keep python objects alive so ids stay unique
        self.refsA = []       # Reference objects of pass A in traversal order
        self.frs = []         # FieldReference objects in traversal order
        self.module_level = False
        self._order()
        for m in ir.module:
            self._walk(m, None, (), None, None, False)
        self.ridx = {id(r): i for i, r in enumerate(self.refsA)}
        self.fidx = {id(f): i for i, f in enumerate(self.frs)}

    # order of visits = the traversal the passes use
    def _order(self):
        a, f = [], []
        traverse_ir.fast_traverse_ir_top_down(self.ir, [ir_data.Reference], _collect_ref,
                                              skip_descendants_of=(ir_data.FieldReference,),
                                              parameters={"sink": a})
        traverse_ir.fast_traverse_ir_top_down(self.ir, [ir_data.FieldReference], _collect_fr,
                                              parameters={"sink": f})
        self.refsA = [r for r in a if not r.has_field("canonical_name")]
        self.preset = [r for r in a if r.has_field("canonical_name")]
        self.frs = f

    def _walk(self, node, mod, types, field, attr, in_fr):
        if isinstance(node, ir_data.Module):
            mod, types, field, attr = node.source_file_name, (), None, None
        elif isinstance(node, ir_data.TypeDefinition):
            if mod is None:
                raise OutOfModel("type definition outside a module")
            types = types + (node.name.name.text,)
            field, attr = None, None
        elif isinstance(node, ir_data.Field):
            field = node.name.name.text
        elif isinstance(node, ir_data.Attribute):
            if field is not None:
                attr = field
        elif isinstance(node, ir_data.FieldReference):
            self.site[id(node)] = (mod, types, attr)
            self.keep.append(node)
            for r in node.path:
                if len(r.source_name) != 1:
                    raise OutOfModel("field reference path element with %d names" % len(r.source_name))
            in_fr = True
        elif isinstance(node, ir_data.Reference):
            if not in_fr:
                self.site[id(node)] = (mod, types, attr)
                self.keep.append(node)
            return
        for spec, value in ir_data_utils.get_set_fields(node):
            if not spec.is_dataclass:
                continue
            if spec.is_sequence:
                for v in value:
                    self._walk(v, mod, types, field, attr, in_fr)
            else:
                self._walk(value, mod, types, field, attr, in_fr)

    # -- terms ----------------------------------------------------------------
    def csite(self, key):
        if key not in self.site:
            raise OutOfModel("reference not reached by the translator's own walk")
        mod, types, attr = self.site[key]
        # types == (): a reference in a module-level attribute; since fix 99e8f3d it is resolved with
        # current_scope = the module's scope, which is what Site m [] None means in the model
        return "(Site %s %s %s)" % (cstr(mod), clist(cstr(t) for t in types), copt(cstr(attr) if attr else None))

    def cword(self, w):
        return "(%s, %s)" % (cstr(w.text), cN(line_of(w.source_location)))

    def cfield(self, f):
        name = f.name.name
        abbr = "None"
        if f.has_field("abbreviation"):
            abbr = "(Some %s)" % self.cword(f.abbreviation)
        if f.has_field("location"):
            t = f.type
            if t is None:
                raise OutOfModel("physical field without type")
            if t.has_field("atomic_type"):
                r = t.atomic_type.reference
                if id(r) not in self.ridx:
                    raise OutOfModel("field type reference not in pass A")
                body = "(FPhys (FTAtomic %d))" % self.ridx[id(r)]
            elif t.has_field("array_type"):
                body = "(FPhys FTArray)"
            else:
                raise OutOfModel("unknown kind of type")
        else:
            rt = f.read_transform
            if rt is None:
                raise OutOfModel("field with neither location nor read_transform")
            if rt.which_expression == "field_reference":
                fr = rt.field_reference
                if id(fr) not in self.fidx:
                    raise OutOfModel("alias field reference not enumerated")
                body = "(FVirtAlias %d)" % self.fidx[id(fr)]
            else:
                body = "FVirtOther"
        return "(FDef %s %s %s %s)" % (cstr(name.text), cN(line_of(name.source_location)), abbr, body)

    def ctype(self, t):
        nm = t.name.name
        params = [
            "(PDef %s %s)" % (cstr(p.name.name.text), cN(line_of(p.name.name.source_location)))
            for p in (t.runtime_parameter or [])
        ]
        if t.has_field("structure"):
            body = "(BStruct %s)" % clist(self.cfield(f) for f in t.structure.field)
        elif t.has_field("enumeration"):
            body = "(BEnum %s)" % clist(
                "(VDef %s %s)" % (cstr(v.name.name.text), cN(line_of(v.name.name.source_location)))
                for v in t.enumeration.value)
        elif t.has_field("external"):
            body = "BExternal"
        else:
            raise OutOfModel("type definition of unknown kind")
        subs = clist(self.ctype(s) for s in (t.subtype or []))
        return "(TyDef %s %s %s %s %s)" % (cstr(nm.text), cN(line_of(nm.source_location)), clist(params), body, subs)

    def cmodule(self, m):
        imps = []
        for i in m.foreign_import:
            imps.append("(IDef %s %s %s)" % (cstr(i.local_name.text or ""), cstr(i.file_name.text),
                                              cN(line_of(i.local_name.source_location))))
        return "(Module %s %s %s)" % (cstr(m.source_file_name), clist(imps), clist(self.ctype(t) for t in m.type))

    def cref(self, r):
        names = clist(self.cword(w) for w in r.source_name)
        return "(RefSite %s (Ref %s %s %s))" % (self.csite(id(r)), names,
                                                 "true" if r.is_local_name else "false",
                                                 cN(line_of(r.source_location)))

    def cfr(self, fr):
        return "(FRef %s %s)" % (self.csite(id(fr)), clist(self.cword(r.source_name[0]) for r in fr.path))

    def input_term(self):
        files = [m.source_file_name for m in self.ir.module]
        if len(set(files)) != len(files):
            raise OutOfModel("two modules with one file name")
        mods = clist(self.cmodule(m) for m in self.ir.module)
        refs = clist(self.cref(r) for r in self.refsA)
        frs = clist(self.cfr(f) for f in self.frs)
        return "(Input %s %s %s)" % (mods, refs, frs)


def _collect_ref(reference, sink):
    sink.append(reference)


def _collect_fr(field_reference, sink):
    sink.append(field_reference)


# -- the implementation's result ---------------------------------------------------

_KINDS = [
    (re.compile(r"^Duplicate name '(.*)'$"), "KDup"),
    (re.compile(r"^Ambiguous name '(.*)'$"), "KAmbig"),
    (re.compile(r"^No candidate for '(.*)'$"), "KMissing"),
    (re.compile(r"^Cannot access member of array '(.*)'$"), "KArray"),
    (re.compile(r"^Cannot access member of noncomposite field '(.*)'$"), "KNoncomposite"),
    (re.compile(r"^'(.*)' is an imported module, not a field, type, or value\.$"), "KModule"),
]


def py_error(group):
    """error group (list of messages) -> (kind, file, line, name, notes)"""
    head = group[0]
    for rx, k in _KINDS:
        m = rx.match(head.message)
        if m:
            notes = sorted((n.source_file or "", line_of(n.location)) for n in group[1:])
            return (k, head.source_file or "", line_of(head.location), m.group(1), tuple(notes))
    raise OutOfModel("unknown error text %r" % head.message)


def cerr(e):
    k, f, l, n, notes = e
    return "(Err %s %s %s %s %s)" % (k, cstr(f), cN(l), cstr(n),
                                     clist("(%s, %s)" % (cstr(a), cN(b)) for a, b in notes))


def ccn(cn):
    return ccname(cn.module_file or "", list(cn.object_path))


class Observed:
    """What the two passes of the implementation did on this IR."""

    def __init__(self):
        self.errors1 = None       # list of py_error tuples, or None when resolved
        self.resA = None
        self.resB = None
        self.stage2 = None        # None (not reached) | "errors" | "resolved" | "crash-param"
        self.errors2 = None
        self.paths = None
        self.crash = None         # (stage, exception repr, function name)

    def term(self):
        if self.errors1 is not None:
            o1 = "(Rejected1 0%%N %s)" % clist(cerr(e) for e in self.errors1)
        else:
            o1 = "(Resolved1 %s %s)" % (clist(self.resA), clist(self.resB))
        if self.stage2 is None:
            o2 = "None"
        elif self.stage2 == "errors":
            o2 = "(Some (Rejected2 %s))" % clist(cerr(e) for e in self.errors2)
        elif self.stage2 == "resolved":
            o2 = "(Some (Resolved2 %s))" % clist(clist(p) for p in self.paths)
        elif self.stage2 == "crash-param":
            o2 = "(Some CrashParam2)"
        else:
            o2 = "None"
        return "(%s, %s)" % (o1, o2)

    def summary(self):
        if self.crash:
            return "crash:%s" % self.crash[0]
        if self.errors1 is not None:
            return "rejected1:" + ",".join(sorted(set(e[0] for e in self.errors1)))
        if self.stage2 == "errors":
            return "rejected2:" + ",".join(sorted(set(e[0] for e in self.errors2)))
        if self.stage2 is None:
            return "resolved1-then-cycle"
        return "resolved"


def _parameter_on_path(ir, tr):
    """is some non-final element of a dotted field reference itself bound to a parameter
    (as opposed to a parameter only reached by following a virtual alias)?"""
    from compiler.util import ir_util
    for f in tr.frs:
        for r in f.path[:-1]:
            if r.has_field("canonical_name"):
                o = ir_util.find_object_or_none(r, ir)
                if isinstance(o, ir_data.RuntimeParameter):
                    return True
    return False


def observe(ir, tr):
    """Run the real passes on `ir` (mutates it).  tr: the Translation made BEFORE."""
    import traceback
    ob = Observed()
    try:
        errs = symbol_resolver.resolve_symbols(ir)
    except Exception as ex:  # recorded by the caller
        tb = traceback.extract_tb(ex.__traceback__)
        ob.crash = ("resolve_symbols", repr(ex), tb[-1].name, type(ex).__name__)
        return ob
    if errs:
        ob.errors1 = [py_error(g) for g in errs]
        return ob
    ob.errors1 = None
    resA, resB = [], []
    for r in tr.refsA:
        if not r.has_field("canonical_name"):
            raise OutOfModel("pass 1 accepted but left a reference unresolved")
        resA.append(ccn(r.canonical_name))
    for f in tr.frs:
        if not f.path[0].has_field("canonical_name"):
            raise OutOfModel("pass 1 accepted but left a field reference head unresolved")
        resB.append(ccn(f.path[0].canonical_name))
    ob.resA, ob.resB = resA, resB
    ob.py_resA = [r.canonical_name for r in tr.refsA]
    try:
        cyc = dependency_checker.find_dependency_cycles(ir)
        if not cyc:
            cyc = dependency_checker.set_dependency_order(ir)
    except Exception as ex:
        tb = traceback.extract_tb(ex.__traceback__)
        ob.crash = ("dependency_checker", repr(ex), tb[-1].name, type(ex).__name__)
        return ob
    if cyc:
        return ob
    try:
        errs2 = symbol_resolver.resolve_field_references(ir)
    except AttributeError as ex:
        tb = traceback.extract_tb(ex.__traceback__)
        if "RuntimeParameter" in str(ex) and tb[-1].name == "_resolve_field_reference":
            ob.stage2 = "crash-param"
            ob.crash = ("resolve_field_references", repr(ex), tb[-1].name, type(ex).__name__,
                        "direct" if _parameter_on_path(ir, tr) else "via-alias")
            return ob
        ob.crash = ("resolve_field_references", repr(ex), tb[-1].name, type(ex).__name__)
        ob.stage2 = "other-crash"
        return ob
    except Exception as ex:
        tb = traceback.extract_tb(ex.__traceback__)
        ob.crash = ("resolve_field_references", repr(ex), tb[-1].name, type(ex).__name__)
        ob.stage2 = "other-crash"
        return ob
    if errs2:
        ob.stage2 = "errors"
        ob.errors2 = [py_error(g) for g in errs2]
        return ob
    ob.stage2 = "resolved"
    paths = []
    for f in tr.frs:
        p = []
        for r in f.path:
            if not r.has_field("canonical_name"):
                raise OutOfModel("pass 2 accepted but left a path element unresolved")
            p.append(ccn(r.canonical_name))
        paths.append(p)
    ob.paths = paths
    return ob
