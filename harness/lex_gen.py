"""Input generators and the independent invariant checker for C10 (owned by harness/props/c10.py).

Everything random draws from the rng passed in (ctx.rng)."""
import glob
import os
import re

from harness import lex_tables as lt

JUNK = ["~", "@", "'", "{", "}", ";", "!", "&", "|", "\\", '"', "\u00e9", "\u03bb", "\U0001f600", "\u200b",
        "\ufeff", "%", "^", "`", "/", "$", "_", "0", "9", "x", "b", "A", "Z", "a", "z", "-", "--", "#"]
SEPS = ["", "", " ", " ", "  ", "\t", " \t ", "\u00a0", "\u3000", "\x1f"]
INDENTS = ["", "", " ", "  ", "  ", "    ", "\t", " \t", "\t ", "   ", "\u00a0", "  \u2003", "\x1f "]
BOUNDARY = [
    "0", "00", "012", "1_000", "1_00", "1000_000", "12_345_678", "1234_567", "1_0000", "_1", "1_", "1__000",
    "0x", "0x_", "0xg", "0x0", "0X0", "0xC", "0x_ff", "0x1234_5678", "0x12345678_9abcdef0", "0x1234_5678_9abcdef0",
    "0x1234_567", "0x12345_6789", "0x_1234_5678", "0xffff_ffff", "0x1_0000_0000", "0x123456789", "0xab_cdef01",
    "0b", "0b_", "0b2", "0b1100", "0b1010_0101", "0b10100101_10100101", "0b1010_01011010", "0B1", "0b_1", "0b1_",
    "true", "false", "truefalse", "true_", "True", "trues", "struct", "structure", "struct1", "bits", "bitsy", "as", "ass",
    "if", "iff", "let", "letter", "enum", "enums", "import", "external", "$max", "$maxx", "$ma", "$", "$default", "$next",
    "$size_in_bits", "$size_in_bytes", "$max_size_in_bits", "$static_size_in_bits", "$is_statically_sized", "$present",
    "$upper_bound", "$lower_bound", "$min_size_in_bytes", "$foo",
    "a", "a_", "a1", "aB", "abcDef", "A", "A1", "AB", "A_", "A1B", "Ab", "AbC", "Ab_c", "A1b", "AB1c", "ABc_", "_a", "_A", "__",
    "EmbossReserved", "EmbossReservedX9", "EmbossReserved_x", "emboss_reserved", "emboss_reserved_x1", "emboss_reservedX",
    "EMBOSS_RESERVED", "EMBOSS_RESERVED_X1", "EMBOSS_RESERVEDx", "emboss_reserve", "Emboss", "EMBOSS_RESERVE",
    '""', '"a"', '"a b"', '"\\n"', '"\\\\"', '"\\""', '"\\t"', '"a', 'a"', '"a\\"', '"\\', '"a"b"', '"" ""', '"\u00e9"',
    "--", "-- ", "-- x", "--x", "---", "- -", "--\t", "-- x -- y", "a --", "a -- b", "a--", "--#", "#", "# c", "#--", "a#b", " # x",
    "==", "=", "===", "!=", "!", "&&", "&", "||", "|", "<", "<=", "<==", ">=", ">", "=>", "=<", "+", "-", "+-", "->", "*", ".", "..", "?", ":", "::",
    ",", "[", "]", "[]", "(", ")", "()", "[+", "a.b", "a:b", "a[0]", "x+1", "x-1", "x--1", "x - -1", "0..1", "1.5", "a?b:c",
]


def corpus_files(repo):
    fs = sorted(glob.glob(os.path.join(repo, "testdata", "*.emb")) + glob.glob(os.path.join(repo, "testdata", "format", "*.emb")))
    fs.append(os.path.join(repo, "compiler", "front_end", "prelude.emb"))
    out = []
    for f in fs:
        try:
            out.append((os.path.relpath(f, repo), open(f, encoding="utf-8").read()))
        except (OSError, UnicodeDecodeError):
            pass
    return out


class Gen:
    def __init__(self, rng, tables, corpus):
        self.r, self.t, self.corpus = rng, tables, corpus
        self.examples = [p.example for p in tables.tokenizer.REGEX_TOKEN_PATTERNS if isinstance(getattr(p, "example", None), str)]

    def word(self):
        r = self.r
        k = r.random()
        if k < 0.25:
            return r.choice(self.t.lits)
        if k < 0.60:
            src, ast, sym = r.choice(self.t.pats)
            w = lt.sample(ast, r)
            return w[:40]
        if k < 0.70 and self.examples:
            return r.choice(self.examples)
        if k < 0.88:
            return r.choice(BOUNDARY)
        return r.choice(JUNK)

    def soup_line(self, adjacent):
        r = self.r
        n = r.choice([0, 1, 1, 2, 3, 4, 6, 9])
        parts = []
        for i in range(n):
            parts.append(self.word())
            if i + 1 < n:
                parts.append("" if (adjacent and r.random() < 0.7) else r.choice(SEPS))
        s = "".join(parts)
        # keep line terminators out of ordinary soup lines (terminator shapes test those)
        return "".join(ch for ch in s if ord(ch) not in self.t.breaks)

    def soup(self, adjacent=False):
        r = self.r
        nl = r.choice([1, 1, 2, 3, 4, 6, 10])
        ind = [""]
        lines = []
        for _ in range(nl):
            k = r.random()
            if k < 0.5:
                pass
            elif k < 0.75:
                ind.append(ind[-1] + r.choice([" ", "  ", "\t", "    "]))
            elif k < 0.92 and len(ind) > 1:
                for _ in range(r.randint(1, len(ind) - 1)):
                    ind.pop()
            else:
                ind = ind[:1] + [r.choice(INDENTS)]   # likely bad indentation later
            lines.append(ind[-1] + self.soup_line(adjacent))
        end = r.choice(["\n", "\n", "", "\r\n"])
        return "\n".join(lines) + end

    def mutate(self, text):
        r = self.r
        s = list(text)
        pool = list(" \t\n_#\"\\-:=+0aAzZ$[]().,") + ["\r", "\r\n", "\u00a0", "\u2028", "\x0c", "\x85", "\u3000", "~", "\u00e9", "0x", "--", "  "]
        for _ in range(r.choice([1, 1, 2, 3, 5, 8])):
            if not s:
                s = list(r.choice(pool))
                continue
            i = r.randrange(len(s))
            k = r.random()
            if k < 0.3:
                del s[i]
            elif k < 0.6:
                s.insert(i, r.choice(pool))
            elif k < 0.75:
                s[i] = r.choice(pool)
            elif k < 0.85:
                j = min(len(s), i + r.randint(1, 30))
                del s[i:j]
            else:
                j = min(len(s), i + r.randint(1, 30))
                s[i:i] = s[i:j]
        return "".join(s)

    def corpus_slice(self):
        r = self.r
        name, text = r.choice(self.corpus)
        lines = text.split("\n")
        n = r.choice([3, 5, 8, 12, 20, 40])
        i = r.randrange(max(1, len(lines) - n + 1))
        return name, "\n".join(lines[i:i + n]) + r.choice(["\n", "", "\n\n"])

    def terminators(self):
        r = self.r
        terms = [chr(c) for c in self.t.breaks] + ["\r\n", "\n\r", "\r\r\n", "\n\n"]
        out = []
        for _ in range(r.randint(1, 6)):
            out.append(r.choice(["", " ", "  "]) + self.soup_line(False))
            out.append(r.choice(terms))
        if r.random() < 0.4:
            out.pop()
        if r.random() < 0.2:
            out.insert(0, r.choice(terms))
        return "".join(out)

    def unicode_ws(self):
        r = self.r
        ws = [chr(c) for c in self.t.ws if c not in self.t.breaks]
        near = ["\u200b", "\u180e", "\ufeff", "\u2060", "\x1b", "\x00", "\x7f"]   # look like space, are not
        lines = []
        ind = ""
        for _ in range(r.randint(1, 5)):
            k = r.random()
            if k < 0.4:
                ind = ind + r.choice(ws)
            elif k < 0.6:
                ind = ind[:-1]
            elif k < 0.7:
                ind = r.choice(ws) * r.randint(0, 3)
            parts = [ind]
            for _ in range(r.randint(0, 4)):
                parts.append(self.word())
                parts.append(r.choice(ws) if r.random() < 0.8 else r.choice(near))
            lines.append("".join(ch for ch in "".join(parts) if ord(ch) not in self.t.breaks))
        return "\n".join(lines) + r.choice(["\n", ""])

    def indent_walk(self):
        r = self.r
        lines = []
        for _ in range(r.randint(2, 12)):
            k = r.random()
            body = r.choice(["a", "b:", "# c", "", "-- d", "0", "x y", " ", "#"])
            lines.append(r.choice(INDENTS) * r.choice([1, 1, 1, 2]) + body)
        return "\n".join(lines) + r.choice(["\n", ""])

    def long_line(self, n):
        r = self.r
        parts = []
        total = 0
        while total < n:
            w = self.word() + r.choice(SEPS)
            parts.append(w)
            total += len(w)
        s = "".join(ch for ch in "".join(parts) if ord(ch) not in self.t.breaks)
        k = r.random()
        if k < 0.25:
            s = "# " + s
        elif k < 0.4:
            s = "-- " + s
        elif k < 0.5:
            s = '"' + s.replace('"', "").replace("\\", "") + '"'
        elif k < 0.6:
            s = "a" * n
        elif k < 0.7:
            s = "0x" + "_".join(["abcd"] * (n // 5))
        return r.choice(["", "  "]) + s + r.choice(["\n", ""])

    def random_short(self):
        r = self.r
        alpha = "aAzZ09_xb$\"\\#- \t\n:.=<>!&|+*?,[]()e~\u00e9\u00a0"
        return "".join(r.choice(alpha) for _ in range(r.randint(0, 8)))

    def boundary(self):
        r = self.r
        w = r.choice(BOUNDARY)
        k = r.random()
        if k < 0.3:
            return w
        if k < 0.6:
            return w + r.choice(BOUNDARY)
        if k < 0.8:
            return r.choice(["", " ", "x ", "1"]) + w + r.choice(["", " ", "\n", "_", "0", "a", "A", "$"])
        return self.mutate(w)


EDGE = ["", "\n", " ", "a", "\r\n", "\n\r", "#", " #c\n x", "a\n b", "a\n b\n", "a\n  b\n c\n", "a\n b\nc\n", " a", " a\n", "\ta\n a\n",
        "a\n\n\n", "\n\n a\n", "  # only comment\n", "a\n  # c\n b\n", "a\n b\n  c\n d\n", "a\n b\n  c", "a\n \n", "a\n\t\n", "a:\n  b\n\n  c\n",
        "a\x0cb", "a\x1cb\x1dc\x1ed", "a\x85b", "a\u2028b\u2029c", "a\x1fb", "a\x0bb", "a\r", "\r", "\r\r", "\r\n\r\n", " \r\n \r\n", "~", "a ~", "a\n~",
        " ~", "a\n b ~", "\u00a0a\n\u00a0\u00a0b\n", " a\n\tb\n", "a\n b\n\tc\n", "a\n -- d\n  -- e\n", "--\n", "-- \n", "--x\n", "a --\n", "a --", "--", "-- ",
        "  a\n b\n", "  a\nb\n", "  a\n    b\n  c\n d\n"]


# ---------------------------------------------------------------------------
# Independent checker of the C10 invariants on the implementation's output
# ---------------------------------------------------------------------------

class DocTokenizer:
    """Independent reference built from the DOCUMENTED table (doc/grammar.md rows, compiled with `re`):
    longest match with ties to the earlier row; "exists a match of exactly k characters" is decided with
    a look-ahead so that it does not depend on the backtracking order."""

    def __init__(self, doc_rows):
        self.rows = [(re.compile(src), sym, src) for src, _ast, sym in doc_rows]
        self._exact = {}

    def exact(self, idx, s, k):
        key = (idx, len(s) - k)
        rx = self._exact.get(key)
        if rx is None:
            rx = re.compile("(?:%s)(?=(?s:.{%d})\\Z)" % (self.rows[idx][2], len(s) - k))
            if len(self._exact) < 20000:
                self._exact[key] = rx
        return rx.match(s) is not None

    def longest(self, idx, s, cap=160):
        m = self.rows[idx][0].match(s)
        g = len(m.group(0)) if m else -1
        if len(s) <= cap:
            for k in range(len(s), g, -1):
                if self.exact(idx, s, k):
                    return k
        return g

    def best(self, s):
        bl, bs, bi = 0, None, None
        for i, (_rx, sym, _src) in enumerate(self.rows):
            n = self.longest(i, s)
            if n > bl:
                bl, bs, bi = n, sym, i
        return bl, bs, bi


def is_lower(c): return "a" <= c <= "z"
def is_upper(c): return "A" <= c <= "Z"
def is_digit(c): return "0" <= c <= "9"


def _groups_ok(body, digits, sizes, lead_underscore_ok):
    """body: after the 0x/0b prefix (or whole decimal); language-reference numeric formats."""
    if body and all(ch in digits for ch in body):
        return True
    for size in sizes:
        b = body
        if lead_underscore_ok and b.startswith("_"):
            b = b[1:]
        gs = b.split("_")
        if all(g and all(ch in digits for ch in g) for g in gs) and 1 <= len(gs[0]) <= size and all(len(g) == size for g in gs[1:]):
            return True
    return False


def number_ok(w):
    if w.startswith("0x"):
        return _groups_ok(w[2:], "0123456789abcdefABCDEF", (4, 8), True)
    if w.startswith("0b"):
        return _groups_ok(w[2:], "01", (4, 8), True)
    return _groups_ok(w, "0123456789", (3,), False)


def name_class_ok(sym, w):
    """language-reference 'Names' rules, written as character predicates (not regexes)."""
    if sym == "SnakeWord":
        return bool(w) and is_lower(w[0]) and all(is_lower(c) or is_digit(c) or c == "_" for c in w)
    if sym == "CamelWord":
        return (bool(w) and is_upper(w[0]) and all(is_lower(c) or is_upper(c) or is_digit(c) for c in w)
                and any(is_lower(c) for c in w))
    if sym == "ShoutyWord":
        return (len(w) >= 2 and is_upper(w[0]) and all(is_upper(c) or is_digit(c) or c == "_" for c in w)
                and any(is_upper(c) or c == "_" for c in w[1:]))
    if sym == "Number":
        return number_ok(w)
    return True


def check_invariants(text, tokens, doc, full_longest=True):
    """Return None if the C10 invariants hold for `tokens` (the implementation's successful output on
    `text`), else a short description.  Written from the property statement, independently of the model:
      cover / positions / longest-first (against the documented table) / newline per line /
      Indent-Dedent balance and mirroring / name and number classification."""
    lines = text.splitlines()
    per_line = {}
    for t in tokens:
        sl = t.source_location
        if sl.start.line != sl.end.line:
            return "token %s spans lines" % (t,)
        per_line.setdefault(sl.start.line, []).append(t)
    n = len(lines)
    stack = [""]
    # order: tokens must be grouped by ascending line
    last = 0
    for t in tokens:
        l = t.source_location.start.line
        if l < last:
            return "tokens not in line order at %s" % (t,)
        last = l
    for ln in sorted(per_line):
        if ln < 1:
            return "token on line %d" % ln
        if ln > n:
            # only the synthesised end-of-file Dedents may sit here (documented deviation F16)
            for t in per_line[ln]:
                sl = t.source_location
                if not (t.symbol == "Dedent" and t.text == "" and ln == n + 1 and sl.start.column == 1 and sl.end.column == 1):
                    return "token %s beyond the last line" % (t,)
    for ln in range(1, n + 1):
        L = lines[ln - 1]
        toks = per_line.get(ln, [])
        nls = [t for t in toks if t.symbol == '"\\n"']
        if len(nls) != 1 or toks[-1] is not nls[0]:
            return "line %d: not exactly one newline token at the end of the line's tokens" % ln
        nl = nls[0]
        if nl.text != "\n" or nl.source_location.start.column != len(L) + 1 or nl.source_location.end.column != len(L) + 1:
            return "line %d: newline token misplaced %s" % (ln, nl)
        body = toks[:-1]
        pre = []
        while body and body[0].symbol in ("Indent", "Dedent"):
            pre.append(body.pop(0))
        if any(t.symbol in ("Indent", "Dedent") for t in body):
            return "line %d: Indent/Dedent after a lexical token" % ln
        col = 1
        for t in body:
            sl = t.source_location
            a, b = sl.start.column, sl.end.column
            if a < col:
                return "line %d: token %s overlaps the previous one" % (ln, t)
            if L[col - 1:a - 1].strip() != "":
                return "line %d: non-blank characters %r not covered by a token" % (ln, L[col - 1:a - 1])
            if b > len(L) + 1 or L[a - 1:b - 1] != t.text or b != a + len(t.text) or not t.text:
                return "line %d: token %s text is not the source slice %r" % (ln, t, L[a - 1:b - 1])
            if full_longest and len(L) <= 400:
                bl, bs, _ = doc.best(L[a - 1:])
                # white-space rows are skipped, so a token never starts inside a skippable match
                if bl != len(t.text) or bs != t.symbol:
                    return ("line %d col %d: token %r/%s is not the longest-first match of the documented table (%d/%s)"
                            % (ln, a, t.text, t.symbol, bl, bs))
            if not name_class_ok(t.symbol, t.text):
                return "line %d: %r classified %s against the language reference" % (ln, t.text, t.symbol)
            col = b
        if L[col - 1:].strip() != "":
            return "line %d: trailing non-blank characters %r not covered" % (ln, L[col - 1:])
        if full_longest and len(L) <= 400:
            # gaps: every gap must itself be skipped by no-symbol rows only (checked by re-tokenising the gap start)
            pass
        significant = any(t.symbol != "Comment" for t in body)
        lw = L[:len(L) - len(L.lstrip())]
        if not significant:
            if pre:
                return "line %d: Indent/Dedent on a blank/comment-only line" % ln
            continue
        for t in pre:
            sl = t.source_location
            if t.symbol == "Indent":
                new = stack[-1] + t.text
                if not t.text or L[sl.start.column - 1:sl.end.column - 1] != t.text or sl.start.column != len(stack[-1]) + 1:
                    return "line %d: Indent token %s is not the new part of the leading white space" % (ln, t)
                stack.append(new)
            else:
                if t.text != "" or sl.start.column != sl.end.column or sl.start.column != len(lw) + 1:
                    return "line %d: Dedent token malformed %s" % (ln, t)
                if len(stack) <= 1:
                    return "line %d: Dedent below the outermost level" % ln
                stack.pop()
        if len([t for t in pre if t.symbol == "Indent"]) > 1 or (
                any(t.symbol == "Indent" for t in pre) and any(t.symbol == "Dedent" for t in pre)):
            return "line %d: mixed/multiple Indent tokens" % ln
        if stack[-1] != lw:
            return "line %d: open indentation level %r does not mirror the leading white space %r" % (ln, stack[-1], lw)
    for t in per_line.get(n + 1, []):
        if len(stack) <= 1:
            return "end of file: Dedent below the outermost level"
        stack.pop()
    if len(stack) != 1:
        return "end of file: %d indentation levels left open (Indent/Dedent unbalanced)" % (len(stack) - 1)
    return None


def check_error(text, err, doc):
    """The implementation returned an error: is it justified?  (kind, line, c0, c1)"""
    kind, ln, a, b = err
    lines = text.splitlines()
    if not (1 <= ln <= len(lines)):
        return "error on line %d outside the text" % ln
    L = lines[ln - 1]
    if kind == "token":
        if b != a + 1 or not (1 <= a <= len(L)):
            return "Unrecognized-token error at columns %d-%d outside line %r" % (a, b, L)
        if len(L) <= 400:
            # walk the line with the documented table up to the error column
            off = 0
            while off < a - 1:
                bl, _, _ = doc.best(L[off:])
                if bl == 0:
                    return "documented table is stuck at column %d, implementation reports column %d" % (off + 1, a)
                off += bl
            if off != a - 1:
                return "error column %d is inside a documented-table token ending at column %d" % (a, off + 1)
            if doc.best(L[off:])[0] != 0:
                return "documented table matches at column %d where the implementation reports Unrecognized token" % a
        return None
    if kind == "indent":
        lw = L[:len(L) - len(L.lstrip())]
        if a != 1 or b != len(lw) + 1:
            return "Bad-indentation error span %d-%d is not the leading white space" % (a, b)
        # replay the open levels from the preceding lines (declaratively: a level w stays open while every
        # later significant line's leading white space starts with w)
        levels = [""]
        for M in lines[:ln - 1]:
            body = M.strip()
            if body == "" or body.startswith("#"):
                continue
            mw = M[:len(M) - len(M.lstrip())]
            levels = [x for x in levels if mw.startswith(x)]
            if mw not in levels:
                levels.append(mw)
        if lw.startswith(levels[-1]) or lw in levels:
            return "Bad indentation reported although %r %s" % (lw, "extends the current level" if lw.startswith(levels[-1]) else "is an open level")
        return None
    return "unknown error kind"


# ---------------------------------------------------------------------------
# C11: grammar-directed generator of small parseable modules that stress the formatter's
# spacing decisions (operator adjacency incl. unary +/- after binary operators, inline
# documentation / comments with trailing blanks on neighbouring rows, odd gaps)
# ---------------------------------------------------------------------------

BINOPS = ["+", "-", "*", "==", "!=", "<", "<=", ">", ">=", "&&", "||"]
TAILS = ["", "", "", "  -- doc", "  -- doc   ", "  -- d \t", "  # c", "  # c   ", "  --", "  --   ", "  #", "  #  ",
         "  -- much longer documentation text  ", "  #comment without space"]


class FmtGen:
    def __init__(self, rng):
        self.r = rng

    # -- expressions (syntax only; the parser is the oracle for validity) --
    def atom(self, d):
        r = self.r
        k = r.random()
        if k < 0.30:
            return r.choice(["a", "b", "x", "a.b", "$next", "$size_in_bytes", "Enum.VALUE"])
        if k < 0.60:
            return r.choice(["0", "1", "2", "10", "0x10", "0b1", "1_000", "255"])
        if k < 0.70:
            return r.choice(["true", "false"])
        if k < 0.85 and d > 0:
            return "(" + self.expr(d - 1) + ")"
        if d > 0:
            return r.choice(["$max", "$present", "$upper_bound", "$lower_bound"]) + "(" + ", ".join(
                self.expr(d - 1) for _ in range(r.choice([1, 1, 2, 3]))) + ")"
        return "0"

    def unary(self, d):
        r = self.r
        k = r.random()
        if k < 0.30:
            return r.choice(["-", "+", "- ", "+ "]) + self.atom(d)
        return self.atom(d)

    def expr(self, d):
        r = self.r
        n = r.choice([1, 1, 2, 2, 3])
        parts = [self.unary(d)]
        op = r.choice(BINOPS)
        for _ in range(n - 1):
            if r.random() < 0.5:
                op = r.choice(["+", "-", "*", op])
            parts.append(r.choice([" ", " ", "", "  "]) + op + r.choice([" ", " ", "", "  "]))
            parts.append(self.unary(d))
        s = "".join(parts)
        if r.random() < 0.12 and d > 0:
            s = s + " ? " + self.expr(d - 1) + " : " + self.expr(d - 1)
        return s

    def tail(self):
        # trailing blanks after inline documentation are rare on purpose: that construct has a listed
        # defect (found by sweep()), and modules free of it probe for other defects
        r = self.r
        if r.random() < 0.04:
            return r.choice(["  -- doc   ", "  -- d \t", "  --   ", "  -- much longer documentation text  "])
        return r.choice(["", "", "", "  -- doc", "  # c", "  # c   ", "  --", "  #", "  #  ", "  -- much longer documentation text",
                         "  #comment without space"])

    def field(self, ind, names):
        r = self.r
        nm = r.choice(["a", "bb", "ccc", "long_field_name", "x"]) + str(len(names))
        names.append(nm)
        k = r.random()
        gap = lambda: r.choice(["  ", "  ", " ", "   ", "\t"])
        if k < 0.55:
            ty = r.choice(["UInt", "Int", "Flag", "UInt:8", "Bcd", "Foo", "UInt:8[4]", "UInt[]", "Enum"])
            loc = r.choice(["0", "1", "$next", self.expr(1)]) + gap() + "[+" + r.choice(["1", "4", self.expr(1)]) + "]"
            line = ind + loc + gap() + ty + gap() + nm
            if r.random() < 0.2:
                line += " (" + r.choice(["q", "abbr"]) + ")"
            return [line + self.tail()] + self.body_lines(ind + "  ", docs=True, p=0.2)
        if k < 0.62 and len(ind) < 8:
            # anonymous bits / inline struct, bits, enum: bodies that start with attribute / doc lines
            which = r.choice(["anon", "anon", "struct", "bits", "enum"])
            loc = r.choice(["0", "$next", "4"]) + gap() + "[+" + r.choice(["1", "2", "4"]) + "]"
            sub = ind + r.choice(["  ", "  ", "    ", " "])
            if which == "anon":
                ls = [ind + loc + gap() + "bits:" + r.choice(["", "  # c"])] + self.body_lines(sub, docs=False, p=0.5)
            elif which == "enum":
                ls = [ind + loc + gap() + "enum " + nm + ":" + r.choice(["", "  # c"])] + self.body_lines(sub, docs=True, p=0.5)
                for i in range(r.choice([1, 2, 3])):
                    ls.append(sub + "V_%d = %d" % (i, i) + self.tail())
                    ls += self.body_lines(sub + "  ", docs=True, p=0.25)
                return ls
            else:
                ls = [ind + loc + gap() + which + " " + nm + ":" + r.choice(["", "  # c"])] + self.body_lines(sub, docs=True, p=0.5)
            inner = []
            for _ in range(r.choice([1, 2, 3])):
                ls += self.field(sub, inner)
            return ls
        if k < 0.80:
            return [ind + "let " + nm + " = " + self.expr(2) + self.tail()]
        if k < 0.90:
            return [ind + "[requires: " + self.expr(2) + "]" + r.choice(["", "  # c", "  # c  "])]
        body = self.field(ind + "  ", names)
        return [ind + "if " + self.expr(1) + ":" + r.choice(["", "  # c", "  # c  "])] + body

    def body_lines(self, ind, docs, p):
        """documentation / attribute / comment lines at the start of an indented body"""
        r = self.r
        if r.random() >= p:
            return []
        pool = ['[text_output: "Skip"]', "[requires: this == 0]", '[(cpp) namespace: "n"]  # c', "# comment", ""]
        if docs:
            pool = ["-- doc", "-- doc  ", "--", "-- second line"] + pool
        n = r.choice([1, 1, 2, 3])
        picked = [r.choice(pool) for _ in range(n)]
        if docs:    # the grammar wants documentation before attributes
            picked.sort(key=lambda l: (0 if l.startswith("--") else 1))
        return [(ind + l) if l else l for l in picked]

    def module(self):
        r = self.r
        lines = []
        if r.random() < 0.3:
            lines += ["# header comment" + r.choice(["", "  "]), ""]
        if r.random() < 0.3:
            lines += ["-- module doc" + r.choice(["", "   "])]
        if r.random() < 0.3:
            lines += ['[$default byte_order: "LittleEndian"]' + r.choice(["", "  # c "])]
        for _ in range(r.choice([1, 1, 2, 3])):
            kind = r.random()
            if kind < 0.6:
                head = r.choice(["struct", "bits"]) + " " + r.choice(["Foo", "Bar", "BazQux"])
                if r.random() < 0.2:
                    head += "(p: UInt:8)"
                lines.append(head + ":" + r.choice(["", "", "  # h", "  # h  "]))
                if r.random() < 0.3:
                    lines.append("  -- type doc" + r.choice(["", "", "", "  "]))
                lines += self.body_lines("  ", docs=False, p=0.3)
                if r.random() < 0.15:
                    lines.append("  " + r.choice(["struct", "bits"]) + " Nested:")
                    lines += self.body_lines("    ", docs=True, p=0.6)
                    nn = []
                    for _ in range(r.choice([1, 2])):
                        lines += self.field("    ", nn)
                names = []
                for _ in range(r.choice([1, 2, 2, 3, 5])):
                    lines += self.field("  ", names)
                    if r.random() < 0.15:
                        lines.append(r.choice(["", "  # standalone", "    -- field doc" + r.choice(["", "", "", "  "])]))
            else:
                lines.append("enum " + r.choice(["Enum", "Kind"]) + ":" + r.choice(["", "  # h "]))
                lines += self.body_lines("  ", docs=True, p=0.4)
                for i in range(r.choice([1, 2, 3, 4])):
                    lines.append("  " + r.choice(["A", "BB", "LONG_NAME", "V"]) + "_%d" % i + r.choice([" ", "  ", "   "]) + "=" +
                                 r.choice([" ", "  "]) + r.choice([str(i), self.expr(1)]) + self.tail())
            if r.random() < 0.5:
                lines.append("")
        return "\n".join(lines) + r.choice(["\n", "\n", ""])

    # -- systematic part, identical for every seed: small enough to run each time --
    @staticmethod
    def sweep():
        out = []
        ctxs = ["struct Foo:\n  0 [+1]  UInt  a\n  let b = %s\n",
                "struct Foo:\n  0 [+%s]  UInt  a\n",
                "struct Foo:\n  0 [+1]  UInt  a\n  if %s:\n    1 [+1]  UInt  b\n",
                "enum Enum:\n  VALUE = %s\n",
                "struct Foo:\n  0 [+1]  UInt  a\n    [requires: %s]\n"]
        for c in ctxs:
            for op in ["+", "-", "*", "==", "<", "&&"]:
                for un in ["-", "+"]:
                    for lhs, rhs in (("a", "1"), ("1", "a"), ("(a)", "(1)")):
                        out.append(("sweep-operators", c % ("%s %s %s%s" % (lhs, op, un, rhs))))
            out.append(("sweep-operators", c % "a - -1 - -1"))
            out.append(("sweep-operators", c % "-a - -(-1)"))
        tails = ["", "  -- doc", "  -- doc   ", "  # c", "  # c   ", "  --", "  --   ", "  #", "  #   "]
        rows = [("struct Foo:", "  0 [+1]  UInt  a%s", "  1 [+1]  UInt  bb%s"),
                ("bits Foo:", "  0 [+1]  Flag  a%s", "  1 [+1]  Flag  bb%s"),
                ("enum Enum:", "  AA = 1%s", "  BBB = 2%s"),
                ("struct Foo:", "  let a = 1%s", "  let bb = 2%s")]
        for h, r1, r2 in rows:
            for t1 in tails:
                for t2 in tails:
                    out.append(("sweep-row-tails", h + "\n" + (r1 % t1) + "\n" + (r2 % t2) + "\n"))
        return out + sweep_bodies() + sweep_token_text()


# ---------------------------------------------------------------------------
# C11: every kind of indented body with documentation / attribute / comment lines at its start,
# middle and end (seed independent; appended to FmtGen.sweep by sweep_bodies())
# ---------------------------------------------------------------------------

_DOC = "-- doc"
_ATTR = '[text_output: "Skip"]'
_ATTR2 = '[(cpp) namespace: "x"]'
_REQ = "[requires: this == 0]"


def _ind(lines, n):
    return [(" " * n + l) if l else l for l in lines]


def sweep_bodies():
    out = []
    heads_full = [[], [_DOC], [_ATTR], [_DOC, _ATTR], [_DOC, _DOC, _ATTR, _ATTR2], ["# c", _ATTR], [_DOC, "", _ATTR]]
    heads_attr = [[], [_ATTR], [_ATTR, _ATTR2], ["# c", _ATTR], [_ATTR, "# c"], [_REQ]]      # anonymous bits: attributes only
    fbodies = [[], [_DOC], [_ATTR], [_DOC, _ATTR], [_DOC, "# c", _REQ]]                      # under a field / enum value

    def add(shape, lines):
        out.append((shape, "\n".join(lines) + "\n"))

    def fields(kind, fb_first, fb_mid, fb_last, n):
        ty = "Flag" if kind == "bits" else "UInt"
        ls = ["0 [+1]  %s  a" % ty] + _ind(fb_first, 2)
        ls += ["1 [+1]  %s  bb" % ty] + _ind(fb_mid, 2)
        ls += ["2 [+1]  %s  ccc" % ty] + _ind(fb_last, 2)
        return _ind(ls, n)

    # 1. top-level struct / bits / enum / external bodies
    for h in heads_full:
        for fb in fbodies:
            for kind in ("struct", "bits"):
                add("sweep-body-type", ["%s Foo:" % kind] + _ind(h, 2) + fields(kind, fb, [], fb, 2))
                add("sweep-body-type", ["%s Foo:" % kind] + _ind(h, 2) + fields(kind, [], fb, [], 2))
            add("sweep-body-enum", ["enum Kind:"] + _ind(h, 2) + _ind(["AA = 1"] + _ind(fb, 2) + ["BB = 2", "CCC = 3"] + _ind(fb, 2), 2))
        add("sweep-body-external", ["external Ext:"] + _ind(h or [_ATTR], 2))
    # 2. anonymous bits inside a struct: attributes at the start of the body, field bodies inside, fields after
    for h in heads_attr:
        for fb in fbodies:
            add("sweep-body-anonymous-bits",
                ["struct Foo:", "  0 [+1]  bits:"] + _ind(h, 4) + fields("bits", fb, [], fb, 4) + ["  1 [+1]  UInt  tail"] + _ind(fb, 4))
            add("sweep-body-anonymous-bits",
                ["struct Foo:", "  0 [+1]  UInt  lead"] + _ind(fb, 4) + ["  1 [+1]  bits:  # c"] + _ind(h, 4) + fields("bits", [], fb, [], 4))
            add("sweep-body-anonymous-bits",
                ["struct Foo:", "  0 [+1]  bits:"] + _ind(h, 4) + ["    if true:"] + fields("bits", fb, [], fb, 6) + ["    3 [+1]  Flag  z"])
    # 3. inline struct / bits / enum under a field
    for h in heads_full:
        for fb in fbodies[:4]:
            for kind in ("struct", "bits"):
                add("sweep-body-inline-type",
                    ["struct Foo:", "  0 [+4]  %s inner:" % kind] + _ind(h, 4) + fields(kind, fb, [], fb, 4) + ["  4 [+1]  UInt  tail"])
            add("sweep-body-inline-type",
                ["struct Foo:", "  0 [+1]  enum kind:"] + _ind(h, 4) + _ind(["AA = 1"] + _ind(fb, 2) + ["BB = 2"], 4) + ["  1 [+1]  UInt  tail"] + _ind(fb, 4))
            add("sweep-body-inline-type",
                ["bits Foo:", "  0 [+4]  bits inner:"] + _ind(h, 4) + fields("bits", [], fb, [], 4) + ["  4 [+1]  enum kind:"] + _ind(h, 4) + ["    AA = 1"])
    # 4. conditional blocks whose members carry indented doc / attribute lines
    for fb in fbodies:
        for kind in ("struct", "bits"):
            add("sweep-body-conditional", ["%s Foo:" % kind, "  0 [+1]  %s  sel" % ("Flag" if kind == "bits" else "UInt"),
                                           "  if sel == 1:  # c"] + fields(kind, fb, fb, fb, 4) + ["  3 [+1]  UInt  tail"])
        for h in heads_attr[:4]:
            add("sweep-body-conditional", ["struct Foo:", "  0 [+1]  UInt  sel", "  if sel == 1:", "    1 [+1]  bits:"] + _ind(h, 6)
                + fields("bits", fb, [], [], 6) + ["    2 [+1]  UInt  x"] + _ind(fb, 6))
        for h in heads_full[:5]:
            add("sweep-body-conditional", ["struct Foo:", "  0 [+1]  UInt  sel", "  if sel == 1:", "    1 [+4]  struct inner:"] + _ind(h, 6)
                + fields("struct", [], fb, [], 6) + ["    5 [+1]  enum kind:"] + _ind(h, 6) + ["      AA = 1"] + _ind(fb, 8))
    # 5. nested twice: type definitions inside types, inline types inside inline types, anonymous bits inside inline struct
    for h in heads_full[:5]:
        for fb in fbodies[:4]:
            add("sweep-body-nested", ["struct Outer:"] + _ind(h, 2) + ["  struct Mid:"] + _ind(h, 4) + ["    bits Inner:"] + _ind(h, 6)
                + fields("bits", fb, [], fb, 6) + ["    0 [+1]  Inner  i"] + _ind(fb, 6) + ["  0 [+1]  Mid  m"] + _ind(fb, 4))
            add("sweep-body-nested", ["struct Outer:", "  0 [+8]  struct mid:"] + _ind(h, 4) + ["    0 [+4]  struct inner:"] + _ind(h, 6)
                + fields("struct", fb, [], [], 6) + ["    4 [+1]  bits:"] + _ind([x for x in h if x != _DOC and x != ""], 6)
                + fields("bits", [], fb, [], 6) + ["  8 [+1]  UInt  tail"])
            add("sweep-body-nested", ["struct Outer:", "  0 [+1]  UInt  sel", "  if sel == 1:", "    1 [+8]  struct mid:"] + _ind(h, 6)
                + ["      if true:"] + fields("struct", fb, [], fb, 8) + ["      3 [+1]  bits:"] + _ind([x for x in h if x != _DOC and x != ""], 8)
                + fields("bits", fb, [], [], 8))
    return out


# ---------------------------------------------------------------------------
# C11: token TEXT must survive formatting exactly (modulo the strip at the ends): string constants
# (attribute values at every scope, import file names), documentation and comments with interior
# runs of blanks, tabs, escapes, unusual blanks and non-ASCII characters (seed independent)
# ---------------------------------------------------------------------------

INTERIORS = ["a  b", "a\tb", "a \t b", "kCamelCase,  SHOUTY_CASE", "a   b   c", "  lead", "trail  ", "\t", " ",
             "x\\\"y", "x\\\\y", "x\\ny", "x \\\"  \\\\  \\n y", "a b", "a　 b", "é日本  \U0001f600", ""]


def sweep_token_text():
    out = []

    def add(lines):
        out.append(("sweep-token-text", "\n".join(lines) + "\n"))
    for s in INTERIORS:
        q = '"%s"' % s
        plain = s.replace("\\\"", "'").replace("\\\\", "/").replace("\\n", " n ")   # for docs / comments
        # string constants: attribute values at every scope, import names
        add(['[$default byte_order: %s]' % q, '[(cpp) namespace: %s]' % q, "struct Foo:", "  [text_output: %s]" % q,
             "  0 [+1]  UInt  a", "    [text_output: %s]" % q, "  1 [+1]  bits:", "    [text_output: %s]" % q, "    0 [+1]  Flag  f",
             "      [(cpp) name: %s]" % q])
        add(["enum Kind:", "  [enum_case: %s]" % q, "  AA = 1  [(cpp) enum_case: %s]" % q, "  BB = 2", "    [enum_case: %s]" % q])
        add(["external Ext:", "  [(cpp) type: %s]" % q, "bits Bar:", "  [x: %s]  # c  %s" % (q, plain), "  0 [+1]  Flag  a"])
        add(['import %s as imp' % q, 'import %s as imp2  # c\t%s' % (q, plain), "struct Foo:", "  0 [+1]  UInt  a"])
        add(["struct Foo:", "  0 [+4]  struct inner:", "    [a: %s]" % q, "    0 [+1]  UInt  x", "      [b: %s]" % q, "  if true:",
             "    4 [+1]  enum kind:", "      [c: %s]" % q, "      AA = 0"])
        # documentation and comments with the same interiors
        add(["# top %s end" % plain, "-- module %s doc" % plain, "struct Foo:  # h %s h" % plain, "  -- type %s doc" % plain,
             "  0 [+1]  UInt  a  -- inline %s doc" % plain, "    -- field %s doc" % plain, "  1 [+1]  UInt  bb  # tail %s c" % plain,
             "  # standalone %s c" % plain])
        add(["enum Kind:  # h %s" % plain, "  -- %s" % plain, "  AA = 1  -- v %s doc" % plain, "    -- body %s doc" % plain,
             "  BB = 2  # c %s c" % plain])
        add(["struct Foo:", "\t0 [+1]  UInt  a\t-- tab\t%s\tdoc" % plain, "\t1 [+1]  UInt  b\t#\ttab\t%s\tcomment" % plain,
             "\tlet c = 1\t# %s" % plain])
    return out
