"""Random reference graphs realised as Emboss modules (C15).

A `DepsModules` object is built from a random.Random: it chooses a set of
modules (files), structures with parameters and fields, enums with values, and
a dependency relation between those objects, and renders .emb text in which
every chosen dependency is an actual reference.  Every way the language lets
one object mention another is used (edge kinds, recorded per edge):

  cond      existence condition            `if a + b == 1:`
  start     field location, start          `a + 1 [+1]  UInt  x`
  size      field location, size           `0 [+a]  UInt:8[]  x`
  alen      array length                   `0 [+4]  UInt:8[a]  x`
  args      argument of a parameterised type (a field, an expression, a member)
                                           `0 [+1]  Pk(a + b.v)  x`
  value     virtual field / alias          `let x = a + 1`, `let x = a`, `let x = b.v`
  next      `$next` as the start: stands for start + size of the previous
            physical field, so the field mentions everything that location mentions
  enumvalue enum value                     `VA1 = (Ee.VB0 == Ee.VB0 ? 1 : 0) + Ss.f`
  synth     the compiler-generated $size_in_bytes / $size_in_bits of a structure mentions what the
            conditions, starts and sizes of its physical fields mention; $max_size_in_* and
            $min_size_in_* mention $size_in_*.  These generated fields are nodes of the graph: fields
            mention them locally (`$size_in_bytes [+1] UInt x`, `let t = $max_size_in_bytes`) and
            across structures (`Sb.$size_in_bytes`), in acyclic and in cyclic ways.
with the target qualifiers  :synth / :static-synth (a generated size field, local / of another
structure),  :param (run-time parameter), :member (`b.v`, a
member of a structure-typed field: the dependency is on `b`), :static
(`Ss.f`, a field of another structure, possibly of an imported module), :enum.
`[requires: ...]` attributes (on a field: `this` only; on a structure: any
fields) are written too; attributes are not dependencies, so they add no edge.

Shapes: acyclic under a random topological order that is unrelated to source
order ("acyclic"), acyclic with source order already valid ("sorted"), self
loops ("self"), one long cycle ("cycle"), several strongly connected
components ("multi"), dense random ("dense"), import cycles ("import").

`planted()` is the dependency graph *by construction* (from the text that was
written, `$next` expanded by the rule above); the checks take the expected
cycle verdict, the expected components and the expected field order from it,
never from the compiler's own dependency map.
"""

LETTERS = "abcdefghijklmnopqrstuvwxyz"
FKINDS = ["int", "int", "array", "array", "virtual", "virtual", "struct", "pstruct", "pstruct"]


class Node:
    __slots__ = ("kind", "module", "owner", "name", "deps", "fkind", "rank", "final", "labels")

    def __init__(self, kind, module, owner, name):
        self.kind, self.module, self.owner, self.name = kind, module, owner, name
        self.deps = []
        self.fkind = None
        self.rank = 0
        self.final = None      # the dependencies actually written (list of Node), set by rendering
        self.labels = []       # (target Node, edge kind label)

    def key(self, files):
        # the hashable form the compiler uses: (file, Type, member)
        return (files[self.module], self.owner, self.name)


class DepsModules:
    SHAPES = ["acyclic", "acyclic", "sorted", "self", "cycle", "cycle", "multi", "dense", "import"]

    def __init__(self, rng, shape=None, size=None):
        self.rng = rng
        self.shape = shape or rng.choice(self.SHAPES)
        self.size = size or rng.choice([1, 1, 2, 2, 3])
        self._files = None
        self.build()
        self.file_map()

    # -- structure of the universe ---------------------------------------------
    def build(self):
        r = self.rng
        nmod = 1 if r.random() < 0.5 else r.randint(2, 3)
        if self.shape == "import":
            nmod = r.randint(2, 3)
        self.files = ["m%d.emb" % i for i in range(nmod)]
        self.nodes = []
        self.structs = []   # (module, name, params[Node], fields[Node])
        self.synth = {}     # (module, name) -> [$size_in_X, $max_size_in_X, $min_size_in_X]
        self.bits = {}      # (module, name) -> is it a `bits` type
        self.enums = []     # (module, name, values[Node])
        sc = ec = 0
        for m in range(nmod):
            for _ in range(r.randint(1, 1 + self.size) if m == 0 else r.randint(0, 2)):
                sname = "S" + LETTERS[sc]
                sc += 1
                bits = r.random() < 0.2
                params = [] if bits else [Node("param", m, sname, "p%d" % i) for i in range(r.choice([0, 0, 1, 2]))]
                nf = r.randint(2, 4 + 3 * self.size)
                fields = []
                for i in range(nf):
                    n = Node("field", m, sname, "%s%d" % (LETTERS[(sc - 1) % 26], i))
                    n.fkind = r.choice(["int", "int", "virtual"]) if bits else r.choice(FKINDS)
                    fields.append(n)
                unit = "bits" if bits else "bytes"
                synth = [Node("field", m, sname, "$%ssize_in_%s" % (pre, unit)) for pre in ("", "max_", "min_")]
                for n in synth:
                    n.fkind = "synthetic"
                self.structs.append((m, sname, params, fields))
                self.synth[(m, sname)] = synth
                self.bits[(m, sname)] = bits
                self.nodes += params + fields + synth
            for _ in range(r.randint(0, 2)):
                ename = "E" + LETTERS[ec]
                ec += 1
                vals = [Node("value", m, ename, "V%s%d" % (LETTERS[(ec - 1) % 26].upper(), i))
                        for i in range(r.randint(1, 4))]
                self.enums.append((m, ename, vals))
                self.nodes += vals
        self.imports = {m: set(range(m + 1, nmod)) for m in range(nmod)}   # m imports the later modules
        self.trim_imports = nmod > 1 and self.shape != "import" and r.random() < 0.5
        ranks = list(range(len(self.nodes)))
        if self.shape != "sorted":
            r.shuffle(ranks)
        for n, k in zip(self.nodes, ranks):
            n.rank = k
        # a generated size field ranks just above the physical fields it is computed from, so that in
        # the acyclic shapes only later-ranked objects mention it
        for (m, sname, params, fields) in self.structs:
            phys = [f.rank for f in fields if f.fkind != "virtual"]
            base = (max(phys) if phys else -1) + 0.5
            for n, d in zip(self.synth[(m, sname)], (0.0, 0.1, 0.2)):
                n.rank = base + d
        self.choose_edges()
        if self.shape == "import":
            self.plant_import_cycle()

    def allowed(self, u, v):
        if u.kind == "param" or u.fkind == "synthetic":
            return False
        if u.kind == "field" and v.kind in ("field", "param") and v.module == u.module and v.owner == u.owner:
            return True
        if v.kind == "value" or (v.kind == "field" and v.fkind in ("virtual", "synthetic")):
            return v.module == u.module or v.module in self.imports[u.module]
        return False

    def add_edge(self, u, v):
        if v not in u.deps:
            u.deps.append(v)

    def acyclic_shape(self):
        return self.shape in ("acyclic", "sorted", "import")

    def choose_edges(self):
        r = self.rng
        nodes = self.nodes
        density = {"dense": 0.35}.get(self.shape, r.choice([0.08, 0.15, 0.25]))
        for u in nodes:
            cands = [v for v in nodes if self.allowed(u, v) and (self.shape == "dense" or v.rank < u.rank)]
            if self.shape == "dense":
                cands = [v for v in cands if v is not u or r.random() < 0.2]
            for v in cands:
                local = v.module == u.module and v.owner == u.owner
                if r.random() < (density * (2.0 if local else 0.6)):
                    self.add_edge(u, v)
        self.planted_cycles = []
        if not self.acyclic_shape() and r.random() < 0.5:
            self.plant_size_uses()
        if self.shape == "self":
            for _ in range(r.randint(1, 3)):
                c = [u for u in nodes if self.allowed(u, u)]
                if c:
                    u = r.choice(c)
                    self.add_edge(u, u)
                    self.planted_cycles.append([u])
        elif self.shape == "cycle":
            self.plant_cycle(r.choice([2, 2, 3, 4, 5, 8, 12]))
        elif self.shape == "multi":
            for _ in range(r.randint(2, 4)):
                if r.random() < 0.3:
                    c = [u for u in nodes if self.allowed(u, u)]
                    if c:
                        u = r.choice(c)
                        self.add_edge(u, u)
                        self.planted_cycles.append([u])
                else:
                    self.plant_cycle(r.choice([2, 3, 4, 6]))

    def plant_size_uses(self):
        """Mention generated size fields from physical fields of the same structure, or of two structures
        of one module mutually: a cycle when the mention lands in a condition, start or size."""
        r = self.rng
        for _ in range(r.randint(1, 3)):
            (m, sname, params, fields) = r.choice(self.structs)
            phys = [f for f in fields if f.fkind != "virtual"]
            if not phys:
                continue
            if r.random() < 0.6:
                self.add_edge(r.choice(phys), r.choice(self.synth[(m, sname)]))
            else:
                others = [t for t in self.structs if t[0] == m and t[1] != sname and any(f.fkind != "virtual" for f in t[3])]
                if others:
                    (m2, s2, p2, f2) = r.choice(others)
                    self.add_edge(r.choice(phys), r.choice(self.synth[(m2, s2)]))
                    self.add_edge(r.choice([f for f in f2 if f.fkind != "virtual"]), r.choice(self.synth[(m, sname)]))

    def pools(self):
        ps = []
        for (m, sname, params, fields) in self.structs:
            ps.append(list(fields))                   # (generated size fields take no chosen edges)
        for m in range(len(self.files)):
            pool = [n for n in self.nodes if n.module == m and
                    (n.kind == "value" or (n.kind == "field" and n.fkind == "virtual"))]
            ps.append(pool)
        return [p for p in ps if len(p) >= 2]

    def plant_cycle(self, length):
        r = self.rng
        ps = self.pools()
        if not ps:
            return
        pool = r.choice(ps)
        length = min(length, len(pool))
        cyc = r.sample(pool, length)
        for a, b in zip(cyc, cyc[1:] + cyc[:1]):
            self.add_edge(a, b)
        self.planted_cycles.append(cyc)

    def plant_import_cycle(self):
        r = self.rng
        nmod = len(self.files)
        k = r.random()
        if k < 0.25:
            m = r.randrange(nmod)
            self.imports[m].add(m)                 # a module importing itself
            self.import_cycle = [m]
        else:
            a = r.randrange(1, nmod)
            b = r.randrange(0, a)
            self.imports[a].add(b)                 # a later module imports an earlier one
            self.import_cycle = [b, a]

    # -- rendering -------------------------------------------------------------
    def is_local(self, u, v):
        return u.kind == "field" and v.kind in ("field", "param") and v.module == u.module and v.owner == u.owner

    def ref(self, u, v):
        """Text of a reference to node v inside node u (an integer-typed atom)."""
        if self.is_local(u, v):
            if v.kind == "field" and v.fkind == "synthetic":
                return v.name
            if v.kind == "field" and v.fkind == "array":
                return "($present(%s) ? 1 : 0)" % v.name      # arrays are not integers
            if v.kind == "field" and v.fkind in ("struct", "pstruct"):
                return "%s.v" % v.name                         # a member: the dependency is on v itself
            return v.name
        q = "" if v.module == u.module else "x%d." % v.module
        if v.kind == "value":
            return "(%s%s.%s == %s%s.%s ? 1 : 0)" % (q, v.owner, v.name, q, v.owner, v.name)
        return "%s%s.%s" % (q, v.owner, v.name)

    def qualifier(self, u, v):
        if v.kind == "param":
            return ":param"
        if v.kind == "value":
            return ":enum"
        if v.fkind == "synthetic":
            return ":synth" if self.is_local(u, v) else ":static-synth"
        if not self.is_local(u, v):
            return ":static"
        if v.fkind in ("struct", "pstruct"):
            return ":member"
        return ""

    def sum_of(self, u, deps, base):
        parts = [self.ref(u, v) for v in deps]
        if not parts:
            return str(base)
        if base:
            parts.append(str(base))
        return " + ".join(parts)

    def render_struct(self, L, m, sname, params, fields):
        r = self.rng
        plist = "(%s)" % ", ".join("%s: UInt:8" % p.name for p in params) if params else ""
        bits = self.bits[(m, sname)]
        L.append("%s %s%s:" % ("bits" if bits else "struct", sname, plist))
        size_deps_all = []      # what $size_in_* mentions: conditions, starts and sizes of the physical fields
        if r.random() < 0.3:
            # attributes are not dependencies: may mention anything, adds no edge
            some = r.sample(fields, min(len(fields), r.randint(1, 2)))
            L.append("  [requires: %s < 1000]" % " + ".join(self.ref(fields[0], v) for v in some))
        off = 0
        prev_loc = None           # dependencies of the previous physical field's start and size
        for f in fields:
            deps = list(f.deps)
            r.shuffle(deps)
            slots = {"cond": [], "start": [], "size": [], "alen": [], "args": [], "value": []}
            if f.fkind == "virtual":
                choices = ["value"]
            elif f.fkind == "array":
                choices = ["cond", "start", "start", "size", "alen"]
            elif f.fkind == "pstruct":
                choices = ["cond", "start", "args", "args", "args"]
            else:
                choices = ["cond", "start", "start"]
            for d in deps:
                slots[r.choice(choices)].append(d)
            if f.fkind == "array" and slots["size"] and slots["alen"]:
                slots["start"] += slots["alen"]          # either an automatic length or an explicit one
                slots["alen"] = []
            use_next = False
            if f.fkind != "virtual" and prev_loc is not None and r.random() < 0.3:
                ok = (not self.acyclic_shape()) or all(d.rank < f.rank and d is not f for d in prev_loc)
                if ok:
                    use_next = True
                    slots["cond"] += slots["start"]
                    slots["start"] = []
            labels = []
            for k in ("cond", "start", "size", "alen", "args", "value"):
                for d in slots[k]:
                    labels.append((d, k + self.qualifier(f, d)))
            if f.fkind == "virtual":
                vd = slots["value"]
                if len(vd) == 1 and r.random() < 0.5:
                    L.append("  let %s = %s" % (f.name, self.ref(f, vd[0])))          # an alias
                else:
                    L.append("  let %s = %s" % (f.name, self.sum_of(f, vd, r.choice([0, 1, 3]) if vd else r.randint(0, 9))))
                f.final = list(vd)
                f.labels = labels
                continue
            ind = "  "
            if slots["cond"]:
                L.append("  if %s == %d:" % (self.sum_of(f, slots["cond"], 0), r.randint(0, 3)))
                ind = "    "
            if use_next:
                st = "$next"
                start_deps = list(prev_loc)
                labels += [(d, "next" + self.qualifier(f, d)) for d in prev_loc]
            else:
                st = self.sum_of(f, slots["start"], off if not slots["start"] else 0)
                start_deps = list(slots["start"])
            size_deps = []
            if f.fkind == "int" and bits:
                L.append("%s%s [+4]  UInt  %s" % (ind, st, f.name))
                off += 4
            elif f.fkind == "int":
                L.append("%s%s [+1]  UInt  %s" % (ind, st, f.name))
                if r.random() < 0.2:
                    L.append("%s  [requires: this < 200]" % ind)
                off += 1
            elif f.fkind == "struct":
                L.append("%s%s [+1]  Hh  %s" % (ind, st, f.name))
                off += 1
            elif f.fkind == "pstruct":
                L.append("%s%s [+1]  Pk(%s)  %s" % (ind, st, self.sum_of(f, slots["args"], 0 if slots["args"] else r.randint(0, 9)),
                                                      f.name))
                off += 1
            else:
                size_deps = list(slots["size"])
                if slots["alen"]:
                    L.append("%s%s [+4]  UInt:8[%s]  %s" % (ind, st, self.sum_of(f, slots["alen"], 0), f.name))
                    off += 4
                else:
                    L.append("%s%s [+%s]  UInt:8[]  %s" % (ind, st, self.sum_of(f, size_deps, 2 if not size_deps else 0), f.name))
                    off += 2
            final = []
            for d in slots["cond"] + start_deps + size_deps + slots["alen"] + slots["args"]:
                if d not in final:
                    final.append(d)
            f.final = final
            f.labels = labels
            prev_loc = []
            for d in start_deps + size_deps:
                if d not in prev_loc:
                    prev_loc.append(d)
            for d in slots["cond"] + start_deps + size_deps:
                if d not in size_deps_all:
                    size_deps_all.append(d)
        sz, mx, mn = self.synth[(m, sname)]
        sz.final = size_deps_all
        sz.labels = [(d, "synth-size" + self.qualifier(sz, d)) for d in size_deps_all]
        mx.final, mn.final = [sz], [sz]
        mx.labels, mn.labels = [(sz, "synth-max")], [(sz, "synth-min")]

    def text_of(self, m):
        r = self.rng
        L = ['[$default byte_order: "LittleEndian"]']
        for t in sorted(self.imports[m]):
            L.insert(0, 'import "%s" as x%d' % (self.files[t], t))
        kinds = {f.fkind for (mm, sname, params, fields) in self.structs if mm == m for f in fields}
        if "struct" in kinds:
            L += ["struct Hh:", "  0 [+1]  UInt  v"]
        if "pstruct" in kinds:
            L += ["struct Pk(n: UInt:8):", "  0 [+1]  UInt  v"]
        for (mm, sname, params, fields) in self.structs:
            if mm == m:
                self.render_struct(L, m, sname, params, fields)
        for (mm, ename, vals) in self.enums:
            if mm != m:
                continue
            L.append("enum %s:" % ename)
            for i, v in enumerate(vals):
                deps = list(v.deps)
                r.shuffle(deps)
                L.append("  %s = %s" % (v.name, self.sum_of(v, deps, i if deps else i + 1)))
                v.final = deps
                v.labels = [(d, "enumvalue" + self.qualifier(v, d)) for d in deps]
        return "\n".join(L) + "\n"

    def file_map(self):
        if self._files is None:
            if self.trim_imports:
                need = {m: set() for m in range(len(self.files))}
                for n in self.nodes:
                    for d in n.deps:
                        if d.module != n.module:
                            need[n.module].add(d.module)
                self.imports = need
            self._files = {self.files[m]: self.text_of(m) for m in range(len(self.files))}
            for n in self.nodes:
                if n.final is None:
                    n.final = []
        return self._files

    # -- the graph by construction -----------------------------------------------
    def reachable_modules(self):
        seen, todo = {0}, [0]
        while todo:
            m = todo.pop()
            for t in self.imports[m]:
                if t not in seen:
                    seen.add(t)
                    todo.append(t)
        return seen

    def planted_graph(self):
        """{node key: set(node keys)} over the objects of the modules the main file (transitively) imports."""
        self.file_map()
        mods = self.reachable_modules()
        return {u.key(self.files): {v.key(self.files) for v in u.final} for u in self.nodes if u.module in mods}

    def planted(self):
        return [(u, v) for u, vs in self.planted_graph().items() for v in vs]

    def planted_structs(self):
        """For the order oracle: [(struct key, [field names in source order], [local dependency name sets], [param names])]."""
        self.file_map()
        mods = self.reachable_modules()
        out = []
        for (m, sname, params, fields) in self.structs:
            if m not in mods:
                continue
            allf = list(fields) + self.synth[(m, sname)]     # the generated fields are appended in this order
            local = []
            for f in allf:
                local.append({d.name for d in f.final if self.is_local(f, d)})
            out.append(((self.files[m], sname), [f.name for f in allf], local, [p.name for p in params]))
        return out

    def edge_labels(self):
        self.file_map()
        mods = self.reachable_modules()
        return [(u.key(self.files), v.key(self.files), lab) for u in self.nodes if u.module in mods for (v, lab) in u.labels]

    def describe(self):
        return {"shape": self.shape, "modules": len(self.files), "structs": len(self.structs),
                "enums": len(self.enums), "nodes": len(self.nodes),
                "edges": sum(len(n.final or []) for n in self.nodes),
                "planted_cycle_lengths": [len(c) for c in self.planted_cycles]}


def graph_module(edges, n, name="Gg"):
    """Realise an arbitrary directed graph over n nodes as one structure of
    virtual fields (`let vI = vJ + vK + 1`); used to replay a graph on which
    _find_cycles misbehaves through the whole compiler."""
    L = ['[$default byte_order: "LittleEndian"]', "struct %s:" % name]
    for i in range(n):
        ds = [j for (a, j) in edges if a == i]
        L.append("  let v%d = %s" % (i, " + ".join(["v%d" % j for j in ds] + ["1"])))
    return "\n".join(L) + "\n"
