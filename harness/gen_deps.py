"""Random reference graphs realised as Emboss modules (C15).

A `DepsModules` object is built from a random.Random: it chooses a set of
modules (files), structures with parameters and fields, enums with values, and
a dependency relation between those objects, and renders .emb text in which
every chosen dependency is an actual reference:

  * a field mentions fields / parameters of its own structure in its location
    (start, size), its existence condition or its value (`let`);
  * fields and enum values mention enum values (`Ee.VX`) and fields of other
    structures (`Ss.f`) of the same or of an imported module.

Shapes: acyclic under a random topological order that is unrelated to source
order ("acyclic"), acyclic with source order already valid ("sorted"), self
loops ("self"), one long cycle ("cycle"), several strongly connected
components ("multi"), dense random ("dense"), import cycles ("import").

The dependency graph the checks use is always extracted from the real IR; the
`planted` edge list is only used to confirm that extraction sees every
reference that was written.
"""

LETTERS = "abcdefghijklmnopqrstuvwxyz"


class Node:
    __slots__ = ("kind", "module", "owner", "name", "idx", "deps", "fkind", "rank")

    def __init__(self, kind, module, owner, name):
        self.kind, self.module, self.owner, self.name = kind, module, owner, name
        self.deps = []
        self.fkind = None
        self.rank = 0

    def key(self, files):
        # the hashable form the compiler uses: (file, Type, member)
        return (files[self.module], self.owner, self.name)


class DepsModules:
    SHAPES = ["acyclic", "acyclic", "sorted", "self", "cycle", "cycle", "multi", "dense", "import"]

    def __init__(self, rng, shape=None, size=None):
        self.rng = rng
        self.shape = shape or rng.choice(self.SHAPES)
        self.size = size or rng.choice([1, 1, 2, 2, 3])
        self._files = None
        self.build()

    # -- structure of the universe ---------------------------------------------
    def build(self):
        r = self.rng
        nmod = 1 if r.random() < 0.5 else r.randint(2, 3)
        if self.shape == "import":
            nmod = r.randint(2, 3)
        self.files = ["m%d.emb" % i for i in range(nmod)]
        self.nodes = []
        self.structs = []   # (module, name, params[Node], fields[Node])
        self.enums = []     # (module, name, values[Node])
        sc = ec = 0
        for m in range(nmod):
            for _ in range(r.randint(1, 1 + self.size) if m == 0 else r.randint(0, 2)):
                sname = "S" + LETTERS[sc]
                sc += 1
                params = [Node("param", m, sname, "p%d" % i) for i in range(r.choice([0, 0, 1, 2]))]
                nf = r.randint(2, 4 + 3 * self.size)
                fields = []
                for i in range(nf):
                    n = Node("field", m, sname, "%s%d" % (LETTERS[(sc - 1) % 26], i))
                    n.fkind = r.choice(["int", "int", "array", "virtual", "virtual"])
                    fields.append(n)
                self.structs.append((m, sname, params, fields))
                self.nodes += params + fields
            for _ in range(r.randint(0, 2)):
                ename = "E" + LETTERS[ec]
                ec += 1
                vals = [Node("value", m, ename, "V%s%d" % (LETTERS[(ec - 1) % 26].upper(), i))
                        for i in range(r.randint(1, 4))]
                self.enums.append((m, ename, vals))
                self.nodes += vals
        self.imports = {m: set(range(m + 1, nmod)) for m in range(nmod)}   # m imports the later modules
        if nmod > 1 and self.shape != "import" and r.random() < 0.5:
            # drop imports nobody needs later (decided after the edges are chosen)
            self.trim_imports = True
        else:
            self.trim_imports = False
        ranks = list(range(len(self.nodes)))
        if self.shape != "sorted":
            r.shuffle(ranks)
        for n, k in zip(self.nodes, ranks):
            n.rank = k
        self.choose_edges()
        if self.shape == "import":
            self.plant_import_cycle()
        if self.trim_imports:
            need = {m: set() for m in range(nmod)}
            for n in self.nodes:
                for d in n.deps:
                    if d.module != n.module:
                        need[n.module].add(d.module)
            self.imports = need

    def allowed(self, u, v):
        if u.kind == "param":
            return False
        if u.kind == "field" and v.kind in ("field", "param") and v.module == u.module and v.owner == u.owner:
            return True
        if v.kind == "value" or (v.kind == "field" and v.fkind == "virtual"):
            return v.module == u.module or v.module in self.imports[u.module]
        return False

    def add_edge(self, u, v):
        if v not in u.deps:
            u.deps.append(v)

    def choose_edges(self):
        r = self.rng
        nodes = self.nodes
        density = {"dense": 0.35}.get(self.shape, r.choice([0.08, 0.15, 0.25]))
        for u in nodes:
            cands = [v for v in nodes if self.allowed(u, v) and (self.shape == "dense" or v.rank < u.rank)]
            if self.shape == "dense":
                cands = [v for v in cands if v is not u or r.random() < 0.2]
            for v in cands:
                local = v.module == u.module and v.owner == u.owner
                if r.random() < (density * (2.0 if local else 0.6)):
                    self.add_edge(u, v)
        self.planted_cycles = []
        if self.shape == "self":
            for _ in range(r.randint(1, 3)):
                c = [u for u in nodes if self.allowed(u, u)]
                if c:
                    u = r.choice(c)
                    self.add_edge(u, u)
                    self.planted_cycles.append([u])
        elif self.shape == "cycle":
            self.plant_cycle(r.choice([2, 2, 3, 4, 5, 8, 12]))
        elif self.shape == "multi":
            for _ in range(r.randint(2, 4)):
                if r.random() < 0.3:
                    c = [u for u in nodes if self.allowed(u, u)]
                    if c:
                        u = r.choice(c)
                        self.add_edge(u, u)
                        self.planted_cycles.append([u])
                else:
                    self.plant_cycle(r.choice([2, 3, 4, 6]))

    def pools(self):
        ps = []
        for (m, sname, params, fields) in self.structs:
            ps.append(list(fields))
        for m in range(len(self.files)):
            pool = [n for n in self.nodes if n.module == m and
                    (n.kind == "value" or (n.kind == "field" and n.fkind == "virtual"))]
            ps.append(pool)
        return [p for p in ps if len(p) >= 2]

    def plant_cycle(self, length):
        r = self.rng
        ps = self.pools()
        if not ps:
            return
        pool = r.choice(ps)
        length = min(length, len(pool))
        cyc = r.sample(pool, length)
        for a, b in zip(cyc, cyc[1:] + cyc[:1]):
            self.add_edge(a, b)
        self.planted_cycles.append(cyc)

    def plant_import_cycle(self):
        r = self.rng
        nmod = len(self.files)
        k = r.random()
        if k < 0.25:
            m = r.randrange(nmod)
            self.imports[m].add(m)                 # a module importing itself
            self.import_cycle = [m]
        else:
            a = r.randrange(1, nmod)
            b = r.randrange(0, a)
            self.imports[a].add(b)                 # a later module imports an earlier one
            self.import_cycle = [b, a]

    # -- rendering -------------------------------------------------------------
    def ref(self, u, v):
        """Text of a reference to node v inside node u (an integer-typed atom)."""
        if u.kind == "field" and v.kind in ("field", "param") and v.module == u.module and v.owner == u.owner:
            if v.kind == "field" and v.fkind == "array":
                return "($present(%s) ? 1 : 0)" % v.name      # arrays are not integers
            return v.name
        q = "" if v.module == u.module else "x%d." % v.module
        if v.kind == "value":
            return "(%s%s.%s == %s%s.%s ? 1 : 0)" % (q, v.owner, v.name, q, v.owner, v.name)
        return "%s%s.%s" % (q, v.owner, v.name)

    def sum_of(self, u, deps, base):
        parts = [self.ref(u, v) for v in deps]
        if not parts:
            return str(base)
        if base:
            parts.append(str(base))
        return " + ".join(parts)

    def text_of(self, m):
        r = self.rng
        L = ['[$default byte_order: "LittleEndian"]']
        for t in sorted(self.imports[m]):
            L.insert(0, 'import "%s" as x%d' % (self.files[t], t))
        for (mm, sname, params, fields) in self.structs:
            if mm != m:
                continue
            plist = "(%s)" % ", ".join("%s: UInt:8" % p.name for p in params) if params else ""
            L.append("struct %s%s:" % (sname, plist))
            off = 0
            for f in fields:
                deps = list(f.deps)
                r.shuffle(deps)
                if f.fkind == "virtual":
                    L.append("  let %s = %s" % (f.name, self.sum_of(f, deps, r.choice([0, 1, 3]) if deps else r.randint(0, 9))))
                    continue
                # split the dependencies over condition / start / size
                cond, start, size = [], [], []
                for d in deps:
                    k = r.random()
                    if k < 0.3:
                        cond.append(d)
                    elif k < 0.75 or f.fkind == "int":
                        start.append(d)
                    else:
                        size.append(d)
                ind = "  "
                if cond:
                    L.append("  if %s == %d:" % (self.sum_of(f, cond, 0), r.randint(0, 3)))
                    ind = "    "
                st = self.sum_of(f, start, off if not start else 0)
                if f.fkind == "int":
                    L.append("%s%s [+1]  UInt  %s" % (ind, st, f.name))
                    off += 1
                else:
                    sz = self.sum_of(f, size, 2 if not size else 0)
                    L.append("%s%s [+%s]  UInt:8[]  %s" % (ind, st, sz, f.name))
                    off += 2
        for (mm, ename, vals) in self.enums:
            if mm != m:
                continue
            L.append("enum %s:" % ename)
            for i, v in enumerate(vals):
                deps = list(v.deps)
                r.shuffle(deps)
                L.append("  %s = %s" % (v.name, self.sum_of(v, deps, i if deps else i + 1)))
        return "\n".join(L) + "\n"

    def file_map(self):
        if self._files is None:
            self._files = {self.files[m]: self.text_of(m) for m in range(len(self.files))}
        return self._files

    def planted(self):
        return [(u.key(self.files), v.key(self.files)) for u in self.nodes for v in u.deps]

    def describe(self):
        return {"shape": self.shape, "modules": len(self.files), "structs": len(self.structs),
                "enums": len(self.enums), "nodes": len(self.nodes),
                "edges": sum(len(n.deps) for n in self.nodes),
                "planted_cycle_lengths": [len(c) for c in self.planted_cycles]}


def graph_module(edges, n, name="Gg"):
    """Realise an arbitrary directed graph over n nodes as one structure of
    virtual fields (`let vI = vJ + vK + 1`); used to replay a graph on which
    _find_cycles misbehaves through the whole compiler."""
    L = ['[$default byte_order: "LittleEndian"]', "struct %s:" % name]
    for i in range(n):
        ds = [j for (a, j) in edges if a == i]
        L.append("  let v%d = %s" % (i, " + ".join(["v%d" % j for j in ds] + ["1"])))
    return "\n".join(L) + "\n"
