"""Runs the Emboss compiler from /repo on in-memory files and records everything C16/C17 observe.

Importable (used in-process and through multiprocessing by props/c16.py) and runnable:

    python -m harness.pipe_worker JOB.json OUT.json

JOB = {"mode": "compile", "jobs": [{"id":..., "files": {name: text}, "main": name}, ...],
       "repeat": n, "want": ["ir", "header", "state"]}
One process handles the whole job list in order (amortising interpreter start-up and the prelude
parse); C17 starts several such processes with different PYTHONHASHSEED values.
"""
import hashlib
import json
import os
import sys
import traceback

REPO = os.environ.get("EMBOSS_REPO", "/repo")
_creators = {}
_patched = False


def _patch_creators():
    """Remember which function built each message (caller of error.error/warn/note)."""
    global _patched
    if _patched:
        return
    from compiler.util import error
    for name in ("error", "warn", "note"):
        orig = getattr(error, name)

        def wrap(source_file, location, message, _orig=orig):
            m = _orig(source_file, location, message)
            f = sys._getframe(1)
            _creators[id(m)] = (getattr(f.f_code, "co_qualname", f.f_code.co_name), m)
            if len(_creators) > 200000:
                _creators.clear()
            return m

        wrap.__name__ = name
        setattr(error, name, wrap)
    _patched = True


def creator_of(m):
    c = _creators.get(id(m))
    return c[0] if c and c[1] is m else "?"


def crash_info(ex):
    """(exception class, qualified name of the innermost function of /repo on the stack, file, line)."""
    tb = ex.__traceback__
    best = None
    last = None
    root = os.path.realpath(REPO) + os.sep
    while tb is not None:
        code = tb.tb_frame.f_code
        fn = os.path.realpath(code.co_filename)
        rec = (getattr(code, "co_qualname", code.co_name), os.path.relpath(fn, root) if fn.startswith(root) else fn,
               tb.tb_lineno)
        last = rec
        if fn.startswith(root):
            best = rec
        tb = tb.tb_next
    rec = best or last or ("?", "?", 0)
    return {"exc": type(ex).__name__, "func": rec[0], "file": rec[1], "line": rec[2], "msg": str(ex)[:300]}


def crash_key(ci):
    return "crash:%s:%s" % (ci["exc"], ci["func"])


def msg_record(m):
    l = m.location
    f = m.source_file
    if f is not None and not isinstance(f, str):
        f = "<non-str source_file: %s>" % type(f).__name__
    text = m.message if isinstance(m.message, str) else "<non-str message: %s>" % type(m.message).__name__
    return {"file": f, "loc": [l.start.line, l.start.column, l.end.line, l.end.column, bool(l.is_synthetic)],
            "severity": m.severity, "text": text, "creator": creator_of(m)}


def make_reader(files):
    def reader(fn):
        if fn in files:
            return files[fn], None
        return None, ["[Errno 2] No such file or directory: '%s'" % fn, "import path ."]
    return reader


def compile_files(files, main, want=()):
    """Front end + back end on in-memory files.  Never raises; returns a record."""
    from compiler.front_end import glue
    from compiler.util import error, ir_data_utils
    from compiler.back_end.cpp import header_generator
    _patch_creators()
    rec = {"status": None, "stage": None, "messages": None, "crash": None}
    try:
        ir, debug_info, errors = glue.parse_emboss_file(main, make_reader(files))
    except RecursionError as ex:
        rec.update(status="crash", stage="front_end", crash=crash_info(ex))
        return rec
    except Exception as ex:  # noqa: any uncaught exception is what C16 is about
        rec.update(status="crash", stage="front_end", crash=crash_info(ex))
        return rec
    sources = dict(files)
    if errors or ir is None:
        if "modules" in want:
            rec["modules"] = module_list(debug_info)
        rec.update(status="rejected", stage="front_end")
        _render(rec, errors, sources)
        rec["ir_none"] = ir is None
        rec["_errors"] = errors
        return rec
    if "modules" in want:
        rec["modules"] = module_list(debug_info)
    if "ir" in want:
        try:
            ir_json = ir_data_utils.IrDataSerializer(ir).to_json()
        except Exception as ex:
            rec.update(status="crash", stage="serialize", crash=crash_info(ex))
            return rec
        rec["ir_sha"] = hashlib.sha1(ir_json.encode("utf-8", "surrogatepass")).hexdigest()
        rec["ir_canon_sha"] = hashlib.sha1(canon_anon(ir_json).encode("utf-8", "surrogatepass")).hexdigest()
        if "ir_full" in want:
            rec["ir_json"] = ir_json
    try:
        header, errors = header_generator.generate_header(ir)
    except Exception as ex:
        rec.update(status="crash", stage="back_end", crash=crash_info(ex))
        return rec
    if errors:
        rec.update(status="rejected", stage="back_end")
        _render(rec, errors, sources)
        rec["_errors"] = errors
        return rec
    rec.update(status="ok", stage="done")
    rec["header_sha"] = hashlib.sha1(header.encode("utf-8", "surrogatepass")).hexdigest()
    rec["header_canon_sha"] = hashlib.sha1(canon_anon(header).encode("utf-8", "surrogatepass")).hexdigest()
    if "header" in want:
        rec["header"] = header
    return rec


COLOR_NAMES = None


def color_name(esc):
    global COLOR_NAMES
    if COLOR_NAMES is None:
        from compiler.util import error
        COLOR_NAMES = {getattr(error, n): n for n in ("BOLD", "BRIGHT_RED", "BRIGHT_YELLOW", "WHITE", "BRIGHT_GREEN")}
    return COLOR_NAMES.get(esc, "?" + repr(esc))


def _render(rec, errors, sources):
    from compiler.util import error
    try:
        rec["messages"] = [[msg_record(m) for m in g] for g in errors]
    except Exception as ex:
        rec.update(status="crash", stage="messages", crash=crash_info(ex))
        return
    # the (colour, text) parts of the first few messages, for the replay through the Coq model
    parts = []
    try:
        for g in errors[:3]:
            for m in g[:3]:
                parts.append([[color_name(c), t] for c, t in m.format(sources)])
        rec["parts"] = parts
    except Exception as ex:
        rec.update(status="crash", stage="format_errors", crash=crash_info(ex))
        return
    for key, src in (("formatted", sources), ("formatted_nosrc", {})):
        try:
            rec[key] = error.format_errors(errors, src)
        except Exception as ex:
            rec.update(status="crash", stage="format_errors", crash=crash_info(ex))
            return


_ANON = None


def canon_anon(text):
    """Renumber emboss_reserved_anonymous_field_N / EmbossReservedAnonymousFieldN by first appearance."""
    global _ANON
    import re
    if _ANON is None:
        _ANON = re.compile(r"(emboss_reserved_anonymous_field_|EmbossReservedAnonymousField)(\d+)")
    order = {}

    def sub(m):
        n = m.group(2)
        if n not in order:
            order[n] = len(order) + 1
        return m.group(1) + "#%d" % order[n]
    return _ANON.sub(sub, text)


def module_list(debug_info):
    """The modules visited by only_parse_emboss_file, in order, with the numbers of their anonymous fields."""
    import re
    from compiler.util import ir_data_utils
    out = []
    if debug_info is None:
        return out
    for fname, mdi in debug_info.modules.items():
        src = mdi.source_code if mdi.source_code is not None else ""
        e = {"file": fname, "src_sha": hashlib.sha1((src + "\0" + fname).encode("utf-8", "surrogatepass")).hexdigest()[:16],
             "parsed": mdi.ir is not None, "anon": []}
        if mdi.ir is not None:
            js = ir_data_utils.IrDataSerializer(mdi.ir).to_json()
            e["anon"] = sorted({int(x) for x in re.findall(r"emboss_reserved_anonymous_field_(\d+)", js)})
        out.append(e)
    return out


def lr1_probe():
    """F11: lr1 on a cyclic grammar (conflict count or assertion, per hash seed)."""
    from compiler.front_end import lr1
    from compiler.util import parser_types
    P = parser_types.Production.parse
    out = {}
    for name, start, prods in [("cyclic", "S", ["S -> A", "S -> a", "A -> S"]),
                               ("ambiguous", "E", ["E -> E plus E", "E -> n"]),
                               ("plain", "S", ["S -> a S b", "S ->"])]:
        try:
            p = lr1.Grammar(start, [P(x) for x in prods]).parser()
            out[name] = {"conflicts": len(p.conflicts), "states": len(p.action)}
        except Exception as ex:
            out[name] = {"exception": crash_info(ex)}
    return out


def strip(rec):
    return {k: v for k, v in rec.items() if not k.startswith("_")}


def state_snapshot():
    from compiler.front_end import glue, module_ir
    return {"counter": module_ir._anonymous_name_counter,
            "cache_keys": sorted(hashlib.sha1(repr(k).encode("utf-8", "surrogatepass")).hexdigest()[:12] for k in glue._cached_modules),
            "cache_key_shape": sorted({(type(k).__name__, len(k) if isinstance(k, tuple) else 0) for k in glue._cached_modules})}


def run_batch(jobs, want=()):
    out = []
    for j in jobs:
        r = strip(compile_files(j["files"], j["main"], want))
        r["id"] = j.get("id")
        out.append(r)
    return out


_EMBOSSC = None


def _embossc_main():
    global _EMBOSSC
    if _EMBOSSC is None:
        import importlib.machinery
        import importlib.util
        loader = importlib.machinery.SourceFileLoader("embossc_driver", os.path.join(REPO, "embossc"))
        spec = importlib.util.spec_from_loader("embossc_driver", loader)
        mod = importlib.util.module_from_spec(spec)
        loader.exec_module(mod)
        _EMBOSSC = mod.main
    return _EMBOSSC


def _captured(fn):
    """Run a driver's main with stdout/stderr captured: (return code or None, stderr text, exception key or None)."""
    import contextlib
    import io
    err, out = io.StringIO(), io.StringIO()
    rc, exc = None, None
    try:
        with contextlib.redirect_stderr(err), contextlib.redirect_stdout(out):
            rc = fn()
    except SystemExit as ex:
        rc = ex.code if isinstance(ex.code, int) else 2
    except Exception as ex:  # noqa: a driver that dies is an observation
        exc = crash_info(ex)
    return rc, err.getvalue(), exc


def run_drivers(job, base):
    """The three command line drivers on one module set written to disk:
    embossc  vs  emboss_front_end (IR to a file) followed by emboss_codegen_cpp (IR from that file)."""
    from compiler.front_end import emboss_front_end
    from compiler.back_end.cpp import emboss_codegen_cpp
    d = os.path.join(base, "".join(c if c.isalnum() else "_" for c in str(job["id"]))[:80])
    os.makedirs(d, exist_ok=True)
    for name, text in job["files"].items():
        fp = os.path.join(d, name)
        os.makedirs(os.path.dirname(fp), exist_ok=True)
        with open(fp, "w", encoding="utf-8", newline="") as f:
            f.write(text)
    dirs = ["--import-dir", d] + (["--import-dir", REPO] if job.get("shared") else [])
    name = job["main"]
    out1 = os.path.join(d, "out_embossc")
    rc, err, exc = _captured(lambda: _embossc_main()(["embossc", "--color-output", "never", "--output-path", out1] + dirs + [name]))
    hp = os.path.join(out1, name + ".h")
    a = {"rc": rc, "stderr": err, "exc": exc, "header": open(hp, encoding="utf-8").read() if os.path.exists(hp) else None}
    irp, hp2 = os.path.join(d, "ir.json"), os.path.join(d, "split.h")
    rc1, err1, exc1 = _captured(lambda: emboss_front_end.main(emboss_front_end._parse_command_line(
        ["emboss_front_end", "--color-output", "never", "--output-file", irp] + dirs + [name])))
    b = {"rc1": rc1, "rc2": None, "stderr": err1, "exc": exc1, "header": None}
    if rc1 == 0 and exc1 is None and os.path.exists(irp):
        rc2, err2, exc2 = _captured(lambda: emboss_codegen_cpp.main(emboss_codegen_cpp._parse_command_line(
            ["emboss_codegen_cpp", "--color-output", "never", "--input-file", irp, "--output-file", hp2])))
        b.update(rc2=rc2, stderr=err1 + err2, exc=exc2)
        b["header"] = open(hp2, encoding="utf-8").read() if os.path.exists(hp2) else None
    for r in (a, b):
        h = r.pop("header")
        r["header_sha"] = hashlib.sha1(h.encode("utf-8", "surrogatepass")).hexdigest() if h is not None else None
        r["header_len"] = len(h) if h is not None else None
    return {"id": job["id"], "embossc": a, "split": b}


def main(argv):
    job = json.load(open(argv[1], encoding="utf-8"))
    if job.get("mode") == "drivers":
        base = job["base"]
        res = {"hashseed": os.environ.get("PYTHONHASHSEED"), "drivers": [run_drivers(j, base) for j in job["jobs"]]}
        with open(argv[2], "w", encoding="utf-8") as f:
            json.dump(res, f)
        return 0
    want = job.get("want", [])
    res = {"hashseed": os.environ.get("PYTHONHASHSEED"), "runs": []}
    if "lr1" in want:
        res["lr1"] = lr1_probe()
    if "parser_tables" in want:
        # the generated LR(1) tables as source text (every iteration over sets inside lr1.Grammar feeds into them)
        from compiler.front_end import make_parser, generate_cached_parser
        for nm, build in (("expression_parser", make_parser.build_expression_parser), ("module_parser", make_parser.build_module_parser)):
            src = generate_cached_parser.as_py_source(build(), nm)
            res[nm + "_sha"] = hashlib.sha1(src.encode("utf-8")).hexdigest()
    shared = job.get("shared", {})
    for rep in range(job.get("repeat", 1)):
        run = []
        for j in job["jobs"]:
            files = dict(shared) if j.get("shared") else {}
            files.update(j["files"])
            r = strip(compile_files(files, j["main"], want))
            r["id"] = j.get("id")
            if "state" in want:
                r["state"] = state_snapshot()
            run.append(r)
        res["runs"].append(run)
    with open(argv[2], "w", encoding="utf-8") as f:
        json.dump(res, f)
    return 0


if __name__ == "__main__":
    sys.exit(main(sys.argv))
