"""Runs the Emboss compiler from /repo on in-memory files and records everything C16/C17 observe.

Importable (used in-process and through multiprocessing by props/c16.py) and runnable:

    python -m harness.pipe_worker JOB.json OUT.json

JOB = {"mode": "compile", "jobs": [{"id":..., "files": {name: text}, "main": name}, ...],
       "repeat": n, "want": ["ir", "header", "state"]}
One process handles the whole job list in order (amortising interpreter start-up and the prelude
parse); C17 starts several such processes with different PYTHONHASHSEED values.
"""
import hashlib
import json
import os
import sys
import traceback

REPO = os.environ.get("EMBOSS_REPO", "/repo")
_creators = {}
_patched = False


def _patch_creators():
    """Remember which function built each message (caller of error.error/warn/note)."""
    global _patched
    if _patched:
        return
    from compiler.util import error
    for name in ("error", "warn", "note"):
        orig = getattr(error, name)

        def wrap(source_file, location, message, _orig=orig):
            m = _orig(source_file, location, message)
            f = sys._getframe(1)
            _creators[id(m)] = (getattr(f.f_code, "co_qualname", f.f_code.co_name), m)
            if len(_creators) > 200000:
                _creators.clear()
            return m

        wrap.__name__ = name
        setattr(error, name, wrap)
    _patched = True


def creator_of(m):
    c = _creators.get(id(m))
    return c[0] if c and c[1] is m else "?"


def crash_info(ex):
    """(exception class, qualified name of the innermost function of /repo on the stack, file, line)."""
    tb = ex.__traceback__
    best = None
    last = None
    root = os.path.realpath(REPO) + os.sep
    while tb is not None:
        code = tb.tb_frame.f_code
        fn = os.path.realpath(code.co_filename)
        rec = (getattr(code, "co_qualname", code.co_name), os.path.relpath(fn, root) if fn.startswith(root) else fn,
               tb.tb_lineno)
        last = rec
        if fn.startswith(root):
            best = rec
        tb = tb.tb_next
    rec = best or last or ("?", "?", 0)
    return {"exc": type(ex).__name__, "func": rec[0], "file": rec[1], "line": rec[2], "msg": str(ex)[:300]}


def crash_key(ci):
    return "crash:%s:%s" % (ci["exc"], ci["func"])


def msg_record(m):
    l = m.location
    return {"file": m.source_file, "loc": [l.start.line, l.start.column, l.end.line, l.end.column, bool(l.is_synthetic)],
            "severity": m.severity, "text": m.message, "creator": creator_of(m)}


def make_reader(files):
    def reader(fn):
        if fn in files:
            return files[fn], None
        return None, ["[Errno 2] No such file or directory: '%s'" % fn, "import path ."]
    return reader


def compile_files(files, main, want=()):
    """Front end + back end on in-memory files.  Never raises; returns a record."""
    from compiler.front_end import glue
    from compiler.util import error, ir_data_utils
    from compiler.back_end.cpp import header_generator
    _patch_creators()
    rec = {"status": None, "stage": None, "messages": None, "crash": None}
    try:
        ir, debug_info, errors = glue.parse_emboss_file(main, make_reader(files))
    except RecursionError as ex:
        rec.update(status="crash", stage="front_end", crash=crash_info(ex))
        return rec
    except Exception as ex:  # noqa: any uncaught exception is what C16 is about
        rec.update(status="crash", stage="front_end", crash=crash_info(ex))
        return rec
    sources = dict(files)
    if errors or ir is None:
        rec.update(status="rejected", stage="front_end")
        _render(rec, errors, sources)
        rec["ir_none"] = ir is None
        rec["_errors"] = errors
        return rec
    if "ir" in want:
        try:
            rec["ir_json"] = ir_data_utils.IrDataSerializer(ir).to_json()
        except Exception as ex:
            rec.update(status="crash", stage="serialize", crash=crash_info(ex))
            return rec
    try:
        header, errors = header_generator.generate_header(ir)
    except Exception as ex:
        rec.update(status="crash", stage="back_end", crash=crash_info(ex))
        return rec
    if errors:
        rec.update(status="rejected", stage="back_end")
        _render(rec, errors, sources)
        rec["_errors"] = errors
        return rec
    rec.update(status="ok", stage="done")
    rec["header_sha"] = hashlib.sha1(header.encode("utf-8", "surrogatepass")).hexdigest()
    if "header" in want:
        rec["header"] = header
    return rec


def _render(rec, errors, sources):
    from compiler.util import error
    try:
        rec["messages"] = [[msg_record(m) for m in g] for g in errors]
    except Exception as ex:
        rec.update(status="crash", stage="messages", crash=crash_info(ex))
        return
    for key, src in (("formatted", sources), ("formatted_nosrc", {})):
        try:
            rec[key] = error.format_errors(errors, src)
        except Exception as ex:
            rec.update(status="crash", stage="format_errors", crash=crash_info(ex))
            return


def strip(rec):
    return {k: v for k, v in rec.items() if not k.startswith("_")}


def state_snapshot():
    from compiler.front_end import glue, module_ir
    return {"counter": module_ir._anonymous_name_counter,
            "cache_keys": sorted(hashlib.sha1((k[0] + "\0" + k[1]).encode("utf-8", "surrogatepass")).hexdigest()[:12] + ":" + k[1]
                                 for k in glue._cached_modules)}


def run_batch(jobs, want=()):
    out = []
    for j in jobs:
        r = strip(compile_files(j["files"], j["main"], want))
        r["id"] = j.get("id")
        out.append(r)
    return out


def main(argv):
    job = json.load(open(argv[1], encoding="utf-8"))
    want = job.get("want", [])
    res = {"hashseed": os.environ.get("PYTHONHASHSEED"), "runs": []}
    for rep in range(job.get("repeat", 1)):
        run = []
        for j in job["jobs"]:
            r = strip(compile_files(j["files"], j["main"], want))
            r["id"] = j.get("id")
            if "state" in want:
                r["state"] = state_snapshot()
            run.append(r)
        res["runs"].append(run)
    with open(argv[2], "w", encoding="utf-8") as f:
        json.dump(res, f)
    return 0


if __name__ == "__main__":
    sys.exit(main(sys.argv))
