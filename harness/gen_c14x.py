"""C14 generator families added with the second extension of the layout model (owned by props/c14.py):

  external_cases(rng)     user-defined `external` types: attribute placement / multiplicity / value kinds,
                          addressable unit, fixed size vs field size vs explicit size, static_requirements
                          evaluated with $static_size_in_bits / $is_statically_sized, units in struct / bits,
                          arrays of externals, is_integer and [requires]
  null_border_cases()     the IMPLICIT "Null" byte order: modules with no byte_order anywhere in scope
  static_ref_cases()      static references `Type.field` and what they may refer to
  back_end_list_cases(rng) [expected_back_ends: "..."] syntax and the qualifiers then accepted

Every case is a gen_typed.Case whose verdict (doc_realisable) is fixed by construction; `line` is the
line the rule is planted on (1-based), alt_lines other lines of the same construct.
"""
from harness.gen_typed import Case, Line, RESERVED_TYPE

HDR = '[$default byte_order: "LittleEndian"]'


def _case(text_lines, rule, line, ok, alt=()):
    return Case([Line("raw", 0, text=t) for t in text_lines], rule, line, doc_typed=True, doc_realisable=ok, cls="C14",
                alt_lines=list(alt))


def _ext_module(ext_attrs, field_lines, unit=8, container="struct", header=HDR, name="Word", pre=(), post=()):
    """-> (lines, line of the external head, line of the first field line)."""
    ls = [header] if header else []
    ls += list(pre)
    ls.append("external %s:" % name)
    head = len(ls)
    if unit is not None:
        ls.append("  [addressable_unit_size: %s]" % unit)
    ls += ["  " + a for a in ext_attrs]
    ls.append("%s Ss:" % container)
    fl = len(ls) + 1
    ls += ["  " + f for f in field_lines]
    ls += list(post)
    return ls, head, fl


def external_cases(rng):
    out = []

    def mk(rule, ok, ext_attrs, fields, where="field", **kw):
        ls, head, fl = _ext_module(ext_attrs, fields, **kw)
        if isinstance(where, fl_plus):
            line = fl + where.k
        elif isinstance(where, int):
            line = where
        elif where == "field":
            line = fl
        elif where == "head":
            line = head
        else:                      # "attr<k>": the k-th extra attribute of the external (0-based)
            line = head + (1 if kw.get("unit", 8) is not None else 0) + 1 + int(where[4:])
        out.append(_case(ls, rule, line, ok, alt=[head, fl, fl + 1]))

    tail = ["4 [+1]  UInt  tail"]
    # ---- addressable unit ----
    mk("boundary-ok:external-unit-8", True, [], ["0 [+4]  Word  w"] + tail)
    mk("boundary-ok:external-unit-1-in-struct", True, [], ["0 [+4]  Word  w"] + tail, unit=1)
    mk("boundary-ok:external-unit-1-in-bits", True, [], ["0 [+4]  Word  w"], unit=1, container="bits")
    mk("boundary-ok:external-unused", True, [], ["0 [+4]  UInt  w"] + tail)
    mk("external-unit-missing", False, ["[is_integer: false]"], ["0 [+4]  Word  w"] + tail, where="head", unit=None)
    mk("external-unit-missing:unused", False, ["[is_integer: false]"], ["0 [+4]  UInt  w"] + tail, where="head", unit=None)
    for u in (0, 2, 4, 7, 9, 16, 64, -1, -8):
        mk("external-unit-not-1-or-8:%s" % u, False, [], ["0 [+4]  %s  w" % rng.choice(["Word", "UInt"])] + tail, where="head", unit=u)
    mk("external-unit-not-1-or-8:constant-expression", False, [], ["0 [+4]  Word  w"] + tail, where="head", unit="4+5")
    mk("boundary-ok:external-unit-constant-expression", True, [], ["0 [+4]  Word  w"] + tail, unit="4+4")
    # ---- attribute table on externals ----
    names = {"addressable_unit_size": "8", "fixed_size_in_bits": "32", "is_integer": "false",
             "static_requirements": "$is_statically_sized"}
    for n, v in names.items():
        if n != "addressable_unit_size":
            mk("boundary-ok:external-attribute:%s" % n, True, ["[%s: %s]" % (n, v)], ["0 [+4]  Word  w"] + tail)
            mk("attribute-duplicate:external:%s" % n, False, ["[%s: %s]" % (n, v), "[%s: %s]" % (n, v)], ["0 [+4]  UInt  w"] + tail, where="attr1")
        else:
            mk("attribute-duplicate:external:%s" % n, False, ["[%s: %s]" % (n, v)], ["0 [+4]  UInt  w"] + tail, where="attr0")
        mk("attribute-not-defaultable:external:%s" % n, False, ["[$default %s: %s]" % (n, v)], ["0 [+4]  UInt  w"] + tail, where="attr0")
    bad_kinds = {"addressable_unit_size": ["true", '"8"'], "fixed_size_in_bits": ["false", '"32"', "$static_size_in_bits"],
                 "is_integer": ["1", '"true"', "$is_statically_sized"], "static_requirements": ["3", '"x"', "$static_size_in_bits"]}
    for n, vals in bad_kinds.items():
        for v in vals:
            tag = "non-constant" if v.startswith("$") else "string" if v.startswith('"') else "wrong-type"
            if n == "addressable_unit_size":
                mk("attribute-value-kind:external:%s:%s" % (n, tag), False, [], ["0 [+4]  UInt  w"] + tail, where=3, unit=v)
            else:
                mk("attribute-value-kind:external:%s:%s" % (n, tag), False, ["[%s: %s]" % (n, v)], ["0 [+4]  UInt  w"] + tail, where="attr0")
    mk("boundary-ok:external-static-requirements-non-constant-boolean", True, ["[static_requirements: $static_size_in_bits == 32]"],
       ["0 [+4]  Word  w"] + tail)
    for n, v in (("byte_order", '"BigEndian"'), ("requires", "true"), ("maximum_bits", "8"), ("is_signed", "false"),
                 ("text_output", '"Skip"'), ("expected_back_ends", '"cpp"')):
        mk("attribute-wrong-scope:external:%s" % n, False, ["[%s: %s]" % (n, v)], ["0 [+4]  UInt  w"] + tail, where="attr0")
    # external attributes anywhere else
    for n, v in names.items():
        v2 = "true" if n == "static_requirements" else v
        mk("attribute-wrong-scope:%s:on-module" % n, False, [], ["0 [+4]  UInt  w"] + tail, where=2, pre=["[%s: %s]" % (n, v2)])
        mk("attribute-wrong-scope:%s:on-struct" % n, False, [], ["[%s: %s]" % (n, v2), "0 [+4]  UInt  w"] + tail)
        mk("attribute-wrong-scope:%s:on-field" % n, False, [], ["0 [+4]  UInt  w", "  [%s: %s]" % (n, v2)] + tail)
        mk("attribute-wrong-scope:%s:on-enum" % n, False, [], ["0 [+4]  UInt  w"] + tail, where=3,
           pre=["enum Ee:", "  [%s: %s]" % (n, v2), "  AA = 1"])
    mk("attribute-wrong-scope:addressable_unit_size:on-bits", False, [], ["[addressable_unit_size: 1]", "0 [+4]  UInt  w"], container="bits")
    # ---- names ----
    for w in RESERVED_TYPE[:3]:
        mk("reserved-word:external-type-name:%s" % w, False, [], ["0 [+4]  UInt  w"] + tail, where="head", name=w)
    mk("boundary-ok:external-name-next-to-reserved-word", True, [], ["0 [+4]  UInt  w"] + tail, name="Nones")
    # ---- fixed size vs field size ----
    for fx in (8, 32, 64, 72, 128):
        n = fx // 8
        mk("boundary-ok:external-fixed-size-%d-fits" % fx, True, ["[fixed_size_in_bits: %d]" % fx], ["0 [+%d]  Word  w" % n, "%d [+1]  UInt  tail" % n])
        mk("external-fixed-size-%d-in-smaller-field" % fx, False, ["[fixed_size_in_bits: %d]" % fx],
           ["0 [+%d]  Word  w" % (n - 1), "%d [+1]  UInt  tail" % n]) if n > 1 else None
        mk("external-fixed-size-%d-in-larger-field" % fx, False, ["[fixed_size_in_bits: %d]" % fx],
           ["0 [+%d]  Word  w" % (n + 1), "%d [+1]  UInt  tail" % (n + 1)])
    mk("boundary-ok:external-explicit-size-equals-fixed", True, ["[fixed_size_in_bits: 32]"], ["0 [+4]  Word:32  w"] + tail)
    mk("external-explicit-size-differs-from-fixed", False, ["[fixed_size_in_bits: 32]"], ["0 [+4]  Word:24  w"] + tail)
    mk("external-explicit-size-differs-from-fixed:larger", False, ["[fixed_size_in_bits: 32]"], ["0 [+4]  Word:40  w"] + tail)
    mk("boundary-ok:external-explicit-size", True, [], ["0 [+4]  Word:32  w"] + tail)
    mk("external-explicit-size-larger-than-field", False, [], ["0 [+3]  Word:32  w"] + tail)
    mk("external-explicit-size-smaller-than-field", False, [], ["0 [+4]  Word:16  w"] + tail)
    mk("boundary-ok:external-fixed-size-dynamic-field-large-enough", True, ["[fixed_size_in_bits: 16]"],
       ["0 [+1]  UInt  n", "1 [+n]  Word  w"])
    mk("external-fixed-size-larger-than-any-dynamic-size", False, ["[fixed_size_in_bits: 4096]"],
       ["0 [+1]  UInt  n", "1 [+n]  Word  w"], where=fl_plus(1))
    mk("boundary-ok:external-fixed-size-not-whole-bytes-in-bits", True, ["[fixed_size_in_bits: 12]"], ["0 [+12]  Word  w"], unit=1, container="bits")
    mk("external-fixed-size-not-whole-bytes-in-struct", False, ["[fixed_size_in_bits: 12]"], ["0 [+2]  Word  w"] + tail, unit=1)
    # ---- static_requirements ----
    lo, hi = rng.choice([(16, 32), (8, 24), (24, 40)])
    req = "[static_requirements: $is_statically_sized && %d <= $static_size_in_bits <= %d]" % (lo, hi)
    for w, ok in ((lo - 8, False), (lo, True), (hi, True), (hi + 8, False)):
        n = w // 8
        mk(("boundary-ok:external-requirements-width-%s" if ok else "external-requirements-width-%s") % ("lower" if w <= lo else "upper"),
           ok, [req], ["0 [+%d]  Word  w" % n, "8 [+1]  UInt  tail"])
    lo1, hi1 = rng.choice([(3, 9), (2, 64), (5, 5)])
    req1 = "[static_requirements: $is_statically_sized && %d <= $static_size_in_bits <= %d]" % (lo1, hi1)
    for w, ok in ((lo1 - 1, False), (lo1, True), (hi1, True), (hi1 + 1, False)):
        if w > 64:
            continue
        mk(("boundary-ok:external-requirements-bit-width-%s" if ok else "external-requirements-bit-width-%s") % ("lower" if w <= lo1 else "upper"),
           ok, [req1], ["0 [+%d]  Word  w" % w], unit=1, container="bits")
    mk("external-requirements-explicit-width", False, [req], ["0 [+%d]  Word:%d  w" % ((hi + 8) // 8, hi + 8), "8 [+1]  UInt  tail"])
    mk("boundary-ok:external-requirements-array-element-width", True, [req], ["0 [+%d]  Word:%d[2]  w" % (2 * lo // 8, lo), "16 [+1]  UInt  tail"])
    mk("external-requirements-array-element-width", False, [req], ["0 [+%d]  Word:%d[2]  w" % (2 * (hi + 8) // 8, hi + 8), "16 [+1]  UInt  tail"])
    dyn = ["0 [+1]  UInt  n", "1 [+n]  Word  w"]
    mk("external-requirements-need-static-size", False, [req], dyn, where=fl_plus(1))
    mk("external-requirements-unknown-size-not-true", False, ["[static_requirements: 8 <= $static_size_in_bits]"], dyn, where=fl_plus(1))
    mk("external-requirements-static-only", False, ["[static_requirements: $is_statically_sized]"], dyn, where=fl_plus(1))
    mk("boundary-ok:external-requirements-static-only", True, ["[static_requirements: $is_statically_sized]"], ["0 [+4]  Word  w"] + tail)
    mk("boundary-ok:external-no-requirements-dynamic-size", True, [], dyn)
    mk("boundary-ok:external-requirements-dynamic-only", True, ["[static_requirements: $is_statically_sized == false]"], dyn)
    mk("external-requirements-dynamic-only", False, ["[static_requirements: $is_statically_sized == false]"], ["0 [+4]  Word  w"] + tail)
    mk("boundary-ok:external-requirements-or-short-circuit", True, ["[static_requirements: $is_statically_sized == false || $static_size_in_bits == 32]"], dyn)
    mk("boundary-ok:external-requirements-true", True, ["[static_requirements: true]"], rng.choice([dyn, ["0 [+4]  Word  w"] + tail]))
    mk("external-requirements-false", False, ["[static_requirements: false]"], ["0 [+4]  Word  w"] + tail)
    mk("boundary-ok:external-requirements-false-unused", True, ["[static_requirements: false]"], ["0 [+4]  UInt  w"] + tail)
    mk("boundary-ok:external-requirements-arithmetic", True, ["[static_requirements: $static_size_in_bits * 2 == 64 && $static_size_in_bits - 8 >= 8+8]"],
       ["0 [+4]  Word  w"] + tail)
    mk("external-requirements-arithmetic", False, ["[static_requirements: $static_size_in_bits * 2 == 64 && $static_size_in_bits - 8 >= 8+8]"],
       ["0 [+3]  Word  w"] + tail)
    mk("boundary-ok:external-requirements-choice", True, ["[static_requirements: $is_statically_sized ? $static_size_in_bits == 32 : true]"],
       rng.choice([dyn, ["0 [+4]  Word  w"] + tail]))
    mk("external-requirements-choice", False, ["[static_requirements: $is_statically_sized ? $static_size_in_bits == 32 : true]"], ["0 [+2]  Word  w"] + tail)
    mk("boundary-ok:external-requirements-max", True, ["[static_requirements: $max($static_size_in_bits, 16) == 16]"], ["0 [+%d]  Word  w" % rng.choice([1, 2])] + tail)
    mk("external-requirements-max", False, ["[static_requirements: $max($static_size_in_bits, 16) == 16]"], ["0 [+3]  Word  w"] + tail)
    mk("boundary-ok:external-requirements-and-fixed-size", True, ["[fixed_size_in_bits: 32]", "[static_requirements: $static_size_in_bits == 32]"], ["0 [+4]  Word  w"] + tail)
    mk("external-requirements-contradict-fixed-size", False, ["[fixed_size_in_bits: 32]", "[static_requirements: $static_size_in_bits == 16]"], ["0 [+4]  Word  w"] + tail)
    # ---- units: struct / bits, byte order ----
    mk("external-byte-oriented-in-bits", False, [], ["0 [+8]  Word  w"], container="bits")
    mk("byte-order-on-byte-oriented-external-in-struct", False, [], ["0 [+4]  Word  w", '  [byte_order: "BigEndian"]'] + tail, where=fl_plus(1))
    mk("boundary-ok:byte-order-on-bit-oriented-external-in-struct", True, [], ["0 [+4]  Word  w", '  [byte_order: "BigEndian"]'] + tail, unit=1)
    mk("byte-order-on-bit-oriented-external-in-bits", False, [], ["0 [+4]  Word  w", '  [byte_order: "BigEndian"]'], unit=1, container="bits", where=fl_plus(1))
    mk("byte-order-missing:bit-oriented-external-in-struct", False, [], ["0 [+4]  Word  w"], unit=1, header=None)
    mk("boundary-ok:bit-oriented-external-one-byte-no-byte-order", True, [], ["0 [+1]  Word  w"], unit=1, header=None)
    mk("boundary-ok:byte-oriented-external-needs-no-byte-order", True, [], ["0 [+4]  Word  w"], header=None)
    mk("boundary-ok:bit-oriented-external-fixed-8-array-no-byte-order", True, ["[fixed_size_in_bits: 8]"], ["0 [+4]  Word[4]  w"], unit=1, header=None)
    mk("byte-order-null-on-multi-byte-external", False, [], ["0 [+4]  Word  w", '  [byte_order: "Null"]'], unit=1, header=None, where=fl_plus(1))
    # ---- arrays ----
    mk("array-element-not-fixed-size:external", False, [], ["0 [+8]  Word[2]  w"] + ["8 [+1]  UInt  tail"])
    mk("boundary-ok:array-of-fixed-size-external", True, ["[fixed_size_in_bits: 32]"], ["0 [+8]  Word[2]  w", "8 [+1]  UInt  tail"])
    mk("boundary-ok:array-of-external-with-explicit-size", True, [], ["0 [+4]  Word:16[2]  w"] + tail)
    mk("array-element-not-whole-bytes:external", False, ["[fixed_size_in_bits: 12]"], ["0 [+3]  Word[2]  w"] + tail, unit=1)
    mk("boundary-ok:array-of-external-in-bits", True, ["[fixed_size_in_bits: 3]"], ["0 [+6]  Word[2]  w"], unit=1, container="bits")
    mk("boundary-ok:array-of-external-outer-dimension-omitted", True, ["[fixed_size_in_bits: 16]"], ["0 [+1]  UInt  n", "1 [+n]  Word[]  w"])
    # nothing in the reference bounds [fixed_size_in_bits] of an external: zero-size elements are accepted
    mk("boundary-ok:array-of-zero-size-external", True, ["[fixed_size_in_bits: 0]"], ["0 [+4]  Word[2]  w"] + tail)
    # ---- is_integer ----
    mk("boundary-ok:requires-on-integer-external", True, ["[is_integer: true]"], ["0 [+4]  Word  w", "  [requires: true]"] + tail)
    mk("requires-on-opaque-field:external", False, ["[is_integer: false]"], ["0 [+4]  Word  w", "  [requires: true]"] + tail, where=fl_plus(1))
    mk("requires-on-opaque-field:external-default", False, [], ["0 [+4]  Word  w", "  [requires: true]"] + tail, where=fl_plus(1))
    # the value of a user-defined integer external has no bounds: any run-time arithmetic on it fails the 64-bit gate
    mk("expression-unbounded:integer-external", False, ["[is_integer: true]"], ["0 [+4]  Word  w", "let y = w + 1"] + tail, where=fl_plus(1))
    # ---- nested / several externals ----
    ls = [HDR, "struct Ss:", "  external In:", "    [addressable_unit_size: 8]", "    [fixed_size_in_bits: 16]", "  0 [+2]  In  w", "  2 [+1]  UInt  tail"]
    out.append(_case(ls, "boundary-ok:external-nested-in-struct", 6, True))
    ls = [HDR, "struct Ss:", "  external In:", "    [addressable_unit_size: 8]", "    [fixed_size_in_bits: 16]", "  0 [+3]  In  w", "  3 [+1]  UInt  tail"]
    out.append(_case(ls, "external-fixed-size-16-in-larger-field:nested", 6, False))
    ls = [HDR, "external Aa:", "  [addressable_unit_size: 8]", "  [fixed_size_in_bits: 16]", "external Bb:", "  [addressable_unit_size: 1]",
          "  [static_requirements: $static_size_in_bits == 24]", "struct Ss:", "  0 [+2]  Aa  a", "  2 [+3]  Bb  b", "  5 [+2]  Aa[1]  c"]
    out.append(_case(ls, "boundary-ok:two-externals", 9, True))
    ls2 = list(ls)
    ls2[9] = "  2 [+2]  Bb  b"
    out.append(_case(ls2, "external-requirements-second-external", 10, False))
    return [c for c in out if c is not None]


class fl_plus(str):
    """'field line + k' marker understood by external_cases.mk."""
    def __new__(cls, k):
        o = str.__new__(cls, "fl+%d" % k)
        o.k = k
        return o


def null_border_cases():
    """Implicit "Null" byte order.  No byte_order anywhere in scope (no $default, none on the field unless stated):
    a field gets byte_order "Null" exactly when it is one unit long or its (element) type is one unit long; for a
    user `bits` type that is its synthesized [fixed_size_in_bits].  Deterministic; the bits type is declared before
    and after the structure that uses it."""
    out = []
    bits8 = ["bits Status:", "  0 [+3]  UInt  lo", "  3 [+5]  UInt  hi"]
    bits16 = ["bits Wide:", "  0 [+3]  UInt  lo", "  3 [+13]  UInt  hi"]
    REQ = "byte-order-missing"
    rows = [
        # (rule, ok, field lines, line offset of the planted construct inside the struct body)
        ("boundary-ok:implicit-null:array-of-8-bit-bits", True, ["0 [+4]  Status[4]  ss"], 0),
        ("boundary-ok:implicit-null:single-8-bit-bits", True, ["0 [+1]  Status  s"], 0),
        ("boundary-ok:implicit-null:array-of-8-bit-bits-outer-omitted", True, ["0 [+1]  UInt  n", "1 [+n]  Status[]  ss"], 1),
        ("boundary-ok:implicit-null:anonymous-bits-in-one-byte", True, ["0 [+1]  bits:", "  0 [+3]  UInt  a", "  3 [+5]  UInt  b"], 0),
        (REQ + ":anonymous-bits-in-two-bytes", False, ["0 [+2]  bits:", "  0 [+3]  UInt  a", "  3 [+13]  UInt  b"], 0),
        # the TYPE decides, not the field: an 8-bit anonymous bits in a [+n] field is one unit long
        ("boundary-ok:implicit-null:8-bit-anonymous-bits-in-dynamic-field", True, ["0 [+1]  UInt  n", "1 [+n]  bits:", "  0 [+3]  UInt  a", "  3 [+5]  UInt  b"], 1),
        (REQ + ":16-bit-anonymous-bits-in-dynamic-field", False, ["0 [+1]  UInt  n", "1 [+n]  bits:", "  0 [+3]  UInt  a", "  3 [+13]  UInt  b"], 1),
        # an anonymous bits block SHORTER than one byte: still one unit only in a one-byte field
        ("boundary-ok:implicit-null:4-bit-anonymous-bits-in-one-byte", True, ["0 [+1]  bits:", "  0 [+4]  UInt  a"], 0),
        (REQ + ":4-bit-anonymous-bits-in-two-bytes", False, ["0 [+2]  bits:", "  0 [+4]  UInt  a"], 0),
        (REQ + ":7-bit-anonymous-bits-in-four-bytes", False, ["0 [+4]  bits:", "  0 [+3]  UInt  a", "  3 [+4]  UInt  b"], 0),
        (REQ + ":4-bit-anonymous-bits-in-dynamic-field", False, ["0 [+1]  UInt  n", "1 [+n]  bits:", "  0 [+4]  UInt  a"], 1),
        ("boundary-ok:implicit-null:uint8-array", True, ["0 [+4]  UInt:8[4]  us"], 0),
        ("boundary-ok:implicit-null:one-byte-uint", True, ["0 [+1]  UInt  u"], 0),
        (REQ + ":two-byte-uint", False, ["0 [+2]  UInt  u"], 0),
        (REQ + ":uint16-array", False, ["0 [+4]  UInt:16[2]  us"], 0),
        (REQ + ":16-bit-bits", False, ["0 [+2]  Wide  w"], 0),
        (REQ + ":array-of-16-bit-bits", False, ["0 [+4]  Wide[2]  ws"], 0),
        ("boundary-ok:explicit-null:one-byte-field", True, ["0 [+1]  UInt  u", '  [byte_order: "Null"]'], 1),
        ("byte-order-null-on-multi-byte-field", False, ["0 [+2]  UInt  u", '  [byte_order: "Null"]'], 1),
        ("boundary-ok:explicit-null:array-of-8-bit-bits", True, ["0 [+4]  Status[4]  ss", '  [byte_order: "Null"]'], 1),
        ("boundary-ok:explicit-null:single-8-bit-bits", True, ["0 [+1]  Status  s", '  [byte_order: "Null"]'], 1),
        ("byte-order-null-on-multi-byte-field:16-bit-bits", False, ["0 [+2]  Wide  w", '  [byte_order: "Null"]'], 1),
        ("boundary-ok:explicit-byte-order-on-8-bit-bits-array", True, ["0 [+4]  Status[4]  ss", '  [byte_order: "BigEndian"]'], 1),
    ]
    for rule, ok, fields, off in rows:
        for pos in ("before", "after"):
            body = ["struct Ss:"] + ["  " + f for f in fields]
            decl = bits8 + bits16
            ls = (decl + body) if pos == "before" else (body + decl)
            base = (len(decl) if pos == "before" else 0) + 1      # line of "struct Ss:"
            line = base + 1 + off
            alt = [base + 1 + k for k in range(len(fields))]
            out.append(_case(ls, "%s:bits-declared-%s" % (rule, pos), line, ok, alt=alt))
    # the same shapes under an enclosing $default stay realisable (multi-byte ones included)
    for fields in (["0 [+2]  bits:", "  0 [+3]  UInt  a", "  3 [+13]  UInt  b"], ["0 [+4]  Status[4]  ss"], ["0 [+2]  Wide  w"]):
        ls = ['[$default byte_order: "BigEndian"]'] + bits8 + bits16 + ["struct Ss:"] + ["  " + f for f in fields]
        out.append(_case(ls, "boundary-ok:default-in-scope:%s" % fields[0].split()[2].strip(":").lower(), 9, True))
    return out


def static_ref_cases():
    """Static references `Type.field`: allowed wherever an expression is (let, field location / size, array length,
    condition, [requires], type argument, enum value, attribute value), as long as the target is constant: an enum
    value, a `let` with a constant value (directly, through other constant lets, through another static reference),
    $size_in_bytes of a fixed-size structure, $max/$min_size_in_bytes.  Deterministic."""
    out = []
    K = [HDR, "enum Ee:", "  AA = 1", "struct Kk:", "  0 [+1]  UInt  x", "  let v = x + 1", "  let k = 3", "  let k2 = k + 1",
         "  let ks = Kk.k * 2", "  let ke = Ee.AA", "  let al = x", "  let kt = 3 == 3", "  if x == 1:", "    let ck = 5",
         "struct Dd:", "  0 [+1]  UInt  n", "  1 [+n]  UInt:8[]  xs", "struct Pp(a: UInt:8):", "  0 [+1]  UInt  y"]
    good = ["Kk.k", "Kk.k2", "Kk.ks", "Kk.ck", "Kk.$size_in_bytes", "Kk.$max_size_in_bytes", "Dd.$max_size_in_bytes", "Dd.$min_size_in_bytes"]
    bad = ["Kk.v", "Kk.al", "Dd.$size_in_bytes"]
    sites = [
        ("let", lambda e: ["struct Uu:", "  0 [+1]  UInt  y", "  let z = %s + 1" % e], 2),
        ("field-size", lambda e: ["struct Uu:", "  0 [+%s]  UInt:8[]  y" % e], 1),
        ("field-start", lambda e: ["struct Uu:", "  %s [+1]  UInt  y" % e], 1),
        ("array-length", lambda e: ["struct Uu:", "  0 [+1]  UInt  n", "  1 [+n]  UInt:8[%s]  y" % e], 2),
        ("condition", lambda e: ["struct Uu:", "  0 [+1]  UInt  y", "  if %s == 3:" % e, "    1 [+1]  UInt  z"], 2),
        ("requires", lambda e: ["struct Uu:", "  0 [+1]  UInt  y", "    [requires: this != %s]" % e], 2),
        ("type-argument", lambda e: ["struct Uu:", "  0 [+1]  Pp(%s)  y" % e], 1),
    ]
    n0 = len(K)
    for sname, f, off in sites:
        for e in good:
            if sname in ("field-size", "array-length") and e not in ("Kk.k", "Kk.k2", "Kk.ck"):
                continue
            out.append(_case(K + f(e), "boundary-ok:static-reference:%s:%s" % (sname, e.replace("$", "").replace(".", "-")), n0 + 1 + off, True))
        for e in bad:
            out.append(_case(K + f(e), "static-reference-not-constant:%s:%s" % (sname, e.replace("$", "").replace(".", "-")), n0 + 1 + off, False))
    # enum values and attribute values
    out.append(_case(K + ["enum Ff:", "  BB = Kk.k2"], "boundary-ok:static-reference:enum-value", n0 + 2, True))
    out.append(_case(K + ["enum Ff:", "  BB = Kk.v"], "static-reference-not-constant:enum-value", n0 + 2, False))
    out.append(_case(K + ["enum Ff:", "  BB = Kk.v", "struct Uu:", "  0 [+1]  UInt  y", "  let z = Ff.BB"],
                     "static-reference-not-constant:reference-to-non-constant-enum-value", n0 + 2, False, alt=[n0 + 5]))
    out.append(_case(K + ["enum Ff:", "  [maximum_bits: Kk.k2 + 4]", "  BB = 1"], "boundary-ok:static-reference:maximum-bits", n0 + 2, True))
    out.append(_case(K + ["enum Ff:", "  [maximum_bits: Kk.v]", "  BB = 1"], "static-reference-not-constant:maximum-bits", n0 + 2, False))
    out.append(_case(K + ["struct Uu:", "  0 [+1]  UInt  y", "  let z = Ee.AA == Kk.ke ? 1 : 2"], "boundary-ok:static-reference:enum-constant", n0 + 3, True))
    out.append(_case(K + ["struct Uu:", "  0 [+1]  UInt  y", "  let z = Kk.kt ? 1 : 2"], "boundary-ok:static-reference:boolean-constant", n0 + 3, True))
    out.append(_case([HDR, "struct Uu:", "  0 [+1]  UInt  y", "  let k = 2", "  let z = Uu.k + y"], "boundary-ok:static-reference:own-structure", 5, True))
    # references whose type is not an integer: a non-constant boolean / enumeration virtual field
    K2 = K[:10] + ["  let vb = x == 1", "  let ve = x == 1 ? Ee.AA : Ee.AA"] + K[10:]
    n2 = len(K2)
    out.append(_case(K2 + ["struct Uu:", "  0 [+1]  UInt  y", "  let z = Kk.vb ? 1 : 2"], "static-reference-not-constant:boolean-virtual:let", n2 + 3, False))
    out.append(_case(K2 + ["struct Uu:", "  0 [+1]  UInt  y", "  if Kk.vb:", "    1 [+1]  UInt  z"], "static-reference-not-constant:boolean-virtual:condition", n2 + 3, False))
    out.append(_case(K2 + ["struct Uu:", "  0 [+1]  UInt  y", "  let z = Kk.ve == Ee.AA ? 1 : 2"], "static-reference-not-constant:enum-virtual:let", n2 + 3, False))
    return out


_BE_WS = [" ", "  ", "   ", ""]


def back_end_list_cases(rng):
    """[expected_back_ends: "..."]: list syntax, and which qualifiers the module may then use."""
    out = []

    def mk(rule, ok, value, qualifiers, bad_line=2):
        esc = value.replace("\\", "\\\\").replace('"', '\\"').replace("\t", "\\t").replace("\n", "\\n")
        ls = [HDR, '[expected_back_ends: "%s"]' % esc]
        for q in qualifiers:
            ls.append('[(%s) namespace: "a::b"]' % q)
        ls += ["struct Ss:", "  0 [+1]  UInt  x"]
        out.append(_case(ls, rule, bad_line, ok, alt=list(range(2, 3 + len(qualifiers)))))

    w = lambda: rng.choice(_BE_WS)
    good = ["cpp", "cpp,xyz", "cpp, xyz", " cpp , xyz ", "cpp,", "cpp , ", "xyz,cpp,abc_9", "", "  ", "a1_b,cpp", "%scpp%s,%sx_y%s,%s" % (w(), w(), w(), w(), w())]
    for v in good:
        names = [x.strip() for x in v.split(",") if x.strip()]
        mk("boundary-ok:expected-back-ends-syntax", True, v, [])
        if names:
            mk("boundary-ok:expected-back-ends-declared-qualifier", True, v, [q for q in names if q == "cpp"] + [q for q in names if q != "cpp"][:1])
        foreign = "zz" if "zz" not in names else "yy"
        mk("attribute-undeclared-back-end:explicit-list", False, v, [foreign], bad_line=3)
    mk("attribute-undeclared-back-end:cpp-not-in-list", False, "xyz", ["cpp"], bad_line=3)
    mk("attribute-undeclared-back-end:blank-list", False, "", ["cpp"], bad_line=3)
    bad = ["Cpp", "cpp,,xyz", ",cpp", "cpp xyz", "cpp;xyz", "9cpp", "_cpp", "cpp,Xyz", "cpp-x", "c.pp", "cpp, ,", ",", " , ", "cpp,,", "(cpp)", "cpp:xyz"]
    for v in bad:
        mk("expected-back-ends-syntax:%s" % "".join(ch if ch.isalnum() else "_" for ch in v), False, v, [])
    # value kinds
    for v, tag in (("3", "integer"), ("true", "boolean")):
        ls = [HDR, "[expected_back_ends: %s]" % v, "struct Ss:", "  0 [+1]  UInt  x"]
        out.append(_case(ls, "attribute-value-kind:expected_back_ends:%s" % tag, 2, False))
    ls = [HDR, '[$default expected_back_ends: "cpp"]', "struct Ss:", "  0 [+1]  UInt  x"]
    out.append(_case(ls, "attribute-not-defaultable:expected_back_ends", 2, False))
    ls = [HDR, '[expected_back_ends: "cpp"]', '[expected_back_ends: "cpp"]', "struct Ss:", "  0 [+1]  UInt  x"]
    out.append(_case(ls, "attribute-duplicate:expected_back_ends", 3, False))
    ls = [HDR, "struct Ss:", '  [expected_back_ends: "cpp"]', "  0 [+1]  UInt  x"]
    out.append(_case(ls, "attribute-wrong-scope:expected_back_ends:on-struct", 3, False))
    return out


def be_strings(rng, n):
    """Strings for the function-level comparison of back_ends_okb / back_ends_of with the front end."""
    ws = [" ", "\t", "\n", "\r", "\x0b", "\x0c", "\x1c", "\x1f", "  "]
    alpha = "abcxyz09_"
    out = ["", " ", ",", "cpp", "cpp,", ",cpp", "cpp,,", "cpp , proto", "Cpp", "cpp proto"]
    while len(out) < n:
        k = rng.randrange(0, 4)
        parts = []
        for _ in range(k):
            ident = rng.choice("abcxyz") + "".join(rng.choice(alpha) for _ in range(rng.randrange(0, 4)))
            parts.append(rng.choice(["", rng.choice(ws)]) + ident + rng.choice(["", rng.choice(ws)]))
        sx = ",".join(parts) + rng.choice(["", "", ",", ", ", rng.choice(ws)])
        if rng.random() < 0.5 and sx:
            i = rng.randrange(len(sx) + 1)
            m = rng.choice(["del", "ins", "ins"])
            if m == "del" and i < len(sx):
                sx = sx[:i] + sx[i + 1:]
            else:
                sx = sx[:i] + rng.choice([",", " ", "A", "9", "_", "-", ";", "\t", "\x1d", "\x00", "\x7f"]) + sx[i:]
        out.append(sx)
    return out
