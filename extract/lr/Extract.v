(* Extraction of the C08/C09 table interpreter (LR/Exec.v `main`) to OCaml.
   ExtrOcamlBasic only: bool/option/list/prod/unit map to OCaml's, everything else
   (N, positive, nat, PositiveMap) stays a Coq datatype.  The .ml/.mli are written
   to the current directory (the harness runs coqc with cwd = build/<prop>/lr). *)
Require Extraction.
Require Import ExtrOcamlBasic.
Require Import EmbossV.LR.Exec.
Extraction "lr_model.ml" main.
