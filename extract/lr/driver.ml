(* Trusted glue: text lines of decimal numbers <-> Coq `list (list N)`; all work is
   done by the extracted `Lr_model.main`. *)
open Lr_model

let rec pos_of_int i =
  if i = 1 then XH
  else if i land 1 = 0 then XO (pos_of_int (i lsr 1))
  else XI (pos_of_int (i lsr 1))

let n_of_int i =
  if i < 0 then failwith "negative number" else if i = 0 then N0 else Npos (pos_of_int i)

let rec int_of_pos = function
  | XH -> 1
  | XO p -> 2 * int_of_pos p
  | XI p -> 2 * int_of_pos p + 1

let int_of_n = function N0 -> 0 | Npos p -> int_of_pos p

let () =
  let ic = open_in Sys.argv.(1) in
  let lines = ref [] in
  (try
     while true do
       let l = input_line ic in
       let ws = List.filter (fun s -> s <> "") (String.split_on_char ' ' l) in
       lines := List.rev (List.rev_map (fun w -> n_of_int (int_of_string w)) ws) :: !lines
     done
   with End_of_file -> ());
  let out = main (List.rev !lines) in
  List.iter
    (fun l -> print_endline (String.concat " " (List.map (fun x -> string_of_int (int_of_n x)) l)))
    out
