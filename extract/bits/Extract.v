(* Extraction of the executable glue of Bits/Exec.v for the C02/C03 correspondence harness.
   Only ExtrOcamlBasic; Z / positive / nat stay Coq datatypes. *)
Require Extraction.
Require Import ExtrOcamlBasic.
From Coq Require Import ZArith List.
Require Import EmbossV.Bits.Model EmbossV.Bits.Exec.
Extraction "bits_model.ml" run_read run_write mk_acc Z.add Z.mul Z.opp.
