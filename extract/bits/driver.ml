(* Driver for the extracted Bits model: one case per input line, one result per output line.

   input :  R|W opt order boff c path kind ut w buf [argty:value ...]
            opt 0|1; order LE|BE|Null|NullSized; path "-" or "o:s,o:s"; kind uint|int|bcd|flag|float|enum;
            ut "-" or "s:bits" (s = 0|1); buf "-" or hex; argty "s:bits"; numbers decimal
   output:  R line:  "none" | "ok cpl sz sg v"          (v = "-" or a number)
            W line:  one item per value, separated by " | ":  "none" | "cw tw rd len buf"
   numbers are printed as [-]b<binary digits>. *)
open Bits_model

let rec pos_of_int n = if n = 1 then XH else if n land 1 = 0 then XO (pos_of_int (n lsr 1)) else XI (pos_of_int (n lsr 1))
let z_of_int n = if n = 0 then Z0 else if n > 0 then Zpos (pos_of_int n) else Zneg (pos_of_int (-n))
let rec nat_of_int n = if n = 0 then O else S (nat_of_int (n - 1))
let z10 = z_of_int 10
let z_of_dec (s : string) : z =
  let neg = String.length s > 0 && s.[0] = '-' in
  let acc = ref Z0 in
  String.iteri (fun i ch -> if not (neg && i = 0) then
    acc := Z.add (Z.mul !acc z10) (z_of_int (Char.code ch - 48))) s;
  if neg then Z.opp !acc else !acc
let rec pos_bits p acc = match p with
  | XH -> "1" ^ acc
  | XO q -> pos_bits q ("0" ^ acc)
  | XI q -> pos_bits q ("1" ^ acc)
let z_str = function Z0 -> "b0" | Zpos p -> "b" ^ pos_bits p "" | Zneg p -> "-b" ^ pos_bits p ""
let b_str b = if b then "1" else "0"
let bytes_of_hex s =
  if s = "-" then [] else
  List.init (String.length s / 2) (fun i -> z_of_int (int_of_string ("0x" ^ String.sub s (2 * i) 2)))
let cty_of s = match String.split_on_char ':' s with
  | [sg; b] -> { csigned = (sg = "1"); cbits = z_of_int (int_of_string b) }
  | _ -> failwith ("cty " ^ s)
let order_of = function "LE" -> LE | "BE" -> BE | "Null" -> Null | "NullSized" -> NullSized | s -> failwith ("order " ^ s)
let path_of s = if s = "-" then [] else
  List.map (fun p -> match String.split_on_char ':' p with
    | [o; z] -> (z_of_int (int_of_string o), z_of_int (int_of_string z)) | _ -> failwith "path") (String.split_on_char ',' s)
let kind_of k ut = match k with
  | "uint" -> KUInt | "int" -> KInt | "bcd" -> KBcd | "flag" -> KFlag | "float" -> KFloat
  | "enum" -> KEnum (cty_of ut) | _ -> failwith ("kind " ^ k)
let rec len = function [] -> 0 | _ :: t -> 1 + len t

let () =
  try
    while true do
      let line = input_line stdin in
      match String.split_on_char ' ' line with
      | tag :: opt :: order :: boff :: c :: path :: kind :: ut :: w :: buf :: rest ->
          let a = { a_opt = (opt = "1"); a_order = order_of order; a_boff = nat_of_int (int_of_string boff);
                    a_c = nat_of_int (int_of_string c); a_path = path_of path; a_kind = kind_of kind ut;
                    a_w = z_of_int (int_of_string w) } in
          let root = bytes_of_hex buf in
          if tag = "R" then
            (match run_read a root with
             | None -> print_string "none\n"
             | Some ((((ok, cpl), sz), sg), v) ->
                 Printf.printf "%s %s %s %s %s\n" (b_str ok) (b_str cpl) (z_str sz) (b_str sg)
                   (match v with None -> "-" | Some x -> z_str x))
          else begin
            let items = List.map (fun av ->
              match String.rindex_opt av ':' with
              | None -> failwith "arg"
              | Some i ->
                  let t = cty_of (String.sub av 0 i) in
                  let v = z_of_dec (String.sub av (i + 1) (String.length av - i - 1)) in
                  (match run_write a root (t, v) with
                   | None -> "none"
                   | Some (((cw, tw), rd), root') ->
                       Printf.sprintf "%s %s %s %d %s" (b_str cw) (b_str tw)
                         (match rd with None -> "-" | Some x -> z_str x) (len root')
                         (String.concat "," (List.map z_str root')))) rest in
            print_string (String.concat " | " items); print_string "\n"
          end
      | _ -> failwith ("bad line: " ^ line)
    done
  with End_of_file -> ()
