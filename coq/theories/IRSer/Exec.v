(* Executable glue for the C18 correspondence harness: decidable equality on
   values and dictionaries, and the case runner. *)
From Coq Require Import NArith ZArith String Ascii Bool List.
Import ListNotations.
Require Import EmbossV.IRSer.Model.

Definition loc_eqb (a b : loc) : bool :=
  N.eqb a.(sl) b.(sl) && N.eqb a.(sc) b.(sc) && N.eqb a.(el) b.(el) && N.eqb a.(ec) b.(ec)
  && Bool.eqb a.(disj) b.(disj) && Bool.eqb a.(synth) b.(synth).

Definition scalar_eqb (a b : scalar) : bool :=
  match a, b with
  | SStr x, SStr y => String.eqb x y
  | SBool x, SBool y => Bool.eqb x y
  | SInt x, SInt y => Z.eqb x y
  | SEnum x, SEnum y => Z.eqb x y
  | SLoc x, SLoc y => loc_eqb x y
  | _, _ => false
  end.

Fixpoint value_eqb (a b : value) {struct a} : bool :=
  match a, b with
  | VNone, VNone => true
  | VScalar x, VScalar y => scalar_eqb x y
  | VMsg c vs, VMsg d ws =>
      N.eqb c d &&
      (fix go (l m : list value) {struct l} : bool :=
         match l, m with
         | [], [] => true
         | x :: l', y :: m' => value_eqb x y && go l' m'
         | _, _ => false
         end) vs ws
  | VList l0, VList m0 =>
      (fix go (l m : list value) {struct l} : bool :=
         match l, m with
         | [], [] => true
         | x :: l', y :: m' => value_eqb x y && go l' m'
         | _, _ => false
         end) l0 m0
  | _, _ => false
  end.

Fixpoint jval_eqb (a b : jval) {struct a} : bool :=
  match a, b with
  | JNull, JNull => true
  | JStr x, JStr y => String.eqb x y
  | JBool x, JBool y => Bool.eqb x y
  | JInt x, JInt y => Z.eqb x y
  | JList l0, JList m0 =>
      (fix go (l m : list jval) {struct l} : bool :=
         match l, m with
         | [], [] => true
         | x :: l', y :: m' => jval_eqb x y && go l' m'
         | _, _ => false
         end) l0 m0
  | JDict k0, JDict w0 =>
      (fix go (l m : list (string * jval)) {struct l} : bool :=
         match l, m with
         | [], [] => true
         | (k, x) :: l', (k', y) :: m' => String.eqb k k' && jval_eqb x y && go l' m'
         | _, _ => false
         end) k0 w0
  | _, _ => false
  end.

Definition opt_value_eqb (a b : option value) : bool :=
  match a, b with
  | Some x, Some y => value_eqb x y
  | None, None => true
  | _, _ => false
  end.

(* one object of class c:
   (conforms?, to_dict, from_dict of that dictionary) *)
Definition run_tree (S : schema) (cv : N * value) : bool * jval * option value :=
  let (c, v) := cv in
  (wf_val S (KMsg c) v, to_dict S v, from_dict S c (to_dict S v)).

Definition run_tree_eqb (a b : bool * jval * option value) : bool :=
  Bool.eqb (fst (fst a)) (fst (fst b)) && jval_eqb (snd (fst a)) (snd (fst b)) && opt_value_eqb (snd a) (snd b).

(* from_dict on an arbitrary dictionary (enum names, unknown keys, explicit nulls, two oneof members) *)
Definition run_from (S : schema) (cj : N * jval) : option value := from_dict S (fst cj) (snd cj).

(* SourceLocation text: (str(loc), from_str(str(loc))) *)
Definition run_loc (x : loc) : string * option loc := (loc_string x, loc_parse (loc_string x)).

Definition run_loc_eqb (a b : string * option loc) : bool :=
  String.eqb (fst a) (fst b) &&
  match snd a, snd b with
  | Some x, Some y => loc_eqb x y
  | None, None => true
  | _, _ => false
  end.

(* from_str on an arbitrary text *)
Definition run_parse (s : string) : option loc := loc_parse s.
Definition opt_loc_eqb (a b : option loc) : bool :=
  match a, b with Some x, Some y => loc_eqb x y | None, None => true | _, _ => false end.
