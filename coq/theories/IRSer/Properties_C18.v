(* C18 — statements only; proofs are in Proofs.v.  The instance at the schema of
   the working tree (the_schema_ok, ir_from_to_id) is generated into
   build/gen/IRSchema.v by harness/ir_schema.py and checked on every run. *)
From Coq Require Import NArith List String.
Require Import EmbossV.IRSer.Model EmbossV.IRSer.Proofs.

(* reading back what was written gives the same object: every attribute, every
   None / set distinction, every list, enum member, string and location *)
Theorem from_to_id : forall S, schema_okb S = true ->
  forall c v, wf_val S (KMsg c) v = true -> from_dict S c (to_dict S v) = Some v.
Proof. exact from_to_id_proof. Qed.

(* writing the re-read object gives the same dictionary again *)
Theorem to_idempotent : forall S, schema_okb S = true ->
  forall c v, wf_val S (KMsg c) v = true ->
  option_map (to_dict S) (from_dict S c (to_dict S v)) = Some (to_dict S v).
Proof. exact to_idempotent_proof. Qed.

Theorem to_dict_injective : forall S, schema_okb S = true ->
  forall c v w, wf_val S (KMsg c) v = true -> wf_val S (KMsg c) w = true ->
  to_dict S v = to_dict S w -> v = w.
Proof. exact to_dict_injective_proof. Qed.

(* SourceLocation.from_str(str(loc)) = loc for every valid location and flag combination *)
Theorem loc_str_roundtrip : forall x, loc_okb x = true -> loc_parse (loc_string x) = Some x.
Proof. exact loc_str_roundtrip_proof. Qed.

Theorem loc_string_injective : forall x y, loc_okb x = true -> loc_okb y = true ->
  loc_string x = loc_string y -> x = y.
Proof. exact loc_string_injective_proof. Qed.

(* any function of the IR (such as the generated header) has the same result on the re-read IR *)
Theorem header_invariant : forall S, schema_okb S = true ->
  forall (A : Type) (gen : value -> A) c v, wf_val S (KMsg c) v = true ->
  option_map gen (from_dict S c (to_dict S v)) = Some (gen v).
Proof. exact reread_invariant_proof. Qed.
