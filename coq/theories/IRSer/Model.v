(* C18 — model of the IR (de)serialisation of compiler/util/ir_data_utils.py.
   Definitions only; proofs are in Proofs.v.

   IR objects are instances of dataclasses described by field specs
   (ir_data_fields.FieldSpec): a name, a data type, a container
   (NONE / OPTIONAL / LIST) and an optional "oneof" group.  The schema (one
   field-spec list per class, and the members of the two enums) is regenerated
   from ir_data.py by harness/ir_schema.py on every run.

   value  : a Python IR object, or the value of one attribute
   jval   : what IrDataSerializer.to_dict produces / json.loads returns
   to_j   : IrDataSerializer.to_dict(exclude_none=True)
   from_val : IrDataSerializer._from_dict (fuel = nesting depth)

   Numbers that may exceed 64 bits (NumericConstant.value, the IntegerType bounds) are
   *strings* in the IR (decimal), so they are ordinary KStr fields here.
   JSON text <-> jval is Python's json module and is not modelled. *)
From Coq Require Import NArith ZArith List String Ascii Bool DecimalString Decimal DecimalN.
Import ListNotations.

(* ------------------------------------------------------------------ schema *)

Inductive kind := KStr | KBool | KInt | KEnum (e : N) | KLoc | KMsg (c : N).
Inductive container := CNone | COpt | CList.

Record fspec := mkF { fname : string; fkind : kind; fcont : container; foneof : option string }.

Record schema := mkS {
  classes : list (list fspec);              (* class number -> field specs, in declaration order *)
  enums : list (list (string * Z))          (* enum number -> members (name, value) *)
}.

Definition fields (S : schema) (c : N) : list fspec := nth (N.to_nat c) S.(classes) [].
Definition members (S : schema) (e : N) : list (string * Z) := nth (N.to_nat e) S.(enums) [].

(* --------------------------------------------------------- source locations *)

(* parser_types.SourceLocation: start/end (line, column), and two flags *)
Record loc := mkL { sl : N; sc : N; el : N; ec : N; disj : bool; synth : bool }.

(* the assertions of SourcePosition.__new__ and SourceLocation.__new__ *)
Definition pos_okb (l c : N) : bool := Bool.eqb (N.eqb l 0) (N.eqb c 0).
Definition pos_leb (l1 c1 l2 c2 : N) : bool := N.ltb l1 l2 || (N.eqb l1 l2 && N.leb c1 c2).
Definition loc_okb (x : loc) : bool :=
  pos_okb x.(sl) x.(sc) && pos_okb x.(el) x.(ec) &&
  pos_leb x.(sl) x.(sc) x.(el) x.(ec) &&
  Bool.eqb (N.eqb x.(sl) 0) (N.eqb x.(el) 0).

Definition dec (n : N) : list ascii := list_ascii_of_string (NilEmpty.string_of_uint (N.to_uint n)).

(* int(s.strip()) restricted to non-empty strings of decimal digits *)
Definition undec (l : list ascii) : option N :=
  match l with
  | [] => None
  | _ => option_map N.of_uint (NilEmpty.uint_of_string (string_of_list_ascii l))
  end.

(* SourceLocation.__str__ : f"{start}-{end}" + ("^" if disjoint) + ("*" if synthetic) *)
Definition pos_chars (l c : N) : list ascii := dec l ++ ":"%char :: dec c.
Definition flag_chars (x : loc) : list ascii :=
  (if x.(disj) then ["^"%char] else []) ++ (if x.(synth) then ["*"%char] else []).
Definition loc_chars (x : loc) : list ascii :=
  pos_chars x.(sl) x.(sc) ++ "-"%char :: pos_chars x.(el) x.(ec) ++ flag_chars x.

Definition loc_string (x : loc) : string := string_of_list_ascii (loc_chars x).

(* `if value[-1] == c: flag = True; value = value[:-1]`; None = IndexError on an empty string *)
Definition strip_last (c : ascii) (l : list ascii) : option (bool * list ascii) :=
  match List.rev l with
  | [] => None
  | x :: r => if Ascii.eqb x c then Some (true, List.rev r) else Some (false, l)
  end.

(* s.split(c) when it has exactly two parts *)
Fixpoint break_at (c : ascii) (l : list ascii) : option (list ascii * list ascii) :=
  match l with
  | [] => None
  | x :: t => if Ascii.eqb x c then Some ([], t)
              else match break_at c t with
                   | Some (a, b) => Some (x :: a, b)
                   | None => None
                   end
  end.

Definition split2 (c : ascii) (l : list ascii) : option (list ascii * list ascii) :=
  match break_at c l with
  | Some (a, b) => if existsb (Ascii.eqb c) b then None else Some (a, b)
  | None => None
  end.

Definition parse_pos (l : list ascii) : option (N * N) :=
  match split2 ":"%char l with
  | Some (a, b) =>
      match undec a, undec b with
      | Some x, Some y => if pos_okb x y then Some (x, y) else None
      | _, _ => None
      end
  | None => None
  end.

(* SourceLocation.from_str; None = ValueError *)
Definition loc_parse_chars (l : list ascii) : option loc :=
  match strip_last "*"%char l with
  | None => None
  | Some (syn, l1) =>
      match strip_last "^"%char l1 with
      | None => None
      | Some (dj, l2) =>
          match split2 "-"%char l2 with
          | None => None
          | Some (a, b) =>
              match parse_pos a, parse_pos b with
              | Some (l1', c1), Some (l2', c2) =>
                  let x := mkL l1' c1 l2' c2 dj syn in
                  if loc_okb x then Some x else None
              | _, _ => None
              end
          end
      end
  end.

Definition loc_parse (s : string) : option loc := loc_parse_chars (list_ascii_of_string s).

(* ------------------------------------------------------------------- values *)

Inductive scalar :=
| SStr (s : string)
| SBool (b : bool)
| SInt (z : Z)
| SEnum (z : Z)          (* an enum member, by value *)
| SLoc (l : loc).

(* a Python attribute value: None, a scalar, an IR object of class c with its
   attribute values in field-spec order, or a list *)
Inductive value :=
| VNone
| VScalar (x : scalar)
| VMsg (c : N) (vs : list value)
| VList (l : list value).

Inductive jval :=
| JNull
| JStr (s : string)
| JBool (b : bool)
| JInt (z : Z)
| JList (l : list jval)
| JDict (kv : list (string * jval)).

Definition is_none (v : value) : bool := match v with VNone => true | _ => false end.

(* ------------------------------------------------------------- conformance *)

Definition enum_has (S : schema) (e : N) (z : Z) : bool :=
  existsb (fun p => Z.eqb (snd p) z) (members S e).

Definition wf_scalar (S : schema) (k : kind) (x : scalar) : bool :=
  match k, x with
  | KStr, SStr _ => true
  | KBool, SBool _ => true
  | KInt, SInt _ => true
  | KEnum e, SEnum z => enum_has S e z
  | KLoc, SLoc l => loc_okb l
  | _, _ => false
  end.

Section WfFields.
  Variable rec : kind -> value -> bool.

  (* one attribute against its spec *)
  Definition wf_slot (f : fspec) (v : value) : bool :=
    match f.(fcont) with
    | CList => match v with VList l => forallb (rec f.(fkind)) l | _ => false end
    | COpt => match v with VNone => true | _ => rec f.(fkind) v end
    | CNone => rec f.(fkind) v
    end.

  Fixpoint wf_fields (fs : list fspec) (vs : list value) {struct vs} : bool :=
    match vs, fs with
    | [], [] => true
    | v :: vs', f :: fs' => wf_slot f v && wf_fields fs' vs'
    | _, _ => false
    end.
End WfFields.

(* is some later member of oneof group g set? *)
Fixpoint later_set (g : string) (fs : list fspec) (vs : list value) : bool :=
  match fs, vs with
  | f :: fs', v :: vs' =>
      (match f.(foneof) with Some g' => String.eqb g g' && negb (is_none v) | None => false end)
      || later_set g fs' vs'
  | _, _ => false
  end.

(* at most one member of every oneof group is set (the OneOfField descriptor guarantees it) *)
Fixpoint oneof_okb (fs : list fspec) (vs : list value) : bool :=
  match fs, vs with
  | f :: fs', v :: vs' =>
      (match f.(foneof) with
       | Some g => is_none v || negb (later_set g fs' vs')
       | None => true
       end) && oneof_okb fs' vs'
  | _, _ => true
  end.

(* v is a (non-None) value of kind k that the dataclasses can hold *)
Fixpoint wf_val (S : schema) (k : kind) (v : value) {struct v} : bool :=
  match v with
  | VNone => false
  | VScalar x => wf_scalar S k x
  | VMsg c vs =>
      match k with
      | KMsg c' => N.eqb c c' && wf_fields (fun k0 v0 => wf_val S k0 v0) (fields S c) vs && oneof_okb (fields S c) vs
      | _ => false
      end
  | VList _ => false
  end.

Fixpoint depth (v : value) : nat :=
  match v with
  | VNone => 0
  | VScalar _ => 0
  | VMsg _ vs => S (list_max (map depth vs))
  | VList l => list_max (map depth l)
  end.

(* ---------------------------------------------------------------- to_dict *)

Definition scalar_j (x : scalar) : jval :=
  match x with
  | SStr s => JStr s
  | SBool b => JBool b
  | SInt z => JInt z
  | SEnum z => JInt z                       (* json.dumps of an int-valued enum member *)
  | SLoc l => JStr (loc_string l)           (* str(value) *)
  end.

(* the exclude_none filter: `v is not None and (not isinstance(v, list) or len(v))` *)
Definition excluded (j : jval) : bool :=
  match j with
  | JNull => true
  | JList [] => true
  | _ => false
  end.

Fixpoint emit (fs : list fspec) (js : list jval) : list (string * jval) :=
  match fs, js with
  | f :: fs', j :: js' => (if excluded j then [] else [(f.(fname), j)]) ++ emit fs' js'
  | _, _ => []
  end.

Fixpoint to_j (S : schema) (v : value) : jval :=
  match v with
  | VNone => JNull
  | VScalar x => scalar_j x
  | VMsg c vs => JDict (emit (fields S c) (map (to_j S) vs))
  | VList l => JList (map (to_j S) l)
  end.

(* -------------------------------------------------------------- from_dict *)

Fixpoint lookup (k : string) (kv : list (string * jval)) : option jval :=
  match kv with
  | [] => None
  | (k', j) :: t => if String.eqb k k' then Some j else lookup k t
  end.

Fixpoint mapM {A B : Type} (f : A -> option B) (l : list A) : option (list B) :=
  match l with
  | [] => Some []
  | x :: t => match f x, mapM f t with
              | Some y, Some ys => Some (y :: ys)
              | _, _ => None
              end
  end.

Definition enum_by_name (S : schema) (e : N) (n : string) : option Z :=
  match find (fun p => String.eqb (fst p) n) (members S e) with
  | Some p => Some (snd p)
  | None => None
  end.

(* conversion of a JSON leaf; None = an exception, or a coercion (str(5), bool("x"))
   that is outside the model: only values of the shape to_dict produces are covered *)
Definition from_scalar (S : schema) (k : kind) (j : jval) : option value :=
  match k, j with
  | KStr, JStr s => Some (VScalar (SStr s))
  | KBool, JBool b => Some (VScalar (SBool b))
  | KInt, JInt z => Some (VScalar (SInt z))
  | KEnum e, JInt z => if enum_has S e z then Some (VScalar (SEnum z)) else None    (* enum_cls(val) *)
  | KEnum e, JStr n => option_map (fun z => VScalar (SEnum z)) (enum_by_name S e n)  (* getattr(enum_cls, val) *)
  | KLoc, JStr s => option_map (fun l => VScalar (SLoc l)) (loc_parse s)
  | _, _ => None
  end.

Definition default_of (f : fspec) : value :=
  match f.(fcont) with
  | CList => VList []
  | COpt => VNone
  | CNone => match f.(fkind) with KStr => VScalar (SStr ""%string) | _ => VNone end   (* str_field() *)
  end.

Definition from_slot (rec : kind -> jval -> option value) (f : fspec) (x : jval) : option value :=
  match f.(fcont) with
  | CList => match x with
             | JList l => option_map VList (mapM (rec f.(fkind)) l)
             | _ => None
             end
  | _ => rec f.(fkind) x
  end.

(* the dataclass constructor call in _from_dict: attributes are assigned in declaration order; assigning a oneof
   member that is not None replaces the group's current choice, so the last one set wins *)
Fixpoint apply_oneof (fs : list fspec) (vs : list value) : list value :=
  match fs, vs with
  | f :: fs', v :: vs' =>
      (match f.(foneof) with
       | Some g => if later_set g fs' vs' then VNone else v
       | None => v
       end) :: apply_oneof fs' vs'
  | _, _ => vs
  end.

Fixpoint from_val (fuel : nat) (S : schema) (k : kind) (j : jval) {struct fuel} : option value :=
  match k with
  | KMsg c =>
      match fuel with
      | O => None
      | Datatypes.S n =>
          match j with
          | JDict kv =>
              option_map (fun vs => VMsg c (apply_oneof (fields S c) vs))
                (mapM (fun f => match lookup f.(fname) kv with
                                | None => Some (default_of f)
                                | Some JNull => Some (default_of f)      (* `data.get(name) is not None` *)
                                | Some x => from_slot (from_val n S) f x
                                end) (fields S c))
          | _ => None
          end
      end
  | _ => from_scalar S k j
  end.

Fixpoint jdepth (j : jval) : nat :=
  match j with
  | JList l => list_max (map jdepth l)
  | JDict kv => Datatypes.S (list_max (map (fun p => jdepth (snd p)) kv))
  | _ => 0
  end.

(* IrDataSerializer.to_dict(exclude_none=True) and .from_dict on a whole object of class c
   (the fuel is the nesting depth of the dictionary, so from_dict is total) *)
Definition to_dict (S : schema) (v : value) : jval := to_j S v.
Definition from_dict (S : schema) (c : N) (j : jval) : option value :=
  from_val (jdepth j) S (KMsg c) j.

(* ------------------------------------------------------------- schema sanity *)

Fixpoint nodup_names (l : list string) : bool :=
  match l with
  | [] => true
  | x :: t => negb (existsb (String.eqb x) t) && nodup_names t
  end.

(* field names of every class are distinct (they are Python attribute names) *)
Definition schema_okb (S : schema) : bool :=
  forallb (fun fs => nodup_names (map fname fs)) S.(classes).
