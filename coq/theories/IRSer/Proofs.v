(* C18 — proofs about IRSer/Model.v. *)
From Coq Require Import Arith NArith ZArith String Ascii Bool Lia DecimalString Decimal DecimalN DecimalPos List.
Import ListNotations.
Require Import EmbossV.IRSer.Model.

(* ======================================================================== *)
(* decimal digits                                                            *)
(* ======================================================================== *)

Definition is_digit (a : ascii) : bool :=
  let n := N_of_ascii a in (N.leb 48 n && N.leb n 57)%bool.

Lemma digits_of_uint : forall d, Forall (fun a => is_digit a = true)
                                   (list_ascii_of_string (NilEmpty.string_of_uint d)).
Proof.
  induction d; cbn; constructor; auto.
Qed.

Lemma dec_digits : forall n, Forall (fun a => is_digit a = true) (dec n).
Proof. intros. apply digits_of_uint. Qed.

Lemma dec_nonempty : forall n, dec n <> [].
Proof.
  intros n. unfold dec. destruct n as [|p]; cbn; [discriminate|].
  pose proof (Unsigned.to_uint_nonnil p) as H.
  destruct (Pos.to_uint p); cbn; try discriminate. congruence.
Qed.

Lemma undec_dec : forall n, undec (dec n) = Some n.
Proof.
  intros n. unfold undec. destruct (dec n) eqn:E; [exfalso; exact (dec_nonempty n E)|].
  rewrite <- E. unfold dec. rewrite string_of_list_ascii_of_string.
  rewrite NilEmpty.usu. cbn. rewrite DecimalN.Unsigned.of_to. reflexivity.
Qed.

Lemma not_in_digits : forall c l, is_digit c = false -> Forall (fun a => is_digit a = true) l ->
  existsb (Ascii.eqb c) l = false.
Proof.
  intros c l Hc H. induction H as [|a t Ha Ht IH]; [reflexivity|]. cbn.
  destruct (Ascii.eqb c a) eqn:E; [|exact IH].
  apply Ascii.eqb_eq in E. subst. congruence.
Qed.

(* ======================================================================== *)
(* splitting                                                                 *)
(* ======================================================================== *)

Lemma break_at_app : forall c a b, existsb (Ascii.eqb c) a = false ->
  break_at c (a ++ c :: b) = Some (a, b).
Proof.
  induction a as [|x a IH]; intros b H; cbn.
  - rewrite Ascii.eqb_refl. reflexivity.
  - cbn in H. apply orb_false_iff in H. destruct H as [H1 H2].
    rewrite Ascii.eqb_sym in H1. rewrite H1. rewrite (IH b H2). reflexivity.
Qed.

Lemma split2_app : forall c a b, existsb (Ascii.eqb c) a = false -> existsb (Ascii.eqb c) b = false ->
  split2 c (a ++ c :: b) = Some (a, b).
Proof.
  intros c a b Ha Hb. unfold split2. rewrite (break_at_app c a b Ha), Hb. reflexivity.
Qed.

Lemma existsb_app_false : forall (f : ascii -> bool) a b,
  existsb f a = false -> existsb f b = false -> existsb f (a ++ b) = false.
Proof. intros. rewrite existsb_app, H, H0. reflexivity. Qed.

Lemma parse_pos_ok : forall l c, pos_okb l c = true ->
  parse_pos (pos_chars l c) = Some (l, c).
Proof.
  intros l c H. unfold parse_pos, pos_chars.
  rewrite split2_app; [|apply not_in_digits; [reflexivity|apply dec_digits]..].
  rewrite !undec_dec, H. reflexivity.
Qed.

Lemma strip_last_hit : forall c l, strip_last c (l ++ [c]) = Some (true, l).
Proof.
  intros. unfold strip_last. rewrite rev_app_distr. cbn. rewrite Ascii.eqb_refl, rev_involutive. reflexivity.
Qed.

Lemma strip_last_miss : forall c l d, Ascii.eqb d c = false ->
  strip_last c (l ++ [d]) = Some (false, l ++ [d]).
Proof.
  intros. unfold strip_last. rewrite rev_app_distr. cbn. rewrite H. reflexivity.
Qed.

Lemma ends_with_digit : forall X n, exists init d, X ++ dec n = init ++ [d] /\ is_digit d = true.
Proof.
  intros X n. destruct (exists_last (dec_nonempty n)) as [i [d E]].
  exists (X ++ i), d. split; [rewrite E, app_assoc; reflexivity|].
  pose proof (dec_digits n) as H. rewrite E in H. apply Forall_app in H. destruct H as [_ H].
  inversion H. assumption.
Qed.

(* ======================================================================== *)
(* SourceLocation string form                                                *)
(* ======================================================================== *)

Lemma pos_chars_no : forall c l k, is_digit c = false -> Ascii.eqb c ":"%char = false ->
  existsb (Ascii.eqb c) (pos_chars l k) = false.
Proof.
  intros c l k Hc Hne. unfold pos_chars. apply existsb_app_false.
  - apply not_in_digits; [exact Hc|apply dec_digits].
  - cbn. rewrite Hne. apply not_in_digits; [exact Hc|apply dec_digits].
Qed.

Lemma loc_chars_roundtrip : forall x, loc_okb x = true -> loc_parse_chars (loc_chars x) = Some x.
Proof.
  intros [a b c d dj sy] Hok. unfold loc_chars, flag_chars. cbn [sl sc el ec disj synth].
  set (body := pos_chars a b ++ "-"%char :: pos_chars c d).
  assert (Hshape : forall F, pos_chars a b ++ "-"%char :: pos_chars c d ++ F = body ++ F).
  { intros F. unfold body. rewrite <- app_assoc. reflexivity. }
  rewrite Hshape.
  assert (Hbody : split2 "-"%char body = Some (pos_chars a b, pos_chars c d)).
  { unfold body. apply split2_app; apply pos_chars_no; reflexivity. }
  assert (Hpos : pos_okb a b = true /\ pos_okb c d = true).
  { unfold loc_okb in Hok. cbn in Hok. repeat (apply andb_true_iff in Hok; destruct Hok as [Hok ?]). auto. }
  destruct Hpos as [Hp1 Hp2].
  assert (Hend : exists init dg, body = init ++ [dg] /\ is_digit dg = true).
  { unfold body, pos_chars.
    destruct (ends_with_digit ((dec a ++ ":"%char :: dec b) ++ "-"%char :: dec c ++ [":"%char]) d) as [i [dg [E Hd]]].
    exists i, dg. split; [|exact Hd]. rewrite <- E. rewrite <- !app_assoc. cbn. rewrite <- !app_assoc. reflexivity. }
  destruct Hend as [init [dg [Ebody Hdg]]].
  assert (Hstar : Ascii.eqb dg "*"%char = false).
  { destruct (Ascii.eqb dg "*"%char) eqn:E; [|reflexivity]. apply Ascii.eqb_eq in E. subst. discriminate. }
  assert (Hhat : Ascii.eqb dg "^"%char = false).
  { destruct (Ascii.eqb dg "^"%char) eqn:E; [|reflexivity]. apply Ascii.eqb_eq in E. subst. discriminate. }
  assert (Hfin : forall dj' sy', loc_okb (mkL a b c d dj' sy') = true).
  { intros. exact Hok. }
  assert (Hp1' : parse_pos (pos_chars a b) = Some (a, b)) by (apply parse_pos_ok; exact Hp1).
  assert (Hp2' : parse_pos (pos_chars c d) = Some (c, d)) by (apply parse_pos_ok; exact Hp2).
  clearbody body. unfold loc_parse_chars.
  destruct dj, sy.
  - rewrite app_assoc.
    rewrite strip_last_hit. cbv beta iota. rewrite strip_last_hit. cbv beta iota.
    rewrite Hbody. cbv beta iota. rewrite Hp1', Hp2'. cbv beta iota.
    rewrite (Hfin true true). reflexivity.
  - rewrite app_nil_r.
    rewrite (strip_last_miss "*"%char body "^"%char eq_refl). cbv beta iota.
    rewrite strip_last_hit. cbv beta iota.
    rewrite Hbody. cbv beta iota. rewrite Hp1', Hp2'. cbv beta iota.
    rewrite (Hfin true false). reflexivity.
  - change ([] ++ ["*"%char]) with ["*"%char].
    rewrite strip_last_hit. cbv beta iota.
    rewrite Ebody, (strip_last_miss "^"%char init dg Hhat), <- Ebody. cbv beta iota.
    rewrite Hbody. cbv beta iota. rewrite Hp1', Hp2'. cbv beta iota.
    rewrite (Hfin false true). reflexivity.
  - change (@nil ascii ++ []) with (@nil ascii). rewrite app_nil_r.
    rewrite Ebody, (strip_last_miss "*"%char init dg Hstar). cbv beta iota.
    rewrite (strip_last_miss "^"%char init dg Hhat), <- Ebody. cbv beta iota.
    rewrite Hbody. cbv beta iota. rewrite Hp1', Hp2'. cbv beta iota.
    rewrite (Hfin false false). reflexivity.
Qed.

Theorem loc_str_roundtrip_proof : forall x, loc_okb x = true -> loc_parse (loc_string x) = Some x.
Proof.
  intros x H. unfold loc_parse, loc_string. rewrite list_ascii_of_string_of_list_ascii.
  apply loc_chars_roundtrip. exact H.
Qed.

(* the flags are visible in the text: different flags give different strings *)
Theorem loc_string_injective_proof : forall x y, loc_okb x = true -> loc_okb y = true ->
  loc_string x = loc_string y -> x = y.
Proof.
  intros x y Hx Hy E. apply loc_str_roundtrip_proof in Hx. apply loc_str_roundtrip_proof in Hy.
  rewrite E in Hx. congruence.
Qed.

(* ======================================================================== *)
(* induction principle for the nested type                                   *)
(* ======================================================================== *)

Section ValueInd.
  Variable P : value -> Prop.
  Hypothesis HN : P VNone.
  Hypothesis HS : forall x, P (VScalar x).
  Hypothesis HM : forall c vs, Forall P vs -> P (VMsg c vs).
  Hypothesis HL : forall l, Forall P l -> P (VList l).

  Fixpoint value_ind2 (v : value) : P v :=
    match v with
    | VNone => HN
    | VScalar x => HS x
    | VMsg c vs =>
        HM c vs ((fix go (l : list value) : Forall P l :=
                    match l with
                    | [] => Forall_nil P
                    | x :: t => Forall_cons x (value_ind2 x) (go t)
                    end) vs)
    | VList l =>
        HL l ((fix go (l : list value) : Forall P l :=
                 match l with
                 | [] => Forall_nil P
                 | x :: t => Forall_cons x (value_ind2 x) (go t)
                 end) l)
    end.
End ValueInd.

(* ======================================================================== *)
(* generic list lemmas                                                       *)
(* ======================================================================== *)

Lemma mapM_combine : forall (A B : Type) (g : A -> option B) xs ys,
  length xs = length ys ->
  (forall x y, In (x, y) (combine xs ys) -> g x = Some y) ->
  mapM g xs = Some ys.
Proof.
  induction xs as [|x xs IH]; intros [|y ys] Hl H; try discriminate; [reflexivity|].
  cbn. rewrite (H x y (or_introl eq_refl)). rewrite (IH ys); [reflexivity|cbn in Hl; lia|].
  intros x' y' Hin. apply H. right. exact Hin.
Qed.

Lemma mapM_map_id : forall (A B : Type) (g : B -> option A) (h : A -> B) l,
  (forall x, In x l -> g (h x) = Some x) -> mapM g (map h l) = Some l.
Proof.
  induction l as [|x l IH]; intros H; [reflexivity|]. cbn.
  rewrite (H x (or_introl eq_refl)), IH; [reflexivity|]. intros. apply H. right. assumption.
Qed.

Lemma list_max_ge : forall l x, In x l -> x <= list_max l.
Proof.
  intros l x H. pose proof (proj1 (list_max_le l (list_max l)) (le_n _)) as F.
  rewrite Forall_forall in F. apply F. exact H.
Qed.

Lemma in_combine_map : forall (A B C : Type) (h : B -> C) (xs : list A) ys x y,
  In (x, y) (combine xs ys) -> In (x, h y) (combine xs (map h ys)).
Proof.
  induction xs as [|a xs IH]; intros [|b ys] x y H; cbn in *; try contradiction.
  destruct H as [E|H]; [left; inversion E; reflexivity|right; apply IH; exact H].
Qed.

(* ======================================================================== *)
(* conformance lemmas                                                        *)
(* ======================================================================== *)

Lemma wf_fields_spec : forall rec fs vs, wf_fields rec fs vs = true ->
  length fs = length vs /\ forall f v, In (f, v) (combine fs vs) -> wf_slot rec f v = true.
Proof.
  intros rec fs vs. revert fs. induction vs as [|v vs IH]; intros [|f fs] H; cbn in H; try discriminate.
  - split; [reflexivity|intros f v []].
  - apply andb_true_iff in H. destruct H as [H1 H2]. destruct (IH fs H2) as [Hl Hs].
    split; [cbn; lia|]. intros f' v' [E|Hin]; [inversion E; subst; exact H1|auto].
Qed.

Lemma nodup_names_spec : forall l, nodup_names l = true -> NoDup l.
Proof.
  induction l as [|x l IH]; intros H; [constructor|]. cbn in H. apply andb_true_iff in H.
  destruct H as [H1 H2]. constructor; [|auto]. intro Hin.
  apply negb_true_iff in H1. assert (existsb (String.eqb x) l = true); [|congruence].
  apply existsb_exists. exists x. split; [exact Hin|apply String.eqb_refl].
Qed.

Lemma fields_nodup : forall S c, schema_okb S = true -> NoDup (map fname (fields S c)).
Proof.
  intros S c H. unfold fields. unfold schema_okb in H. rewrite forallb_forall in H.
  destruct (nth_in_or_default (N.to_nat c) S.(classes) []) as [Hin|Hd].
  - apply nodup_names_spec. apply H. exact Hin.
  - rewrite Hd. constructor.
Qed.

Lemma lookup_emit_notin : forall n fs js, ~ In n (map fname fs) -> lookup n (emit fs js) = None.
Proof.
  induction fs as [|f fs IH]; intros js Hn; [reflexivity|]. destruct js as [|j js]; [reflexivity|].
  cbn [emit]. assert (Hne : String.eqb n f.(fname) = false).
  { apply String.eqb_neq. intro E. apply Hn. left. symmetry. exact E. }
  assert (Ht : lookup n (emit fs js) = None) by (apply IH; intro; apply Hn; right; assumption).
  destruct (excluded j); cbn; [exact Ht|rewrite Hne; exact Ht].
Qed.

Lemma lookup_emit : forall fs js, NoDup (map fname fs) ->
  forall f j, In (f, j) (combine fs js) ->
  lookup f.(fname) (emit fs js) = if excluded j then None else Some j.
Proof.
  induction fs as [|f0 fs IH]; intros js Hnd f j Hin; [destruct Hin|].
  destruct js as [|j0 js]; [destruct Hin|]. cbn [map] in Hnd. inversion Hnd as [|? ? Hn0 Hnd']; subst.
  cbn [emit]. destruct Hin as [E|Hin].
  - inversion E; subst. destruct (excluded j) eqn:Ex; cbn.
    + apply lookup_emit_notin. exact Hn0.
    + rewrite String.eqb_refl. reflexivity.
  - assert (Hne : String.eqb f.(fname) f0.(fname) = false).
    { apply String.eqb_neq. intro E. apply Hn0. rewrite <- E. apply in_map_iff. exists f. split; [reflexivity|].
      eapply in_combine_l. exact Hin. }
    destruct (excluded j0); cbn; [|rewrite Hne]; apply IH; assumption.
Qed.

Lemma apply_oneof_id : forall fs vs, oneof_okb fs vs = true -> apply_oneof fs vs = vs.
Proof.
  induction fs as [|f fs IH]; intros [|v vs] H; try reflexivity. cbn in H. apply andb_true_iff in H.
  destruct H as [H1 H2]. cbn. rewrite (IH vs H2). destruct (foneof f) as [g|]; [|reflexivity].
  apply orb_true_iff in H1. destruct H1 as [H1|H1].
  - destruct v; try discriminate. destruct (later_set g fs vs); reflexivity.
  - apply negb_true_iff in H1. rewrite H1. reflexivity.
Qed.

Lemma from_scalar_roundtrip : forall S k x, wf_scalar S k x = true ->
  from_scalar S k (scalar_j x) = Some (VScalar x).
Proof.
  intros S k x H. destruct k, x; cbn in H; try discriminate; cbn; try reflexivity.
  - rewrite H. reflexivity.
  - rewrite (loc_str_roundtrip_proof l H). reflexivity.
Qed.

Lemma wf_to_j_kept : forall S k v, wf_val S k v = true ->
  excluded (to_j S v) = false /\ to_j S v <> JNull.
Proof.
  intros S k v H. destruct v; cbn in H; try discriminate.
  - destruct x; cbn; split; (reflexivity || discriminate).
  - cbn. split; [reflexivity|discriminate].
Qed.

Lemma match_some_not_null : forall (A : Type) (j : jval) (a : A) (F : jval -> A),
  j <> JNull ->
  match Some j with None => a | Some JNull => a | Some x => F x end = F j.
Proof. intros. destruct j; try reflexivity. congruence. Qed.

(* ======================================================================== *)
(* from_dict . to_dict = id                                                  *)
(* ======================================================================== *)

Section RoundTrip.
  Variable S : schema.
  Hypothesis HS : schema_okb S = true.

  Definition rt_single (v : value) : Prop :=
    forall k n, wf_val S k v = true -> depth v <= n -> from_val n S k (to_j S v) = Some v.

  (* for a list value the statement is about its elements *)
  Definition rt_all (v : value) : Prop :=
    rt_single v /\ match v with VList l => Forall rt_single l | _ => True end.

  Lemma from_to_all : forall v, rt_all v.
  Proof.
    induction v as [| x | c vs IHvs | l IHl] using value_ind2.
    - split; [|exact I]. intros k n Hwf. discriminate.
    - split; [|exact I]. intros k n Hwf Hd. cbn in Hwf.
      assert (E : from_val n S k (scalar_j x) = from_scalar S k (scalar_j x)).
      { destruct k; try (destruct n; reflexivity). destruct x; discriminate. }
      cbn [to_j]. rewrite E. apply from_scalar_roundtrip. exact Hwf.
    - split; [|exact I]. intros k n Hwf Hd. cbn in Hwf.
      destruct k as [| | | |  | c']; try discriminate.
      apply andb_true_iff in Hwf. destruct Hwf as [Hwf Hone].
      apply andb_true_iff in Hwf. destruct Hwf as [Hc Hfs].
      apply N.eqb_eq in Hc. subst c'.
      destruct n as [|n]; [cbn in Hd; lia|]. cbn in Hd.
      destruct (wf_fields_spec _ _ _ Hfs) as [Hlen Hslots].
      cbn [to_j from_val].
      set (D := emit (fields S c) (map (to_j S) vs)).
      rewrite (mapM_combine _ _ _ (fields S c) vs Hlen).
      + cbn. rewrite (apply_oneof_id _ _ Hone). reflexivity.
      + intros f v Hin.
        pose proof (lookup_emit (fields S c) (map (to_j S) vs) (fields_nodup S c HS) f (to_j S v)
                      (in_combine_map _ _ _ (to_j S) _ _ _ _ Hin)) as Hlk.
        fold D in Hlk.
        assert (Hv : In v vs) by (eapply in_combine_r; exact Hin).
        assert (Hdv : depth v <= n).
        { assert (depth v <= list_max (map depth vs)) by (apply list_max_ge; apply in_map; exact Hv). lia. }
        rewrite Forall_forall in IHvs. destruct (IHvs v Hv) as [IHv IHel].
        specialize (Hslots f v Hin). unfold wf_slot in Hslots.
        rewrite Hlk. unfold default_of, from_slot.
        destruct (fcont f) eqn:Ec.
        * (* CNone *)
          destruct (wf_to_j_kept S _ v Hslots) as [Hex Hnn]. rewrite Hex.
          rewrite match_some_not_null by exact Hnn. apply IHv; assumption.
        * (* COpt *)
          destruct v as [| x | c0 vs0 | l0].
          -- reflexivity.
          -- destruct (wf_to_j_kept S _ _ Hslots) as [Hex Hnn]. rewrite Hex.
             rewrite match_some_not_null by exact Hnn. apply IHv; assumption.
          -- destruct (wf_to_j_kept S _ _ Hslots) as [Hex Hnn]. rewrite Hex.
             rewrite match_some_not_null by exact Hnn. apply IHv; assumption.
          -- cbn in Hslots. discriminate.
        * (* CList *)
          destruct v as [| x | c0 vs0 | l0]; try discriminate.
          destruct l0 as [|y l0]; [reflexivity|].
          cbn [to_j map excluded].
          change (to_j S y :: map (to_j S) l0) with (map (to_j S) (y :: l0)).
          rewrite mapM_map_id; [reflexivity|].
          intros x Hx. rewrite forallb_forall in Hslots. rewrite Forall_forall in IHel.
          apply (IHel x Hx); [apply Hslots; exact Hx|].
          assert (depth x <= depth (VList (y :: l0))) by (cbn [depth]; apply list_max_ge; apply in_map; exact Hx).
          lia.
    - split.
      + intros k n Hwf. discriminate.
      + rewrite Forall_forall in IHl. apply Forall_forall. intros x Hx. exact (proj1 (IHl x Hx)).
  Qed.

  Lemma from_to_val : forall v k n, wf_val S k v = true -> depth v <= n ->
    from_val n S k (to_j S v) = Some v.
  Proof. intros v. exact (proj1 (from_to_all v)). Qed.

  (* the dictionary is exactly as deep as the object *)
  Lemma jdepth_emit : forall fs js, length fs = length js ->
    list_max (map (fun p => jdepth (snd p)) (emit fs js)) = list_max (map jdepth js).
  Proof.
    induction fs as [|f fs IH]; intros [|j js] Hl; try discriminate; [reflexivity|].
    cbn [emit]. cbn in Hl. specialize (IH js ltac:(lia)).
    change (list_max (map jdepth (j :: js))) with (Nat.max (jdepth j) (list_max (map jdepth js))).
    destruct (excluded j) eqn:Ex.
    - change ([] ++ emit fs js) with (emit fs js). rewrite IH.
      assert (jdepth j = 0) by (destruct j; try discriminate; try reflexivity; destruct l; [reflexivity|discriminate]).
      rewrite H. reflexivity.
    - change (([(fname f, j)] ++ emit fs js)) with ((fname f, j) :: emit fs js).
      change (list_max (map (fun p : string * jval => jdepth (snd p)) ((fname f, j) :: emit fs js)))
        with (Nat.max (jdepth j) (list_max (map (fun p : string * jval => jdepth (snd p)) (emit fs js)))).
      rewrite IH. reflexivity.
  Qed.

  Definition jd_single (v : value) : Prop := forall k, wf_val S k v = true -> jdepth (to_j S v) = depth v.
  Definition jd_all (v : value) : Prop :=
    jd_single v /\ match v with VList l => Forall jd_single l | _ => True end.

  Lemma list_max_map_ext : forall (A : Type) (f g : A -> nat) l,
    (forall x, In x l -> f x = g x) -> list_max (map f l) = list_max (map g l).
  Proof.
    induction l as [|x l IH]; intros H; [reflexivity|].
    change (list_max (map f (x :: l))) with (Nat.max (f x) (list_max (map f l))).
    change (list_max (map g (x :: l))) with (Nat.max (g x) (list_max (map g l))).
    rewrite (H x (or_introl eq_refl)), IH; [reflexivity|]. intros. apply H. right. assumption.
  Qed.

  Lemma jdepth_all : forall v, jd_all v.
  Proof.
    induction v as [| x | c vs IHvs | l IHl] using value_ind2.
    - split; [|exact I]. intros k H. discriminate.
    - split; [|exact I]. intros k H. destruct x; reflexivity.
    - split; [|exact I]. intros k Hwf. cbn in Hwf.
      destruct k as [| | | |  | c']; try discriminate.
      apply andb_true_iff in Hwf. destruct Hwf as [Hwf _].
      apply andb_true_iff in Hwf. destruct Hwf as [Hc Hfs].
      apply N.eqb_eq in Hc. subst c'.
      destruct (wf_fields_spec _ _ _ Hfs) as [Hlen Hslots].
      cbn [to_j jdepth depth]. f_equal.
      rewrite jdepth_emit by (rewrite map_length; exact Hlen).
      rewrite map_map. apply list_max_map_ext.
      intros v Hv. rewrite Forall_forall in IHvs. destruct (IHvs v Hv) as [IHv IHel].
      (* find the spec of this slot *)
      assert (Hex : exists f, In (f, v) (combine (fields S c) vs)).
      { clear -Hlen Hv. revert Hlen Hv. generalize (fields S c). induction vs as [|a vs IH]; intros [|f fs] Hl Hv;
          try discriminate; [destruct Hv|]. destruct Hv as [->|Hv].
        - exists f. left. reflexivity.
        - cbn in Hl. destruct (IH fs ltac:(lia) Hv) as [f' Hf']. exists f'. right. exact Hf'. }
      destruct Hex as [f Hin]. specialize (Hslots f v Hin). unfold wf_slot in Hslots.
      destruct (fcont f).
      + eapply IHv. exact Hslots.
      + destruct v; try reflexivity; try (eapply IHv; exact Hslots).
      + destruct v as [| | |l0]; try discriminate. cbn [to_j jdepth depth]. rewrite map_map.
        apply list_max_map_ext. intros x Hx. rewrite forallb_forall in Hslots. rewrite Forall_forall in IHel.
        eapply IHel; [exact Hx|apply Hslots; exact Hx].
    - split.
      + intros k H. discriminate.
      + rewrite Forall_forall in IHl. apply Forall_forall. intros x Hx. exact (proj1 (IHl x Hx)).
  Qed.

  Theorem from_to_id_proof : forall c v, wf_val S (KMsg c) v = true ->
    from_dict S c (to_dict S v) = Some v.
  Proof.
    intros c v H. unfold from_dict, to_dict. apply from_to_val; [exact H|].
    rewrite (proj1 (jdepth_all v) _ H). lia.
  Qed.

  Theorem to_idempotent_proof : forall c v, wf_val S (KMsg c) v = true ->
    option_map (to_dict S) (from_dict S c (to_dict S v)) = Some (to_dict S v).
  Proof. intros c v H. rewrite (from_to_id_proof c v H). reflexivity. Qed.

  (* two different IR objects never serialise to the same dictionary: every
     set/unset distinction, flag and string is visible in the output *)
  Theorem to_dict_injective_proof : forall c v w,
    wf_val S (KMsg c) v = true -> wf_val S (KMsg c) w = true -> to_dict S v = to_dict S w -> v = w.
  Proof.
    intros c v w Hv Hw E. pose proof (from_to_id_proof c v Hv) as A. pose proof (from_to_id_proof c w Hw) as B.
    rewrite E in A. congruence.
  Qed.

  (* anything computed from the IR (e.g. the generated header) is the same for the re-read IR *)
  Theorem reread_invariant_proof : forall (A : Type) (gen : value -> A) c v, wf_val S (KMsg c) v = true ->
    option_map gen (from_dict S c (to_dict S v)) = Some (gen v).
  Proof. intros A gen c v H. rewrite (from_to_id_proof c v H). reflexivity. Qed.
End RoundTrip.
