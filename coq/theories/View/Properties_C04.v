(* C04 — property theorems (model level): the storage handed out by GetOffsetStorage never leaves
   its parent, an Ok() scalar view only touches bytes of the root allocation, bit fields only use
   bits of their container.  What the compiled C++ does in memory is observed by the sanitizers. *)
From Coq Require Import ZArith List Bool.
Import ListNotations.
Require Import EmbossV.Bounds.Model EmbossV.View.Model EmbossV.View.Proofs EmbossV.View.Safe.
Open Scope Z_scope.

Theorem safe_offset_storage : forall n b off size,
  bstore_in n b -> 0 <= off -> 0 <= size -> bstore_in n (bstore_offset b off size).
Proof. exact bstore_offset_in. Qed.
Print Assumptions safe_offset_storage.

Theorem safe_scalar_access : forall n b bo nbits,
  bstore_in n b -> 0 < nbits -> bitblock_ok b bo nbits = true ->
  match touched b nbits with
  | Some (lo, hi) => 0 <= lo /\ hi <= n /\ lo < hi
  | None => False
  end.
Proof. exact bitblock_ok_in_bounds. Qed.
Print Assumptions safe_scalar_access.

Theorem safe_bit_access : forall s off size,
  bits_in s -> 0 <= off -> 0 <= size -> storage_ok (get_offset s off size) = true ->
  match get_offset s off size with
  | SBit _ _ nbits _ bitoff bitsize _ => 0 <= bitoff /\ bitoff + bitsize <= nbits
  | SB _ => True
  end.
Proof. exact offset_block_reads_container. Qed.
Print Assumptions safe_bit_access.
