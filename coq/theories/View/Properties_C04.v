(* C04 — property theorems (model level): the storage handed out by GetOffsetStorage never leaves
   its parent, an Ok() scalar view only touches bytes of the root allocation, bit fields only use
   bits of their container.  What the compiled C++ does in memory is observed by the sanitizers. *)
From Coq Require Import ZArith List Bool.
Import ListNotations.
Require Import EmbossV.Bounds.Model EmbossV.View.Model EmbossV.View.Proofs EmbossV.View.Safe.
Open Scope Z_scope.

Theorem safe_offset_storage : forall n b off size,
  bstore_in n b -> 0 <= off -> 0 <= size -> bstore_in n (bstore_offset b off size).
Proof. exact bstore_offset_in. Qed.
Print Assumptions safe_offset_storage.

Theorem safe_scalar_access : forall n b bo nbits,
  bstore_in n b -> 0 < nbits -> bitblock_ok b bo nbits = true ->
  match touched b nbits with
  | Some (lo, hi) => 0 <= lo /\ hi <= n /\ lo < hi
  | None => False
  end.
Proof. exact bitblock_ok_in_bounds. Qed.
Print Assumptions safe_scalar_access.

Theorem safe_bit_access : forall s off size,
  bits_in s -> 0 <= off -> 0 <= size -> storage_ok (get_offset s off size) = true ->
  match get_offset s off size with
  | SBit _ _ nbits _ bitoff bitsize _ => 0 <= bitoff /\ bitoff + bitsize <= nbits
  | SB _ => True
  end.
Proof. exact offset_block_reads_container. Qed.
Print Assumptions safe_bit_access.

(* ---------- no integer overflow in the generated arithmetic (links C05's gate to C04) ---------- *)
Require Import EmbossV.Bounds.SafeArith EmbossV.Bounds.SafeArithProofs.

(* For every expression the 64-bit gate accepts and every environment whose integer leaves lie in
   their physical ranges, evaluating the expression the way the generated C++ does — constants as
   literals, every other operation in the IntermediateT picked by _cpp_integer_type_for_range, with
   an out-of-type operand or result counted as undefined behaviour — never hits that case and
   yields the value of the unbounded semantics. *)
Theorem safe_arith : forall G r e v,
  env_in G r -> gate G e = true -> eval G r e = Some v -> ceval G r e = Some v.
Proof. exact SafeArithProofs.safe_arith. Qed.
Print Assumptions safe_arith.

(* without the gate the statement is false: Int:64 - UInt:64 fits no C++ type *)
Theorem safe_arith_refuted_without_gate :
  exists G r e v, env_in G r /\ gate G e = false /\ eval G r e = Some v /\ ceval G r e = None.
Proof. exact SafeArithProofs.safe_arith_refuted_without_gate. Qed.
