(* C01 / C04 — lemmas about the view model: monotonicity of the Maybe<> expression
   semantics, in-bounds invariant of GetOffsetStorage, the synthesized $size
   expression, and the switch-optimised Ok() body. *)
From Coq Require Import ZArith List Bool Lia ZifyBool Permutation.
Import ListNotations.
Require Import EmbossV.Bounds.Model EmbossV.View.Model.
Open Scope Z_scope.

(* nth_byte tests the bound on Z first (so that evaluation never builds a huge unary number); it is nth with default 0 *)
Lemma nth_byte_nth bytes i : nth_byte bytes i = nth (Z.to_nat i) bytes 0.
Proof.
  unfold nth_byte. destruct (Z.of_nat (length bytes) <=? i) eqn:E; [|reflexivity].
  symmetry. apply nth_overflow. apply Z.leb_le in E. lia.
Qed.

(* ---------- information order ---------- *)
Definition mle {A} (a b : maybe A) : Prop := forall x, a = Some x -> b = Some x.

Lemma mle_refl {A} (a : maybe A) : mle a a.
Proof. intros x H; exact H. Qed.
Lemma mle_none {A} (b : maybe A) : mle None b.
Proof. intros x H; discriminate. Qed.
Lemma mle_some {A} (x : A) b : mle (Some x) b -> b = Some x.
Proof. intros H; apply H; reflexivity. Qed.

(* what an expression can see of a field *)
Definition fres_le (r r' : fres) : Prop :=
  mle (fr_has r) (fr_has r') /\ (fr_ok r = true -> fr_ok r' = true /\ fr_val r' = fr_val r).

Definition env_le (e e' : env) : Prop :=
  forall p r, lookup e p = Some r -> exists r', lookup e' p = Some r' /\ fres_le r r'.

Lemma env_le_refl e : env_le e e.
Proof. intros p r H. exists r. split; [exact H|]. split; [apply mle_refl|auto]. Qed.

(* ---------- induction principle for vx ---------- *)
Section VxInd.
  Variable P : vx -> Prop.
  Hypothesis HK : forall v, P (XK v).
  Hypothesis HField : forall p, P (XField p).
  Hypothesis HHas : forall p, P (XHas p).
  Hypothesis HSelf : P XSelf.
  Hypothesis HAdd : forall a b, P a -> P b -> P (XAdd a b).
  Hypothesis HSub : forall a b, P a -> P b -> P (XSub a b).
  Hypothesis HMul : forall a b, P a -> P b -> P (XMul a b).
  Hypothesis HCmp : forall op a b, P a -> P b -> P (XCmp op a b).
  Hypothesis HEq : forall ne a b, P a -> P b -> P (XEq ne a b).
  Hypothesis HAnd : forall a b, P a -> P b -> P (XAnd a b).
  Hypothesis HOr : forall a b, P a -> P b -> P (XOr a b).
  Hypothesis HChoice : forall c t f, P c -> P t -> P f -> P (XChoice c t f).
  Hypothesis HMax : forall args, Forall P args -> P (XMax args).

  Fixpoint vx_ind2 (x : vx) : P x :=
    match x with
    | XK v => HK v | XField p => HField p | XHas p => HHas p | XSelf => HSelf
    | XAdd a b => HAdd a b (vx_ind2 a) (vx_ind2 b)
    | XSub a b => HSub a b (vx_ind2 a) (vx_ind2 b)
    | XMul a b => HMul a b (vx_ind2 a) (vx_ind2 b)
    | XCmp op a b => HCmp op a b (vx_ind2 a) (vx_ind2 b)
    | XEq ne a b => HEq ne a b (vx_ind2 a) (vx_ind2 b)
    | XAnd a b => HAnd a b (vx_ind2 a) (vx_ind2 b)
    | XOr a b => HOr a b (vx_ind2 a) (vx_ind2 b)
    | XChoice c t f => HChoice c t f (vx_ind2 c) (vx_ind2 t) (vx_ind2 f)
    | XMax args =>
        HMax args ((fix go (l : list vx) : Forall P l :=
                      match l with
                      | [] => Forall_nil P
                      | y :: t => Forall_cons y (vx_ind2 y) (go t)
                      end) args)
    end.
End VxInd.

(* ---------- monotonicity of the Maybe<> operations ---------- *)
Lemma m_int2_mono f a a' b b' : mle a a' -> mle b b' -> mle (m_int2 f a b) (m_int2 f a' b').
Proof.
  intros Ha Hb x H. unfold m_int2 in *.
  destruct a as [[p| |]|]; try discriminate. destruct b as [[q| |]|]; try discriminate.
  rewrite (mle_some _ _ Ha), (mle_some _ _ Hb). exact H.
Qed.

Lemma m_and_mono a a' b b' : mle a a' -> mle b b' -> mle (m_and a b) (m_and a' b').
Proof.
  intros Ha Hb x H.
  destruct a as [[|[|]|]|]; destruct b as [[|[|]|]|]; cbn in H; try discriminate;
    try (apply mle_some in Ha; subst a'); try (apply mle_some in Hb; subst b');
    try (destruct a' as [[|[|]|]|]); try (destruct b' as [[|[|]|]|]); cbn; congruence.
Qed.

Lemma m_or_mono a a' b b' : mle a a' -> mle b b' -> mle (m_or a b) (m_or a' b').
Proof.
  intros Ha Hb x H.
  destruct a as [[|[|]|]|]; destruct b as [[|[|]|]|]; cbn in H; try discriminate;
    try (apply mle_some in Ha; subst a'); try (apply mle_some in Hb; subst b');
    try (destruct a' as [[|[|]|]|]); try (destruct b' as [[|[|]|]|]); cbn; congruence.
Qed.

Lemma m_all_ints_mono l l' zs :
  Forall2 mle l l' -> m_all_ints l = Some zs -> m_all_ints l' = Some zs.
Proof.
  intros HF. revert zs. induction HF as [|a a' l l' Ha HF IH]; intros zs H; [exact H|].
  cbn in H. destruct a as [[z| |]|]; try discriminate.
  destruct (m_all_ints l) as [zs0|] eqn:E; [|discriminate]. inversion H; subst; clear H.
  cbn. rewrite (mle_some _ _ Ha). rewrite (IH _ eq_refl). reflexivity.
Qed.

Theorem meval_mono e e' s s' x :
  env_le e e' -> mle s s' -> mle (meval e s x) (meval e' s' x).
Proof.
  intros He Hs. induction x using vx_ind2; cbn [meval].
  - apply mle_refl.
  - intros v H. destruct (lookup e p) as [r|] eqn:E; [|discriminate].
    destruct (He _ _ E) as (r' & E' & _ & Hok). rewrite E'.
    destruct (fr_ok r) eqn:Eo; [|discriminate]. destruct (Hok eq_refl) as [-> ->]. exact H.
  - intros v H. destruct (lookup e p) as [r|] eqn:E; [|discriminate].
    destruct (He _ _ E) as (r' & E' & Hh & _). rewrite E'.
    destruct (fr_has r) as [b|] eqn:Eh; [|discriminate]. rewrite (Hh _ eq_refl). exact H.
  - exact Hs.
  - apply m_int2_mono; assumption.
  - apply m_int2_mono; assumption.
  - apply m_int2_mono; assumption.
  - intros v H. destruct (meval e s x1) as [[p| |]|] eqn:E1; try discriminate.
    destruct (meval e s x2) as [[q| |]|] eqn:E2; try discriminate.
    rewrite (mle_some _ _ IHx1), (mle_some _ _ IHx2). exact H.
  - intros v H. destruct (meval e s x1) as [p|] eqn:E1; try discriminate.
    destruct (meval e s x2) as [q|] eqn:E2; try discriminate.
    rewrite (mle_some _ _ IHx1), (mle_some _ _ IHx2). exact H.
  - apply m_and_mono; assumption.
  - apply m_or_mono; assumption.
  - intros v H. destruct (meval e s x1) as [[|[|]|]|] eqn:E1; try discriminate;
      rewrite (mle_some _ _ IHx1); [apply IHx2|apply IHx3]; exact H.
  - intros v Hv.
    destruct (m_all_ints (map (meval e s) args)) as [zs|] eqn:E; [|discriminate].
    assert (HF : Forall2 mle (map (meval e s) args) (map (meval e' s') args)).
    { clear E Hv. induction H as [|y t Hy Ht IH]; cbn; constructor; auto. }
    rewrite (m_all_ints_mono _ _ _ HF E). exact Hv.
Qed.

(* ---------- GetOffsetStorage never leaves the parent (C04 core invariant) ---------- *)
(* A byte storage is in bounds of a root of n bytes when it is null, empty, or inside. *)
Definition bstore_in (n : Z) (b : bstore) : Prop :=
  match b with
  | None => True
  | Some (o, l) => 0 <= l /\ (l = 0 \/ (0 <= o /\ o + l <= n))
  end.

Lemma bstore_offset_in n b off size :
  bstore_in n b -> 0 <= off -> 0 <= size -> bstore_in n (bstore_offset b off size).
Proof.
  destruct b as [[o l]|]; cbn; [|trivial]. intros (Hl & H) Ho Hs.
  destruct (l <? off) eqn:E; [lia|]. split; [lia|].
  destruct H as [->|H]; [left; lia|].
  destruct (Z.eq_dec (Z.min size (l - off)) 0) as [Z0|NZ]; [left; exact Z0|right; lia].
Qed.

(* the sub-storage is contained in the parent's extent *)
Lemma bstore_offset_within o l off size o' l' :
  0 <= off -> 0 <= size -> bstore_offset (Some (o, l)) off size = Some (o', l') ->
  l' = 0 \/ (o <= o' /\ o' + l' <= o + l).
Proof.
  cbn. intros Ho Hs [= <- <-]. destruct (l <? off) eqn:E; [left; reflexivity|right; lia].
Qed.

(* a bit-level storage that is Ok lies inside its container *)
Definition bits_in (s : storage) : Prop :=
  match s with
  | SB _ => True
  | SBit _ _ nbits direct bitoff bitsize ok =>
      ok = true -> 0 <= bitoff /\ 0 <= bitsize /\ bitoff + bitsize <= nbits
  end.

Lemma get_offset_bits_in s off size :
  bits_in s -> 0 <= off -> 0 <= size -> bits_in (get_offset s off size).
Proof.
  destruct s as [b|b bo nbits direct bitoff bitsize ok]; cbn; [trivial|].
  intros H Ho Hs Hok.
  destruct direct.
  - apply andb_prop in Hok. destruct Hok as [Hok H3]. apply andb_prop in Hok. destruct Hok as [H1 H2].
    apply andb_prop in H3. destruct H3 as [H3 H4].
    rewrite !Z.mod_small by lia. lia.
  - apply andb_prop in Hok. destruct Hok as [Hok H3]. apply andb_prop in Hok. destruct Hok as [H1 H2].
    apply andb_prop in H3. destruct H3 as [H3 H4]. specialize (H H3).
    rewrite !Z.mod_small by lia. lia.
Qed.

(* ---------- the synthesized $size expression (synthetics._add_size_virtuals) ---------- *)
Definition size_clause (f : vx * vx * vx) : vx :=
  match f with (c, st, sz) => XChoice c (XAdd st sz) (XK (VInt 0)) end.
Definition size_expr (fs : list (vx * vx * vx)) : vx :=
  XMax (XK (VInt 0) :: map size_clause fs).

(* reference: the largest end of any present field, 0 if none *)
Fixpoint max_end (fs : list (bool * Z * Z)) (acc : Z) : Z :=
  match fs with
  | [] => acc
  | (present, st, sz) :: t => max_end t (if present then Z.max acc (st + sz) else Z.max acc 0)
  end.

Lemma max_end_fold (fs : list (bool * Z * Z)) : forall acc,
  max_end fs acc = fold_left Z.max (map (fun f : bool * Z * Z => match f with (p, st, sz) => if p then st + sz else 0 end) fs) acc.
Proof.
  induction fs as [|[[p st] sz] t IH]; intros acc; cbn; [reflexivity|].
  rewrite IH. destruct p; reflexivity.
Qed.

Theorem size_is_max_end e fs vals :
  Forall2 (fun f v => match f, v with
                      | (c, st, sz), (p, a, b) =>
                          meval e None c = Some (VBool p) /\
                          (p = true -> meval e None st = Some (VInt a) /\ meval e None sz = Some (VInt b))
                      end) fs vals ->
  meval e None (size_expr fs) = Some (VInt (max_end vals 0)).
Proof.
  intros HF. unfold size_expr. cbn [meval map].
  assert (H : m_all_ints (map (meval e None) (map size_clause fs)) =
              Some (map (fun f : bool * Z * Z => match f with (p, st, sz) => if p then st + sz else 0 end) vals)).
  { induction HF as [|[[c st] sz] [[p a] b] fs vals (Hc & Hl) HF IH]; [reflexivity|].
    cbn [map size_clause meval]. rewrite Hc.
    destruct p.
    - destruct (Hl eq_refl) as [-> ->]. cbn [m_int2 m_all_ints]. fold size_clause. rewrite IH. reflexivity.
    - cbn [m_all_ints]. fold size_clause. rewrite IH. reflexivity. }
  cbn [m_all_ints]. rewrite H. rewrite max_end_fold. reflexivity.
Qed.

(* ---------- the switch-optimised Ok() body ---------- *)
(* An abstract field for Ok(): its existence condition and whether its view is Ok(). *)
Section OkBody.
  Variable e : env.

  Definition has_of (c : vx) : maybe bool := m_bool (meval e None c).

  (* ok_method_test *)
  Definition ok_test (f : vx * bool) : bool :=
    match has_of (fst f) with
    | None => false
    | Some true => snd f
    | Some false => true
    end.

  Definition ok_naive (fs : list (vx * bool)) : bool := forallb ok_test fs.

  (* ok_method_switch_block: discriminant must be Known; the case whose label equals the value is checked.
     cases: (label, field ok) with pairwise distinct labels. *)
  Definition ok_switch (discr : vx) (cases : list (value * bool)) : bool :=
    match meval e None discr with
    | None => false
    | Some d => forallb (fun c => if value_eqb d (fst c) then snd c else true) cases
    end.

  (* a field whose condition is "discr == label" for integer or enum discriminants *)
  Definition cond_of (discr : vx) (label : value) : vx :=
    match label with
    | VInt _ => XCmp CEq discr (XK label)
    | _ => XEq false discr (XK label)
    end.

  Lemma value_eqb_int_refl d z : value_eqb d (VInt z) = match d with VInt x => x =? z | _ => false end.
  Proof. destruct d; reflexivity. Qed.

  Lemma ok_test_switch_case discr label okf d :
    meval e None discr = Some d ->
    (match label, d with VInt _, VInt _ | VEnum _, VEnum _ | VBool _, VBool _ => True | _, _ => False end) ->
    ok_test (cond_of discr label, okf) = (if value_eqb d label then okf else true).
  Proof.
    intros Hd Hty. unfold ok_test, has_of, cond_of. cbn [fst snd].
    destruct label as [z|b|z]; destruct d as [x|y|x]; try contradiction; cbn [meval]; rewrite Hd; cbn.
    - destruct (x =? z); reflexivity.
    - destruct (Bool.eqb y b); reflexivity.
    - destruct (x =? z); reflexivity.
  Qed.

  (* The switch block decides exactly what the per-field tests of its cases decide. *)
  Theorem ok_switch_equiv discr cases :
    cases <> [] ->
    (forall d, meval e None discr = Some d ->
       Forall (fun c => match fst c, d with VInt _, VInt _ | VEnum _, VEnum _ | VBool _, VBool _ => True | _, _ => False end) cases) ->
    ok_switch discr cases = ok_naive (map (fun c => (cond_of discr (fst c), snd c)) cases).
  Proof.
    intros Hne Hty. unfold ok_switch, ok_naive.
    destruct (meval e None discr) as [d|] eqn:Hd.
    - specialize (Hty d eq_refl). induction cases as [|[l okf] t IH]; [reflexivity|].
      cbn [map forallb fst snd]. inversion Hty; subst.
      rewrite (ok_test_switch_case discr l okf d Hd H1).
      destruct t as [|c2 t2].
      + reflexivity.
      + f_equal. apply IH; [discriminate|assumption].
    - destruct cases as [|[l okf] t]; [contradiction|].
      cbn [map forallb fst snd]. unfold ok_test, has_of, cond_of. cbn [fst].
      destruct l; cbn [meval]; rewrite Hd; reflexivity.
  Qed.

  (* Regrouping: the conjunction over the fields does not depend on how they are partitioned
     into blocks, so the optimised body (any partition into switch blocks and single tests,
     in any order) equals the naive body over all fields. *)
  Theorem ok_naive_app a b : ok_naive (a ++ b) = ok_naive a && ok_naive b.
  Proof. unfold ok_naive. apply forallb_app. Qed.

  Theorem ok_naive_perm a b : Permutation a b -> ok_naive a = ok_naive b.
  Proof.
    induction 1 as [|x l l' H IH|x y l|l l' l'' H1 IH1 H2 IH2]; cbn.
    - reflexivity.
    - unfold ok_naive in *. cbn. rewrite IH. reflexivity.
    - unfold ok_naive. cbn. destruct (ok_test x), (ok_test y); reflexivity.
    - congruence.
  Qed.
End OkBody.
