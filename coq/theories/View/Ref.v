(* C01 — REFERENCE SEMANTICS of a structure over a message, written from
   doc/language-reference.md and independent of the generated code.  Definitions only.

   A structure is a list of fields.  Over a message (a list of bytes) and parameter values the
   reference assigns to every field two facts:
     r_present   does the field exist?   (its `if` condition; a field without `if` always exists)
     r_value     what does it read?      (Some v = the field exists, every byte it occupies is in
                                          the message, and v satisfies its [requires])
   A fact is None when the reference does not define it: an expression that needs the value of a
   field that is absent, or a byte that is not in the message, has no value.
     physical scalar   exists iff its condition holds; sits at [start, start+size) where start may
                       be any expression over other fields; its value is the decode of exactly
                       those bytes in the field's byte order (the decode itself is C02's subject:
                       the model's le_value/be_value + decode_scalar applied to the window that
                       THIS file computes)
     virtual (`let`)   is its expression
     alias             is the field it names
     parameter         is the value passed in
     $size_in_bytes    the largest end of any physical field that exists, 0 if none
   The facts refer to each other through expressions (a condition mentions other fields), so the
   reference is the solution of the equations  rho = one_round rho  ([is_ref_model]); [ref_solve]
   computes it by iterating from "nothing defined" (for the harness and for existence).
   There is no storage, no clamping, no evaluation order and no default-constructed view here. *)
From Coq Require Import ZArith List Bool.
Import ListNotations.
Require Import EmbossV.Bounds.Model EmbossV.View.Model.
Open Scope Z_scope.

Record rfield := mk_rfield { r_present : option bool; r_value : option value }.
Definition r_undef := mk_rfield None None.

Definition rassign := list rfield.                     (* by field index *)
Definition rget (rho : rassign) (i : nat) : rfield := nth i rho r_undef.

(* ---------- expressions: two-valued evaluation; None = the expression has no value ---------- *)
Definition arith (f : Z -> Z -> Z) (a b : option value) : option value :=
  match a, b with Some (VInt x), Some (VInt y) => Some (VInt (f x y)) | _, _ => None end.

(* `a && b` is false as soon as one side is false, true when both are true *)
Definition conj (a b : option value) : option value :=
  match a, b with
  | Some (VBool false), _ | _, Some (VBool false) => Some (VBool false)
  | Some (VBool true), Some (VBool true) => Some (VBool true)
  | _, _ => None
  end.
Definition disj (a b : option value) : option value :=
  match a, b with
  | Some (VBool true), _ | _, Some (VBool true) => Some (VBool true)
  | Some (VBool false), Some (VBool false) => Some (VBool false)
  | _, _ => None
  end.

Fixpoint ints_of (l : list (option value)) : option (list Z) :=
  match l with
  | [] => Some []
  | Some (VInt z) :: t => match ints_of t with Some zs => Some (z :: zs) | None => None end
  | _ :: _ => None
  end.

Definition as_bool (v : option value) : option bool := match v with Some (VBool b) => Some b | _ => None end.
Definition as_int (v : option value) : option Z := match v with Some (VInt z) => Some z | _ => None end.
Definition is_some {A} (a : option A) : bool := match a with Some _ => true | None => false end.

Fixpoint reval (rho : rassign) (self : option value) (x : vx) {struct x} : option value :=
  match x with
  | XK v => Some v
  | XField p => match p with [i] => r_value (rget rho i) | _ => None end
  | XHas p => match p with [i] => option_map VBool (r_present (rget rho i)) | _ => None end
  | XSelf => self
  | XAdd a b => arith Z.add (reval rho self a) (reval rho self b)
  | XSub a b => arith Z.sub (reval rho self a) (reval rho self b)
  | XMul a b => arith Z.mul (reval rho self a) (reval rho self b)
  | XCmp op a b =>
      match reval rho self a, reval rho self b with
      | Some (VInt p), Some (VInt q) => Some (VBool (cmp_eval op p q))
      | _, _ => None
      end
  | XEq ne a b =>
      match reval rho self a, reval rho self b with
      | Some p, Some q => Some (VBool (if ne then negb (value_eqb p q) else value_eqb p q))
      | _, _ => None
      end
  | XAnd a b => conj (reval rho self a) (reval rho self b)
  | XOr a b => disj (reval rho self a) (reval rho self b)
  | XChoice c t f =>                            (* only the chosen branch needs a value *)
      match reval rho self c with
      | Some (VBool true) => reval rho self t
      | Some (VBool false) => reval rho self f
      | _ => None
      end
  | XMax args =>
      match ints_of (map (reval rho self) args) with
      | Some (z :: zs) => Some (VInt (fold_left Z.max zs z))
      | _ => None
      end
  end.

(* ---------- a structure of fixed size ---------- *)
(* "FixedSize.$size_in_bytes will always be 6": when every physical field sits at a constant location
   and no conditional field reaches beyond the last unconditional one, the size is that constant whatever
   the message holds (RefProofs.static_size_consistent: it never contradicts the general definition) *)
Fixpoint static_ends (fs : list field) : option (list (bool * Z)) :=      (* (unconditional?, end) *)
  match fs with
  | [] => Some []
  | f :: t =>
      match fbody_of f with
      | Phys (XK (VInt a)) (XK (VInt b)) _ _ =>
          match static_ends t with
          | Some l =>
              Some (match fcond f with
                    | XK (VBool true) => (true, a + b)
                    | XK (VBool false) => (true, 0)
                    | _ => (false, a + b)
                    end :: l)
          | None => None
          end
      | Phys _ _ _ _ => None
      | _ => static_ends t
      end
  end.
Definition static_size (fs : list field) : option Z :=
  match static_ends fs with
  | Some l =>
      let z := fold_left Z.max (map snd (filter fst l)) 0 in
      if forallb (fun p => snd p <=? z) l then Some z else None
  | None => None
  end.

(* ---------- one structure over one message ---------- *)
Section RefStruct.
  Variable d : sdef.
  Variable params : list (option value).
  Variable bytes : list Z.
  Let len := Z.of_nat (length bytes).

  (* [requires]: `this` is the value just read *)
  Definition holds (rho : rassign) (rq : option vx) (v : value) : bool :=
    match rq with
    | None => true
    | Some x => match reval rho (Some v) x with Some (VBool true) => true | _ => false end
    end.
  Definition checked (rho : rassign) (rq : option vx) (v : option value) : option value :=
    match v with Some vv => if holds rho rq vv then v else None | None => None end.

  (* the unsigned number held by the bytes [off, off+sz) in byte order bo *)
  Definition window_uint (bo : border) (off sz : Z) : Z :=
    match bo with
    | BE => be_value bytes off (Z.to_nat sz) 0
    | _ => le_value bytes off (Z.to_nat sz)
    end.

  (* a scalar of kind k occupying [off, off+sz): defined iff the window lies in the message
     (and, for Bcd, every nibble is a decimal digit) *)
  Definition ref_scalar (k : skind) (kbits : Z) (bo : border) (off sz : Z) : option value :=
    if (0 <=? off) && (0 <=? sz) && (off + sz <=? len) then
      let raw := window_uint bo off sz in
      match k with
      | KBcd => if is_bcd 16 raw then Some (decode_scalar k kbits raw) else None
      | _ => Some (decode_scalar k kbits raw)
      end
    else None.

  Definition ref_loc (rho : rassign) (start size : vx) : option (Z * Z) :=
    match as_int (reval rho None start), as_int (reval rho None size) with
    | Some off, Some sz => Some (off, sz)
    | _, _ => None
    end.

  (* ends of the physical fields: start+size if the field exists, 0 if it does not *)
  Fixpoint ref_ends (rho : rassign) (fs : list field) : list (option Z) :=
    match fs with
    | [] => []
    | f :: t =>
        match fbody_of f with
        | Phys start size _ _ =>
            match as_bool (reval rho None (fcond f)) with
            | Some true => option_map (fun l => fst l + snd l) (ref_loc rho start size)
            | Some false => Some 0
            | None => None
            end :: ref_ends rho t
        | _ => ref_ends rho t
        end
    end.
  Fixpoint all_some (l : list (option Z)) : option (list Z) :=
    match l with
    | [] => Some []
    | Some z :: t => match all_some t with Some zs => Some (z :: zs) | None => None end
    | None :: _ => None
    end.
  (* $size_in_bytes: the largest end of any present field *)
  Definition dynamic_size (rho : rassign) : option Z :=
    option_map (fun ends => fold_left Z.max ends 0) (all_some (ref_ends rho (fields d))).
  Definition ref_size (rho : rassign) : option Z :=
    match static_size (fields d) with
    | Some z => Some z
    | None => dynamic_size rho
    end.

  (* what the reference says about field number i, given what it says about the others *)
  Definition denote (rho : rassign) (i : nat) (f : field) : rfield :=
    let present := as_bool (reval rho None (fcond f)) in
    if Nat.eqb i (size_field d) then mk_rfield present (option_map VInt (ref_size rho))
    else
      match fbody_of f with
      | Param k => mk_rfield (Some true) (nth k params None)
      | Virt rd rq =>
          mk_rfield present (match present with Some true => checked rho rq (reval rho None rd) | _ => None end)
      | Alias [j] _ =>
          mk_rfield present (match present with Some true => r_value (rget rho j) | _ => None end)
      | Phys start size (FScalar k kbits bo) rq =>
          mk_rfield present
            (match present, ref_loc rho start size with
             | Some true, Some (off, sz) => checked rho rq (ref_scalar k kbits bo off sz)
             | _, _ => None
             end)
      | _ => r_undef                                   (* outside the class treated so far *)
      end.

  Fixpoint round_from (rho : rassign) (i : nat) (fs : list field) : rassign :=
    match fs with
    | [] => []
    | f :: t => denote rho i f :: round_from rho (S i) t
    end.
  Definition one_round (rho : rassign) : rassign := round_from rho 0 (fields d).

  (* THE REFERENCE: an assignment that satisfies every field's equation *)
  Definition is_ref_model (rho : rassign) : Prop := one_round rho = rho.

  (* its computation: start with nothing defined, apply the equations once per field *)
  Fixpoint iterate (n : nat) (rho : rassign) : rassign :=
    match n with O => rho | S n' => one_round (iterate n' rho) end.
  Definition ref_solve : rassign :=
    iterate (length (fields d)) (map (fun _ => r_undef) (fields d)).

  (* ---------- the structure as a whole ---------- *)
  Definition ref_complete (rho : rassign) : bool :=
    match ref_size rho with Some z => z <=? len | None => false end.
  (* a field is fine when it is known to be absent, or present and readable *)
  Definition field_fine (r : rfield) : bool :=
    match r_present r with
    | Some true => is_some (r_value r)
    | Some false => true
    | None => false
    end.
  Definition ref_ok (rho : rassign) : bool :=
    ref_complete rho && forallb field_fine rho
    && match srequires d with
       | None => true
       | Some x => match reval rho None x with Some (VBool true) => true | _ => false end
       end.

  (* observations in the order the C++ driver prints them *)
  Definition ref_observe_field (r : rfield) : list Z :=
    [obs_mbool (r_present r); obs_bool (is_some (r_value r))]
    ++ match r_value r with Some v => [obs_value v] | None => [] end.
  Definition ref_observe (rho : rassign) : list Z :=
    [-1; obs_bool (ref_ok rho)]
    ++ match rho with
       | [] => []
       | _ => obs_bool (ref_complete rho)
              :: match ref_size rho with Some z => [1; z] | None => [0] end
              ++ flat_map ref_observe_field rho
       end.
End RefStruct.

(* ---------- the class of structures for which the agreement theorem is proved ---------- *)
Definition mem (k : nat) (l : list nat) : bool := existsb (Nat.eqb k) l.

(* every field mentioned by x is a direct member accepted by [ok] *)
Fixpoint refs_in (ok : nat -> bool) (x : vx) {struct x} : bool :=
  match x with
  | XK _ | XSelf => true
  | XField p | XHas p => match p with [i] => ok i | _ => false end
  | XAdd a b | XSub a b | XMul a b | XCmp _ a b | XEq _ a b | XAnd a b | XOr a b =>
      refs_in ok a && refs_in ok b
  | XChoice c t f => refs_in ok c && refs_in ok t && refs_in ok f
  | XMax args => forallb (refs_in ok) args
  end.
Definition orefs_in (ok : nat -> bool) (x : option vx) : bool :=
  match x with Some y => refs_in ok y | None => true end.

Definition field_refs_in (ok : nat -> bool) (f : field) : bool :=
  refs_in ok (fcond f) &&
  match fbody_of f with
  | Phys start size _ rq => refs_in ok start && refs_in ok size && orefs_in ok rq
  | Virt rd rq => refs_in ok rd && orefs_in ok rq
  | Alias [j] _ => ok j
  | Alias _ _ => false
  | Param _ => true
  end.

(* physical scalars of constant size 8*s = width; unconditional virtual fields (a conditional one is
   the known finding virtual-ok-ignores-existence, see RefProofs); aliases of scalars.  Signed enums are
   left out: their decode in the generated code is finding F1 (no sign extension), which
   [decode_scalar] reproduces, so it cannot serve as the reference decode for them (C02 states that). *)
Definition kind_ok (k : skind) : bool := match k with KEnum true => false | _ => true end.
Definition shape_ok (f : field) : bool :=
  match fbody_of f with
  | Phys _ (XK (VInt s)) (FScalar k kbits _) _ => kind_ok k && (0 <? s) && (8 * s =? kbits)
  | Virt _ _ => match fcond f with XK (VBool true) => true | _ => false end
  | Alias [_] (FScalar _ _ _) => true
  | Param _ => true
  | _ => false
  end.

(* [order] lists every field after the fields it mentions *)
Fixpoint deps_ok (fs : list field) (done ord : list nat) : bool :=
  match ord with
  | [] => true
  | i :: t =>
      match nth_error fs i with
      | Some f => field_refs_in (fun k => mem k done) f
      | None => false
      end && deps_ok fs (i :: done) t
  end.

(* the expression synthetics.py gives $size_in_bytes, $max(0, cond ? start + size : 0, ...) over the
   physical fields, in the form header_generator renders it: a sub-expression that the compiler knows
   to be constant (constant end of an unconditional field, a condition that is literally false, the
   whole maximum for a structure of fixed size) appears as that constant *)
Definition fold_end (st sz : vx) : vx :=
  match st, sz with XK (VInt a), XK (VInt b) => XK (VInt (a + b)) | _, _ => XAdd st sz end.
Definition fold_clause (c st sz : vx) : vx :=
  match c, fold_end st sz with
  | XK (VBool true), XK (VInt z) => XK (VInt z)
  | XK (VBool false), _ => XK (VInt 0)
  | _, e => XChoice c e (XK (VInt 0))
  end.
Fixpoint synth_clauses (fs : list field) : list vx :=
  match fs with
  | [] => []
  | f :: t =>
      match fbody_of f with
      | Phys start size _ _ => fold_clause (fcond f) start size :: synth_clauses t
      | _ => synth_clauses t
      end
  end.
Definition synth_size (fs : list field) : vx :=
  match static_size fs with
  | Some z => XK (VInt z)                          (* the bounds of the maximum collapse to one value *)
  | None => XMax (XK (VInt 0) :: synth_clauses fs)
  end.

Definition value_same (a b : value) : bool :=
  match a, b with
  | VInt x, VInt y | VEnum x, VEnum y => x =? y
  | VBool x, VBool y => Bool.eqb x y
  | _, _ => false
  end.
Definition cmpop_same (a b : cmpop) : bool :=
  match a, b with
  | CEq, CEq | CNe, CNe | CLt, CLt | CLe, CLe | CGt, CGt | CGe, CGe => true
  | _, _ => false
  end.
Fixpoint path_same (a b : list nat) : bool :=
  match a, b with
  | [], [] => true
  | x :: a', y :: b' => Nat.eqb x y && path_same a' b'
  | _, _ => false
  end.
Fixpoint vx_same (x y : vx) {struct x} : bool :=
  match x, y with
  | XK a, XK b => value_same a b
  | XField p, XField q | XHas p, XHas q => path_same p q
  | XSelf, XSelf => true
  | XAdd a b, XAdd a' b' | XSub a b, XSub a' b' | XMul a b, XMul a' b'
  | XAnd a b, XAnd a' b' | XOr a b, XOr a' b' => vx_same a a' && vx_same b b'
  | XCmp o a b, XCmp o' a' b' => cmpop_same o o' && vx_same a a' && vx_same b b'
  | XEq n a b, XEq n' a' b' => Bool.eqb n n' && vx_same a a' && vx_same b b'
  | XChoice c t f, XChoice c' t' f' => vx_same c c' && vx_same t t' && vx_same f f'
  | XMax l, XMax l' =>
      (fix go (l l' : list vx) {struct l} : bool :=
         match l, l' with
         | [], [] => true
         | a :: t, a' :: t' => vx_same a a' && go t t'
         | _, _ => false
         end) l l'
  | _, _ => false
  end.

Definition size_field_ok (d : sdef) : bool :=
  match nth_error (fields d) (size_field d) with
  | Some f =>
      match fcond f, fbody_of f with
      | XK (VBool true), Virt x None => vx_same x (synth_size (fields d))
      | _, _ => false
      end
  | None => false
  end.

Definition wf_ref (d : sdef) : bool :=
  (unit_bits d =? 8)
  && forallb shape_ok (fields d)
  && deps_ok (fields d) [] (order d)
  && forallb (fun i => mem i (order d)) (seq 0 (length (fields d)))
  && (length (order d) <=? length (fields d))%nat
  && size_field_ok d
  && orefs_in (fun k => (k <? length (fields d))%nat) (srequires d).
