(* C20 — model of the generated Equals() and of TryToCopyFrom over one shared memory. *)
From Coq Require Import ZArith List Bool Lia ZifyBool.
Import ListNotations.
Require Import EmbossV.Bounds.Model EmbossV.View.Model.
Open Scope Z_scope.

(* equals_method_test for one member, given how the member itself compares *)
Definition member_test (h1 h2 : maybe bool) (eq : bool) : bool :=
  match h1, h2 with
  | Some a, Some b => Bool.eqb a b && (if a then eq else true)
  | _, _ => false
  end.

Definition opt_value_eqb (a b : maybe value) : bool :=
  match a, b with
  | Some x, Some y => value_eqb x y
  | None, None => true
  | _, _ => false
  end.

(* operator== of the IEEE 754 values FloatView::Read() returns, on the bit patterns the model carries
   (binary32 for kbits = 32, binary64 otherwise): a NaN equals nothing, +0 equals -0, otherwise the
   patterns must be the same *)
Definition float_is_nan (kbits raw : Z) : bool :=
  let fbits := if kbits =? 32 then 23 else 52 in
  let ebits := if kbits =? 32 then 8 else 11 in
  ((raw / 2 ^ fbits) mod 2 ^ ebits =? 2 ^ ebits - 1) && negb (raw mod 2 ^ fbits =? 0).
Definition float_is_zero (kbits raw : Z) : bool := raw mod 2 ^ (kbits - 1) =? 0.
Definition float_eqb (kbits a b : Z) : bool :=
  negb (float_is_nan kbits a) && negb (float_is_nan kbits b)
  && ((a =? b) || (float_is_zero kbits a && float_is_zero kbits b)).

(* <Scalar>View::Equals: Read() == other.Read() *)
Definition scalar_equal (k : skind) (kbits : Z) (a b : maybe value) : bool :=
  match k, a, b with
  | KFloat, Some (VInt x), Some (VInt y) => float_eqb kbits x y
  | _, _, _ => opt_value_eqb a b
  end.

Fixpoint forallb2 {A} (f : A -> A -> bool) (l1 l2 : list A) : bool :=
  match l1, l2 with
  | [], [] => true
  | x :: t1, y :: t2 => f x y && forallb2 f t1 t2
  | _, _ => false
  end.

Section Eq.
  Variable m : module.

  Fixpoint equals_type (fuel : nat) (ty : ftype) (r1 r2 : fres) {struct fuel} : bool :=
    match fuel with
    | O => false
    | S f =>
        match ty with
        | FScalar k kbits _ => scalar_equal k kbits (fr_val r1) (fr_val r2)   (* Read() == other.Read() *)
        | FStruct tid _ _ =>
            match nth_error m tid with
            | Some d => equals_struct f d (fr_sub r1) (fr_sub r2)
            | None => false
            end
        | FArray elem _ =>
            opt_value_eqb (option_map VInt (fr_ssize r1)) (option_map VInt (fr_ssize r2))   (* ElementCount *)
            && forallb2 (equals_type f elem) (fr_elems r1) (fr_elems r2)
        end
    end
  with equals_struct (fuel : nat) (d : sdef) (e1 e2 : env) {struct fuel} : bool :=
    match fuel with
    | O => false
    | S f =>
        forallb (fun i =>
                   match nth_error d.(fields) i, nth_error e1 i, nth_error e2 i with
                   | Some fd, Some (Some r1), Some (Some r2) =>
                       match fd.(fbody_of) with
                       | Param _ => member_test (fr_has r1) (fr_has r2) (opt_value_eqb (fr_val r1) (fr_val r2))
                       | Phys _ _ ty _ => member_test (fr_has r1) (fr_has r2) (equals_type f ty r1 r2)
                       | Virt _ _ | Alias _ _ => true     (* virtual fields are equal by definition *)
                       end
                   | _, _, _ => false
                   end) d.(order)
    end.
End Eq.

(* ---------- memmove on one shared memory ---------- *)
Definition memmove (mem : list Z) (dst src n : nat) : list Z :=
  firstn dst mem ++ firstn n (skipn src mem) ++ skipn (dst + n) mem.

(* ContiguousBuffer::TryToCopyFrom *)
Definition buffer_try_copy (mem : list Z) (dst src : bstore) (n : Z) : option (list Z) :=
  match dst, src with
  | Some (od, ld), Some (os, ls) =>
      if (n <=? ld) && (n <=? ls) then Some (memmove mem (Z.to_nat od) (Z.to_nat os) (Z.to_nat n)) else None
  | _, _ => None
  end.

(* Generic<Name>View::TryToCopyFrom: other.Ok() && backing_.TryToCopyFrom(other.backing, other.IntrinsicSize.Read()) *)
Definition view_try_copy (mem : list Z) (dst : bstore) (src_view : fres) : option (list Z) :=
  if fr_sok src_view then
    match fr_st src_view, fr_ssize src_view with
    | SB src, Some n => buffer_try_copy mem dst src n
    | _, _ => None
    end
  else None.

(* ---------- proofs ---------- *)
Lemma value_eqb_sym a b : value_eqb a b = value_eqb b a.
Proof. destruct a, b; cbn; try reflexivity; try apply Z.eqb_sym. destruct b0, b; reflexivity. Qed.

Lemma opt_value_eqb_sym a b : opt_value_eqb a b = opt_value_eqb b a.
Proof. destruct a, b; cbn; try reflexivity. apply value_eqb_sym. Qed.

Lemma float_eqb_sym kb a b : float_eqb kb a b = float_eqb kb b a.
Proof.
  unfold float_eqb. rewrite (Z.eqb_sym a b).
  destruct (float_is_nan kb a), (float_is_nan kb b), (b =? a), (float_is_zero kb a), (float_is_zero kb b); reflexivity.
Qed.

Lemma scalar_equal_sym k kb a b : scalar_equal k kb a b = scalar_equal k kb b a.
Proof.
  unfold scalar_equal. destruct k; try apply opt_value_eqb_sym.
  destruct a as [[x|x|x]|], b as [[y|y|y]|]; try apply opt_value_eqb_sym. apply float_eqb_sym.
Qed.

Lemma scalar_equal_not_float k kb a b : k <> KFloat -> scalar_equal k kb a b = opt_value_eqb a b.
Proof. intros H. destruct k; try reflexivity. contradiction. Qed.

Lemma member_test_sym h1 h2 e1 e2 : e1 = e2 -> member_test h1 h2 e1 = member_test h2 h1 e2.
Proof. intros ->. destruct h1 as [[|]|], h2 as [[|]|]; reflexivity. Qed.

Lemma forallb2_sym {A} (f : A -> A -> bool) l1 : forall l2,
  (forall x y, In x l1 -> f x y = f y x) -> forallb2 f l1 l2 = forallb2 f l2 l1.
Proof.
  induction l1 as [|x t IH]; intros [|y t2] H; cbn; try reflexivity.
  rewrite (H x y (or_introl eq_refl)). f_equal. apply IH. intros a b Ha. apply H. right; exact Ha.
Qed.

Lemma forallb_ext' {A} (f g : A -> bool) l : (forall x, f x = g x) -> forallb f l = forallb g l.
Proof. intros H. induction l as [|x t IH]; cbn; [reflexivity|]. rewrite H, IH. reflexivity. Qed.

Theorem equals_sym m : forall fuel,
  (forall ty r1 r2, equals_type m fuel ty r1 r2 = equals_type m fuel ty r2 r1) /\
  (forall d e1 e2, equals_struct m fuel d e1 e2 = equals_struct m fuel d e2 e1).
Proof.
  induction fuel as [|f [IHt IHs]]; [split; reflexivity|]. split.
  - intros ty r1 r2. cbn [equals_type]. destruct ty as [k kb bo|tid args ad|elem es].
    + apply scalar_equal_sym.
    + destruct (nth_error m tid); [apply IHs|reflexivity].
    + rewrite opt_value_eqb_sym. f_equal. apply forallb2_sym. intros x y _. apply IHt.
  - intros d e1 e2. cbn [equals_struct]. apply forallb_ext'. intros i.
    destruct (nth_error (fields d) i) as [fd|]; [|reflexivity].
    destruct (nth_error e1 i) as [[r1|]|]; destruct (nth_error e2 i) as [[r2|]|]; try reflexivity.
    destruct (fbody_of fd); try reflexivity.
    + apply member_test_sym. apply IHt.
    + apply member_test_sym. apply opt_value_eqb_sym.
Qed.

Lemma nth_firstn' {A} (l : list A) : forall n i d, (i < n)%nat -> nth i (firstn n l) d = nth i l d.
Proof.
  induction l as [|x t IH]; intros n i d H; destruct n; try lia; cbn; [destruct i; reflexivity|].
  destruct i; [reflexivity|]. apply IH. lia.
Qed.
Lemma nth_skipn' {A} (l : list A) : forall n i d, nth i (skipn n l) d = nth (n + i) l d.
Proof.
  induction l as [|x t IH]; intros n i d; destruct n; cbn; try reflexivity; [destruct i; reflexivity|apply IH].
Qed.

(* memmove: the destination range receives the old source range, everything else is untouched,
   also when the ranges overlap *)
Lemma memmove_length mem dst src n :
  (dst + n <= length mem)%nat -> (src + n <= length mem)%nat -> length (memmove mem dst src n) = length mem.
Proof.
  intros H1 H2. unfold memmove. rewrite !app_length, !firstn_length, !skipn_length. lia.
Qed.

Lemma memmove_copied mem dst src n i :
  (dst + n <= length mem)%nat -> (src + n <= length mem)%nat -> (i < n)%nat ->
  nth (dst + i) (memmove mem dst src n) 0 = nth (src + i) mem 0.
Proof.
  intros H1 H2 Hi. unfold memmove.
  rewrite app_nth2 by (rewrite firstn_length; lia).
  rewrite firstn_length, Nat.min_l by lia.
  replace (dst + i - dst)%nat with i by lia.
  rewrite app_nth1 by (rewrite firstn_length, skipn_length; lia).
  rewrite nth_firstn' by lia.
  rewrite nth_skipn'. reflexivity.
Qed.

Lemma memmove_frame mem dst src n i :
  (dst + n <= length mem)%nat -> (src + n <= length mem)%nat -> (i < dst \/ dst + n <= i)%nat ->
  nth i (memmove mem dst src n) 0 = nth i mem 0.
Proof.
  intros H1 H2 Hi. unfold memmove. destruct Hi as [Hi|Hi].
  - rewrite app_nth1 by (rewrite firstn_length; lia). apply nth_firstn'. lia.
  - rewrite app_nth2 by (rewrite firstn_length; lia).
    rewrite firstn_length, Nat.min_l by lia.
    rewrite app_nth2 by (rewrite firstn_length, skipn_length; lia).
    rewrite firstn_length, skipn_length, Nat.min_l by lia.
    rewrite nth_skipn'. f_equal. lia.
Qed.

(* TryToCopyFrom succeeds exactly when the source is Ok and the destination can hold its size *)
Lemma structure_ok_complete m bytes fuel d ps pinit st :
  fr_sok (eval_struct m bytes fuel d ps pinit st) = true ->
  fr_scomplete (eval_struct m bytes fuel d ps pinit st) = true.
Proof.
  destruct fuel as [|f]; cbn [eval_struct]; [cbn; discriminate|].
  cbn [fr_sok fr_scomplete]. intros H.
  apply andb_prop in H. destruct H as [H _]. apply andb_prop in H. destruct H as [H _].
  apply andb_prop in H. destruct H as [H _]. exact H.
Qed.
