(* C01 — property theorems about the model of generated views (statements only). *)
From Coq Require Import ZArith List Bool Permutation.
Import ListNotations.
Require Import EmbossV.Bounds.Model EmbossV.View.Model EmbossV.View.Proofs.
Open Scope Z_scope.

(* The Maybe<> expression semantics is monotone in the information order: whatever an
   expression (condition, offset, size, virtual field) reports as Known keeps its value when
   the fields it mentions become more defined (more bytes readable). *)
Theorem maybe_semantics_monotone : forall e e' s s' x,
  env_le e e' -> mle s s' -> mle (meval e s x) (meval e' s' x).
Proof. exact meval_mono. Qed.
Print Assumptions maybe_semantics_monotone.

(* The synthesized $size_in_bytes/$size_in_bits expression is the largest end of any present
   physical field (0 if none), whenever presence and the locations of present fields are known. *)
Theorem size_is_max_end : forall e fs vals,
  Forall2 (fun f v => match f, v with
                      | (c, st, sz), (p, a, b) =>
                          meval e None c = Some (VBool p) /\
                          (p = true -> meval e None st = Some (VInt a) /\ meval e None sz = Some (VInt b))
                      end) fs vals ->
  meval e None (size_expr fs) = Some (VInt (max_end vals 0)).
Proof. exact Proofs.size_is_max_end. Qed.
Print Assumptions size_is_max_end.

(* The switch block of the optimised Ok() decides exactly what the per-field tests decide,
   provided labels and discriminant have the same kind (the C++ typing of labels is finding F10). *)
Theorem ok_switch_equiv : forall e discr cases,
  cases <> [] ->
  (forall d, meval e None discr = Some d ->
     Forall (fun c => match fst c, d with VInt _, VInt _ | VEnum _, VEnum _ | VBool _, VBool _ => True | _, _ => False end) cases) ->
  ok_switch e discr cases = ok_naive e (map (fun c => (cond_of discr (fst c), snd c)) cases).
Proof. exact Proofs.ok_switch_equiv. Qed.
Print Assumptions ok_switch_equiv.

(* ... and the result of Ok() does not depend on how fields are grouped or ordered into blocks. *)
Theorem ok_grouping_irrelevant : forall e a b, Permutation a b -> ok_naive e a = ok_naive e b.
Proof. exact Proofs.ok_naive_perm. Qed.
Theorem ok_blocks_compose : forall e a b, ok_naive e (a ++ b) = ok_naive e a && ok_naive e b.
Proof. exact Proofs.ok_naive_app. Qed.

(* GetOffsetStorage: the sub-storage handed to a field never leaves its parent. *)
Theorem offset_storage_within_parent : forall o l off size o' l',
  0 <= off -> 0 <= size -> bstore_offset (Some (o, l)) off size = Some (o', l') ->
  l' = 0 \/ (o <= o' /\ o' + l' <= o + l).
Proof. exact bstore_offset_within. Qed.
Theorem offset_storage_in_bounds : forall n b off size,
  bstore_in n b -> 0 <= off -> 0 <= size -> bstore_in n (bstore_offset b off size).
Proof. exact bstore_offset_in. Qed.
Theorem offset_bits_in_container : forall s off size,
  bits_in s -> 0 <= off -> 0 <= size -> bits_in (get_offset s off size).
Proof. exact get_offset_bits_in. Qed.

(* ---------- prefix stability (proved in View/Stable.v) ---------- *)
Require Import EmbossV.View.Stable.

(* Anything a view reports as known on a prefix of a message keeps its value when more bytes
   arrive — hereditarily for nested views — for every module in the well-formed class wf_stable
   (no array fields, no Null byte order, static scalar sizes as the compiler enforces, no
   parameterised nested structures, aliases of scalars), every structure, parameters, nesting
   depth, prefix and extension. *)
Theorem prefix_stable_partial : forall m,
  wf_stable m = true ->
  forall d ps fuel bytes extra, In d m -> prefix_stable_at m d ps fuel bytes extra.
Proof. exact Stable.prefix_stable_partial. Qed.
Print Assumptions prefix_stable_partial.

Theorem prefix_stable_top : forall m d ps fuel bytes extra,
  wf_stable m = true -> In d m ->
  let r := eval_struct m bytes fuel d ps true (root bytes) in
  let r' := eval_struct m (bytes ++ extra) fuel d ps true (root (bytes ++ extra)) in
  (fr_ok r = true -> fr_ok r' = true) /\
  (fr_scomplete r = true -> fr_scomplete r' = true) /\
  (forall z, fr_ssize r = Some z -> fr_ssize r' = Some z) /\
  (forall i f, nth_error (fr_sub r) i = Some (Some f) ->
     exists f', nth_error (fr_sub r') i = Some (Some f') /\
       (forall b, fr_has f = Some b -> fr_has f' = Some b) /\
       (fr_ok f = true -> fr_ok f' = true /\ fr_val f' = fr_val f) /\
       fle f f').
Proof. exact Stable.prefix_stable_top. Qed.

(* The unrestricted statement is false of the faithful model; the witness is a genuine defect
   of the generated code / runtime (finding F9; the Null-byte-order witness disappeared with fix c90547c). *)
Theorem prefix_stable_refuted_array :
  exists m d ps fuel bytes extra,
    In d m /\
    let r := eval_struct m bytes fuel d ps true (root bytes) in
    let r' := eval_struct m (bytes ++ extra) fuel d ps true (root (bytes ++ extra)) in
    (exists f f', nth_error (fr_sub r) 1 = Some (Some f) /\ nth_error (fr_sub r') 1 = Some (Some f') /\
                  fr_has f = Some true /\ fr_has f' = Some true /\
                  fr_ok f = true /\ fr_ok f' = true /\
                  fr_scomplete f = true /\
                  fr_ssize f = Some 1 /\ fr_ssize f' = Some 3) /\
    nth_error (run_view m 0 ps bytes fuel) 10 = Some 1 /\
    nth_error (run_view m 0 ps (bytes ++ extra) fuel) 10 = Some 3 /\
    ~ prefix_stable_at m d ps fuel bytes extra.
Proof. exact Stable.prefix_stable_refuted_array. Qed.

(* the class wf_stable is inhabited by a module with a conditional field, a dynamic offset, a nested
   structure, a bits block with an alias, a virtual field and a [requires] *)
Example wf_stable_inhabited : wf_stable m_ex = true.
Proof. exact Stable.wf_stable_example. Qed.
