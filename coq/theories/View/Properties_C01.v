From Coq Require Import ZArith List Bool.
Require Import EmbossV.View.Model.
Lemma placeholder_c01 : True. Proof. exact I. Qed.
