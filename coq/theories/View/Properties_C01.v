(* C01 — property theorems about the model of generated views (statements only). *)
From Coq Require Import ZArith List Bool Permutation.
Import ListNotations.
Require Import EmbossV.Bounds.Model EmbossV.View.Model EmbossV.View.Proofs.
Open Scope Z_scope.

(* The Maybe<> expression semantics is monotone in the information order: whatever an
   expression (condition, offset, size, virtual field) reports as Known keeps its value when
   the fields it mentions become more defined (more bytes readable). *)
Theorem maybe_semantics_monotone : forall e e' s s' x,
  env_le e e' -> mle s s' -> mle (meval e s x) (meval e' s' x).
Proof. exact meval_mono. Qed.
Print Assumptions maybe_semantics_monotone.

(* The synthesized $size_in_bytes/$size_in_bits expression is the largest end of any present
   physical field (0 if none), whenever presence and the locations of present fields are known. *)
Theorem size_is_max_end : forall e fs vals,
  Forall2 (fun f v => match f, v with
                      | (c, st, sz), (p, a, b) =>
                          meval e None c = Some (VBool p) /\
                          (p = true -> meval e None st = Some (VInt a) /\ meval e None sz = Some (VInt b))
                      end) fs vals ->
  meval e None (size_expr fs) = Some (VInt (max_end vals 0)).
Proof. exact Proofs.size_is_max_end. Qed.
Print Assumptions size_is_max_end.

(* The switch block of the optimised Ok() decides exactly what the per-field tests decide,
   provided labels and discriminant have the same kind (the C++ typing of labels is finding F10). *)
Theorem ok_switch_equiv : forall e discr cases,
  cases <> [] ->
  (forall d, meval e None discr = Some d ->
     Forall (fun c => match fst c, d with VInt _, VInt _ | VEnum _, VEnum _ | VBool _, VBool _ => True | _, _ => False end) cases) ->
  ok_switch e discr cases = ok_naive e (map (fun c => (cond_of discr (fst c), snd c)) cases).
Proof. exact Proofs.ok_switch_equiv. Qed.
Print Assumptions ok_switch_equiv.

(* ... and the result of Ok() does not depend on how fields are grouped or ordered into blocks. *)
Theorem ok_grouping_irrelevant : forall e a b, Permutation a b -> ok_naive e a = ok_naive e b.
Proof. exact Proofs.ok_naive_perm. Qed.
Theorem ok_blocks_compose : forall e a b, ok_naive e (a ++ b) = ok_naive e a && ok_naive e b.
Proof. exact Proofs.ok_naive_app. Qed.

(* GetOffsetStorage: the sub-storage handed to a field never leaves its parent. *)
Theorem offset_storage_within_parent : forall o l off size o' l',
  0 <= off -> 0 <= size -> bstore_offset (Some (o, l)) off size = Some (o', l') ->
  l' = 0 \/ (o <= o' /\ o' + l' <= o + l).
Proof. exact bstore_offset_within. Qed.
Theorem offset_storage_in_bounds : forall n b off size,
  bstore_in n b -> 0 <= off -> 0 <= size -> bstore_in n (bstore_offset b off size).
Proof. exact bstore_offset_in. Qed.
Theorem offset_bits_in_container : forall s off size,
  bits_in s -> 0 <= off -> 0 <= size -> bits_in (get_offset s off size).
Proof. exact get_offset_bits_in. Qed.

(* ---------- prefix stability (proved in View/Stable.v) ---------- *)
Require Import EmbossV.View.Stable.

(* Anything a view reports as known on a prefix of a message keeps its value when more bytes
   arrive — hereditarily for nested views — for every module in the well-formed class wf_stable
   (no array fields, no Null byte order, static scalar sizes as the compiler enforces, aliases of
   scalars, no $present() of a parameter), every structure, parameters, nesting depth, prefix and
   extension.  Nested structures may be parameterised ([Par(x) p]): their arguments are evaluated in
   the parent, a known argument keeps its value, an unknown one may become known.  [prefix_stable_at]
   is the typed hereditary order [flet]: it is the strict order [fle] except for one PRIVATE flag,
   has_p() of a parameter p of a nested view (= parameters_initialized_, Known(false) on the
   default-constructed view, Known(true) once the field is located: [prefix_stable_refuted_param_flag]);
   where no nested structure has parameters it IS the strict order ([prefix_stable_strict]). *)
Theorem prefix_stable_partial : forall m,
  wf_stable m = true ->
  forall d ps fuel bytes extra, In d m -> prefix_stable_at m d ps fuel bytes extra.
Proof. exact Stable.prefix_stable_partial. Qed.
Print Assumptions prefix_stable_partial.

Theorem prefix_stable_top : forall m d ps fuel bytes extra,
  wf_stable m = true -> In d m ->
  let r := eval_struct m bytes fuel d ps true (root bytes) in
  let r' := eval_struct m (bytes ++ extra) fuel d ps true (root (bytes ++ extra)) in
  (fr_ok r = true -> fr_ok r' = true) /\
  (fr_scomplete r = true -> fr_scomplete r' = true) /\
  (forall z, fr_ssize r = Some z -> fr_ssize r' = Some z) /\
  (forall i f, nth_error (fr_sub r) i = Some (Some f) ->
     exists f', nth_error (fr_sub r') i = Some (Some f') /\
       (forall b, fr_has f = Some b -> fr_has f' = Some b) /\
       (fr_ok f = true -> fr_ok f' = true /\ fr_val f' = fr_val f) /\
       krel m (flet m true) false (nth_error (fields d) i) f f').
Proof. exact Stable.prefix_stable_top. Qed.

(* every has flag is kept, hereditarily, when no structure used as a field type has parameters *)
Theorem prefix_stable_strict : forall m,
  wf_stable m = true -> strict_targets m = true ->
  forall d ps fuel bytes extra, In d m ->
    fle (eval_struct m bytes fuel d ps true (root bytes))
        (eval_struct m (bytes ++ extra) fuel d ps true (root (bytes ++ extra))).
Proof. exact Stable.prefix_stable_strict. Qed.
Print Assumptions prefix_stable_strict.

(* the strict order fails on a module of the class: p().has_k() of a parameterised nested view *)
Theorem prefix_stable_refuted_param_flag :
  exists m d ps fuel bytes extra,
    wf_stable m = true /\ In d m /\
    let r := eval_struct m bytes fuel d ps true (root bytes) in
    let r' := eval_struct m (bytes ++ extra) fuel d ps true (root (bytes ++ extra)) in
    (exists f f' k k', nth_error (fr_sub r) 1 = Some (Some f) /\ nth_error (fr_sub r') 1 = Some (Some f') /\
                  nth_error (fr_sub f) 0 = Some (Some k) /\ nth_error (fr_sub f') 0 = Some (Some k') /\
                  fr_has k = Some false /\ fr_has k' = Some true) /\
    ~ fle r r'.
Proof. exact Stable.prefix_stable_refuted_param_flag. Qed.

(* The unrestricted statement is false of the faithful model; the witness is a genuine defect
   of the generated code / runtime (finding F9; the Null-byte-order witness disappeared with fix c90547c). *)
Theorem prefix_stable_refuted_array :
  exists m d ps fuel bytes extra,
    In d m /\
    let r := eval_struct m bytes fuel d ps true (root bytes) in
    let r' := eval_struct m (bytes ++ extra) fuel d ps true (root (bytes ++ extra)) in
    (exists f f', nth_error (fr_sub r) 1 = Some (Some f) /\ nth_error (fr_sub r') 1 = Some (Some f') /\
                  fr_has f = Some true /\ fr_has f' = Some true /\
                  fr_ok f = true /\ fr_ok f' = true /\
                  fr_scomplete f = true /\
                  fr_ssize f = Some 1 /\ fr_ssize f' = Some 3) /\
    nth_error (run_view m 0 ps bytes fuel) 10 = Some 1 /\
    nth_error (run_view m 0 ps (bytes ++ extra) fuel) 10 = Some 3 /\
    ~ prefix_stable_at m d ps fuel bytes extra.
Proof. exact Stable.prefix_stable_refuted_array. Qed.

(* the class wf_stable is inhabited by a module with a conditional field, a dynamic offset, a nested
   structure, a bits block with an alias, a virtual field and a [requires] *)
Example wf_stable_inhabited : wf_stable m_ex = true.
Proof. exact Stable.wf_stable_example. Qed.

(* ... and by a module with a parameterised nested structure, Par(n) p *)
Example wf_stable_inhabited_param : wf_stable m_par = true /\ strict_targets m_par = false.
Proof. exact (conj Stable.wf_stable_example_param Stable.wf_stable_example_param_not_strict). Qed.
Example prefix_stable_param_instance : prefix_stable_at m_par d_par [] 8 [] [1; 7; 5].
Proof. exact Stable.wf_stable_example_param_instance. Qed.

(* ---------- agreement with the reference semantics (View/Ref.v; proved in View/RefProofs.v) ---------- *)
Require Import EmbossV.View.Ref EmbossV.View.RefProofs.

(* The generated code reports exactly what the language reference defines.  [Ref.is_ref_model d ps bytes rho]:
   rho assigns to every field its existence and its value as the reference defines them over the message
   `bytes` (a field exists iff its condition holds; a physical scalar is the decode of exactly the bytes
   [start, start+size) in its byte order, where start may depend on other fields; a virtual field is its
   expression; an alias is the field it names; $size_in_bytes is the largest end of a present field; a fact
   that needs an absent field or a byte outside the message is undefined).
   For EVERY structure in the decidable class [wf_ref] (byte-addressed; physical fields are scalars of any kind,
   width and byte order with a constant size and an arbitrary start expression; existence conditions,
   [requires], unconditional virtual fields, aliases of scalars, parameters, $size_in_bytes used in
   expressions; dependencies listed in [order]), every parameter list, EVERY byte string -- complete,
   truncated or garbage -- and every sufficient nesting fuel, the model of the generated code reports:
   IntrinsicSize/SizeIsKnown, IsComplete, Ok, and for every field has_x() (tri-state), x().Ok() and the value,
   EQUAL to the reference: known exactly when the reference defines it, and with the same value.
   `_partial`: the class excludes arrays (finding F9), nested structures, bits blocks and conditional
   virtual fields (refuted below); for those the model is tied to the C++ by correspondence only. *)
Theorem gen_agrees_with_ref_partial : forall m d ps bytes rho fuel,
  wf_ref d = true -> is_ref_model d ps bytes rho -> (2 <= fuel)%nat ->
  let r := eval_struct m bytes fuel d ps true (root bytes) in
  fr_ssize r = ref_size d rho /\
  fr_scomplete r = ref_complete d bytes rho /\
  fr_sok r = ref_ok d bytes rho /\
  forall i, (i < length (fields d))%nat ->
    exists g, nth_error (fr_sub r) i = Some (Some g) /\
      fr_has g = r_present (rget rho i) /\
      fr_ok g = is_some (r_value (rget rho i)) /\
      (fr_ok g = true -> fr_val g = r_value (rget rho i)).
Proof. exact RefProofs.gen_agrees_with_ref. Qed.
Print Assumptions gen_agrees_with_ref_partial.

(* ... in particular the whole observation vector that the harness compares with the real C++ *)
Theorem gen_observations_are_ref : forall m tid d ps bytes rho fuel,
  nth_error m tid = Some d -> wf_ref d = true -> is_ref_model d ps bytes rho -> (2 <= fuel)%nat ->
  run_view m tid ps bytes fuel = ref_observe d bytes rho.
Proof. exact RefProofs.gen_observations_are_ref. Qed.
Print Assumptions gen_observations_are_ref.

(* the reference exists (its equations are solved by iterating them once per field from "nothing
   defined": [ref_solve], the function the harness runs) and is unique *)
Theorem ref_model_exists : forall d ps bytes,
  wf_ref d = true -> is_ref_model d ps bytes (ref_solve d ps bytes).
Proof. exact RefProofs.ref_model_exists. Qed.
Theorem ref_model_unique : forall d ps bytes rho rho',
  wf_ref d = true -> is_ref_model d ps bytes rho -> is_ref_model d ps bytes rho' -> rho = rho'.
Proof. exact RefProofs.ref_model_unique. Qed.
Print Assumptions ref_model_exists.

(* Whatever the generated code reports as known on a PREFIX of a message is what the reference defines
   for the WHOLE message (with prefix_stable_partial; hence also [wf_stable]) *)
Theorem gen_known_is_ref_of_whole_message : forall m d ps bytes extra rho' fuel,
  wf_stable m = true -> In d m -> wf_ref d = true ->
  is_ref_model d ps (bytes ++ extra) rho' -> (2 <= fuel)%nat ->
  let r := eval_struct m bytes fuel d ps true (root bytes) in
  (fr_sok r = true -> ref_ok d (bytes ++ extra) rho' = true) /\
  (fr_scomplete r = true -> ref_complete d (bytes ++ extra) rho' = true) /\
  (forall z, fr_ssize r = Some z -> ref_size d rho' = Some z) /\
  (forall i g, nth_error (fr_sub r) i = Some (Some g) ->
     (forall b, fr_has g = Some b -> r_present (rget rho' i) = Some b) /\
     (fr_ok g = true -> r_value (rget rho' i) = fr_val g /\ fr_val g <> None)).
Proof. exact RefProofs.gen_known_is_ref_of_whole_message. Qed.
Print Assumptions gen_known_is_ref_of_whole_message.

(* Outside the class the agreement is false of the faithful model: a conditional virtual field that does
   not exist is reported Ok() with a value (known finding virtual-ok-ignores-existence) *)
Theorem gen_agrees_with_ref_refuted_conditional_virtual :
  exists d ps bytes rho,
    is_ref_model d ps bytes rho /\
    let r := eval_struct [d] bytes 8 d ps true (root bytes) in
    exists g, nth_error (fr_sub r) 1 = Some (Some g) /\
      fr_has g = Some false /\ r_present (rget rho 1) = Some false /\
      fr_ok g = true /\ fr_val g = Some (VInt 400) /\ r_value (rget rho 1) = None.
Proof. exact RefProofs.gen_agrees_with_ref_refuted_conditional_virtual. Qed.

(* the class is inhabited by a structure with a parameter, a conditional big-endian field, a field at a
   dynamic offset with [requires], a virtual field and an alias; on a complete and on a truncated message *)
Example wf_ref_inhabited : wf_ref d_ref_ex = true.
Proof. exact RefProofs.wf_ref_example. Qed.
Example wf_ref_inhabited_complete :
  let bytes := [1; 3; 2; 5; 0; 7] in
  let rho := ref_solve d_ref_ex [Some (VInt 10)] bytes in
  is_ref_model d_ref_ex [Some (VInt 10)] bytes rho /\
  r_value (rget rho 3) = Some (VInt 517) /\ r_value (rget rho 4) = Some (VInt 7) /\
  r_value (rget rho 5) = Some (VInt 11) /\ r_value (rget rho 6) = Some (VInt 517) /\
  ref_size d_ref_ex rho = Some 6 /\ ref_complete d_ref_ex bytes rho = true /\ ref_ok d_ref_ex bytes rho = true /\
  run_view [d_ref_ex] 0 [Some (VInt 10)] bytes 8 = ref_observe d_ref_ex bytes rho.
Proof. exact RefProofs.wf_ref_example_complete. Qed.

(* The reference gives a structure of fixed size (every physical field at a constant location, no
   conditional field beyond the last unconditional one) that constant as $size_in_bytes whatever the
   message holds ("FixedSize.$size_in_bytes will always be 6"); this never contradicts the general
   definition "largest end of a present field": wherever that is defined, the two coincide. *)
Theorem static_size_consistent : forall d rho z z',
  static_size (fields d) = Some z -> dynamic_size d rho = Some z' -> z' = z.
Proof. exact RefProofs.static_size_consistent. Qed.
Print Assumptions static_size_consistent.

(* ---------- the widened reference: bits blocks, nested structures, parameters, dynamic sizes
              (View/RefNest.v; proved in View/RefNestProofs.v) ---------- *)
Require Import EmbossV.View.RefNest EmbossV.View.RefNestProofs.

(* [ref_struct m bytes n tid (Some ps) (whole bytes)] is the TREE of facts the language reference defines for
   structure number tid of module m over the message: for every field whether it exists and what it reads, and
   for a field whose type is a structure -- a nested byte structure, a named bits type or an anonymous `bits:`
   block -- the Ok / IsComplete / size of that structure and the facts of its members, over the window the
   field designates: the bytes [start, start+size) of the enclosing window clipped to it (size may be any
   expression: `[+len]`), for a bits type the number those bytes hold in the field's byte order, a member at
   bit offset off of size s being (number / 2^off) mod 2^s; parameters are the values of the argument expressions
   over the enclosing structure's fields; a field that does not exist, or whose location or arguments have no
   value, gives its type no window and no parameters.  [node_of] reads a result tree of the generated-code model
   as such facts (it forgets the storage objects; a value counts only when the view is Ok()).
   For EVERY module m, structure d in the decidable class [wf_ref_n m n] (the class [wf_ref] of
   gen_agrees_with_ref_partial, plus: fields of bits types of at most 64 bits whose members are scalars of any
   kind at constant bit size, anonymous bits blocks with their hoisted aliases, aliases and expressions through
   paths `a.b.c`, fields of nested byte structures of the class -- to any depth <= n, with arguments that are
   expressions over other fields, of constant or dynamic size --, conditions inside nested and bits types),
   every parameter list, EVERY byte string and every sufficient fuel, the tree the generated code reports EQUALS
   the reference tree: has_x() tri-state, x().Ok(), the value, and hereditarily Ok(), IsComplete(), SizeIsKnown /
   size and the members of every nested view, whether the nested field is located, absent or not yet locatable. *)
Theorem gen_agrees_with_ref_nested : forall m tid d ps bytes n fuel,
  nth_error m tid = Some d -> wf_ref_n m n d = true -> unit_bits d = 8 -> (2 * n <= fuel)%nat ->
  node_of (eval_struct m bytes fuel d ps true (root bytes)) = ref_struct m bytes n tid (Some ps) (whole bytes).
Proof. exact RefNestProofs.gen_agrees_with_ref_nested. Qed.
Print Assumptions gen_agrees_with_ref_nested.

(* nothing is lost by [node_of]: every member of the reported tree has been evaluated, hereditarily, and the tree
   has no array parts; spelled out for the top level: *)
Theorem gen_agrees_with_ref_nested_fields : forall m tid d ps bytes n fuel,
  nth_error m tid = Some d -> wf_ref_n m n d = true -> unit_bits d = 8 -> (2 * n <= fuel)%nat ->
  let r := eval_struct m bytes fuel d ps true (root bytes) in
  let t := ref_struct m bytes n tid (Some ps) (whole bytes) in
  fr_ssize r = n_size t /\ fr_ok r = n_ok t /\ length (fr_sub r) = length (n_members t) /\
  forall i, (i < length (fr_sub r))%nat ->
    exists g, nth_error (fr_sub r) i = Some (Some g) /\ node_of g = nget (n_members t) i.
Proof. exact RefNestProofs.gen_agrees_with_ref_nested_fields. Qed.
Theorem gen_tree_evaluated : forall m tid d ps bytes n fuel,
  nth_error m tid = Some d -> wf_ref_n m n d = true -> (2 * n <= fuel)%nat ->
  evaluated (S n) (eval_struct m bytes fuel d ps true (root bytes)) = true.
Proof. exact RefNestProofs.gen_tree_evaluated. Qed.

(* ... hence the whole observation vector that the harness compares with the real C++ *)
Theorem gen_observations_are_ref_nested : forall m tid d ps bytes n fuel,
  nth_error m tid = Some d -> wf_ref_n m n d = true -> unit_bits d = 8 -> (2 * n <= fuel)%nat ->
  run_view m tid ps bytes fuel = ref_observe_n m tid ps bytes n.
Proof. exact RefNestProofs.gen_observations_are_ref_nested. Qed.
Print Assumptions gen_observations_are_ref_nested.

(* the facts of one structure are THE solution of its per-field equations [is_nref_model] (the nested structures
   given by [ref_struct] one level down): it exists ([nsolve], the function [ref_struct] runs), it is unique, and
   the generated code agrees with any assignment that satisfies the equations -- over any window, with or
   without parameters *)
Theorem nref_model_exists : forall inner m n d ps bytes w,
  wf_ref_n m (S n) d = true -> is_nref_model inner d ps bytes w (nsolve inner d ps bytes w).
Proof. exact RefNestProofs.nref_model_exists. Qed.
Theorem nref_model_unique : forall inner m n d ps bytes w rho rho',
  wf_ref_n m (S n) d = true ->
  is_nref_model inner d ps bytes w rho -> is_nref_model inner d ps bytes w rho' -> rho = rho'.
Proof. exact RefNestProofs.nref_model_unique. Qed.
Theorem gen_agrees_with_nref_model : forall m tid d ps bytes n fuel rho,
  nth_error m tid = Some d -> wf_ref_n m (S n) d = true -> unit_bits d = 8 -> (2 * S n <= fuel)%nat ->
  is_nref_model (ref_struct m bytes n) d (Some ps) bytes (whole bytes) rho ->
  node_of (eval_struct m bytes fuel d ps true (root bytes)) = nsummary d (Some ps) (whole bytes) rho.
Proof. exact RefNestProofs.gen_agrees_with_nref_model. Qed.
Print Assumptions gen_agrees_with_nref_model.

(* Arrays stay outside the class: the reference gives an array size/elem elements of its DESIGNATED window and
   lets it be read when that window is in the message; on a truncated message the generated code reports Ok()
   with the element count of the clamped storage (known finding F9); on the whole message the two agree. *)
Theorem gen_agrees_with_ref_refuted_array :
  exists m tid d bytes extra,
    nth_error m tid = Some d /\
    (let r := eval_struct m bytes 8 d [] true (root bytes) in
     let t := ref_struct m bytes 2 tid (Some []) (whole bytes) in
     exists g, nth_error (fr_sub r) 1 = Some (Some g) /\
       fr_has g = Some true /\ n_present (nget (n_members t) 1) = Some true /\
       fr_ok g = true /\ n_ok (nget (n_members t) 1) = false /\
       fr_ssize g = Some 1 /\ n_size (nget (n_members t) 1) = Some 3) /\
    (let bytes' := bytes ++ extra in
     let r := eval_struct m bytes' 8 d [] true (root bytes') in
     let t := ref_struct m bytes' 2 tid (Some []) (whole bytes') in
     exists g, nth_error (fr_sub r) 1 = Some (Some g) /\
       fr_ok g = true /\ n_ok (nget (n_members t) 1) = true /\
       fr_ssize g = Some 3 /\ n_size (nget (n_members t) 1) = Some 3).
Proof. exact RefNestProofs.gen_agrees_with_ref_refuted_array. Qed.

(* the class is inhabited by a structure with a named bits type, an anonymous bits block with hoisted aliases, a
   nested structure with an argument and a dynamic size, and a virtual field over members of nested views
   (the translation of a real .emb, see RefNestProofs); on a complete and on a truncated message *)
Example wf_ref_n_inhabited : wf_ref_n m_nest_ex 2 d_nest_ex = true /\ unit_bits d_nest_ex = 8.
Proof. exact RefNestProofs.wf_ref_n_example. Qed.
Example wf_ref_n_inhabited_complete :
  let bytes := [1; 2; 165; 124; 9; 8] in
  let t := ref_struct m_nest_ex bytes 2 2 (Some []) (whole bytes) in
  is_nref_model (ref_struct m_nest_ex bytes 1) d_nest_ex (Some []) bytes (whole bytes) (n_members t) /\
  n_value (nlookup (n_members t) [2; 0]%nat) = Some (VInt 5) /\
  n_value (nlookup (n_members t) [2; 2]%nat) = Some (VInt 10) /\
  n_value (nlookup (n_members t) [4]%nat) = Some (VInt 12) /\
  n_value (nlookup (n_members t) [5]%nat) = Some (VInt 7) /\
  n_value (nlookup (n_members t) [6; 0]%nat) = Some (VInt 1) /\
  n_value (nlookup (n_members t) [6; 1]%nat) = Some (VInt 9) /\
  n_value (nlookup (n_members t) [6; 2]%nat) = Some (VInt 8) /\
  n_value (nlookup (n_members t) [7]%nat) = Some (VInt 22) /\
  n_size t = Some 6 /\ n_complete t = true /\ n_ok t = true /\
  node_of (eval_struct m_nest_ex bytes 8 d_nest_ex [] true (root bytes)) = t /\
  run_view m_nest_ex 2 [] bytes 8 = ref_observe_n m_nest_ex 2 [] bytes 2.
Proof. exact RefNestProofs.wf_ref_n_example_complete. Qed.
Example wf_ref_n_inhabited_truncated :
  let bytes := [1; 2; 165; 124; 9] in
  let t := ref_struct m_nest_ex bytes 2 2 (Some []) (whole bytes) in
  n_present (nlookup (n_members t) [6; 2]%nat) = Some true /\
  n_value (nlookup (n_members t) [6; 2]%nat) = None /\
  n_value (nlookup (n_members t) [6; 1]%nat) = Some (VInt 9) /\
  n_ok (nlookup (n_members t) [6]%nat) = false /\ n_size (nlookup (n_members t) [6]%nat) = Some 2 /\
  n_value (nlookup (n_members t) [7]%nat) = Some (VInt 22) /\
  n_size t = Some 6 /\ n_complete t = false /\ n_ok t = false /\
  run_view m_nest_ex 2 [] bytes 8 = ref_observe_n m_nest_ex 2 [] bytes 2.
Proof. exact RefNestProofs.wf_ref_n_example_truncated. Qed.
