(* C01 — the generated-code model (View/Model.v) agrees with the widened reference semantics
   (View/RefNest.v): bits blocks, nested structures with parameters, structure-typed fields of dynamic size. *)
From Coq Require Import ZArith List Bool Lia ZifyBool Arith.
Import ListNotations.
Require Import EmbossV.Bounds.Model EmbossV.View.Model EmbossV.View.Proofs EmbossV.View.Stable
        EmbossV.View.Ref EmbossV.View.RefProofs EmbossV.View.RefNest.
Open Scope Z_scope.

(* ---------- result trees of the generated-code model read as reference facts ---------- *)
Definition onode (o : option fres) : rnode := match o with Some g => node_of g | None => n_undef end.
Definition enode (e : env) : nassign := map onode e.

Lemma node_of_eq g :
  node_of g = RN (fr_has g) (if fr_ok g then fr_val g else None) (fr_ok g)
                 (match fr_sub g with [] => false | _ :: _ => fr_scomplete g end) (fr_ssize g) (enode (fr_sub g)).
Proof. destruct g; reflexivity. Qed.

Lemma node_of_with_has h g : node_of (with_has h g) = set_present h (node_of g).
Proof. destruct g; reflexivity. Qed.

Lemma nget_enode e i : nget (enode e) i = onode (match nth_error e i with Some o => o | None => None end).
Proof. unfold nget, enode. revert i. induction e as [|a t IH]; intros [|i]; cbn; auto. Qed.

Lemma enode_length e : length (enode e) = length e.
Proof. apply map_length. Qed.

Lemma nlookup_nil : forall p, nlookup [] p = n_undef.
Proof.
  induction p as [|i rest IH]; [reflexivity|]. destruct rest as [|j rest'].
  - cbn. destruct i; reflexivity.
  - change (nlookup [] (i :: j :: rest')) with (nlookup (n_members (nget [] i)) (j :: rest')).
    replace (nget [] i) with n_undef by (destruct i; reflexivity). exact IH.
Qed.

Lemma lookup_enode : forall p e, onode (lookup e p) = nlookup (enode e) p.
Proof.
  induction p as [|i rest IH]; intros e; [reflexivity|].
  destruct rest as [|j rest'].
  - cbn [lookup nlookup]. rewrite nget_enode. reflexivity.
  - change (lookup e (i :: j :: rest'))
      with (match nth_error e i with Some (Some r) => lookup (fr_sub r) (j :: rest') | _ => None end).
    change (nlookup (enode e) (i :: j :: rest')) with (nlookup (n_members (nget (enode e) i)) (j :: rest')).
    rewrite nget_enode. destruct (nth_error e i) as [[r|]|].
    + rewrite IH. cbn [onode]. rewrite (node_of_eq r). reflexivity.
    + cbn [onode n_undef n_members]. rewrite nlookup_nil. reflexivity.
    + cbn [onode n_undef n_members]. rewrite nlookup_nil. reflexivity.
Qed.

(* the Maybe<> evaluation over an environment IS the reference evaluation over the facts it holds *)
Lemma meval_enode e self x : meval e self x = nreval (enode e) self x.
Proof.
  induction x using vx_ind2; cbn [meval nreval];
    try (rewrite ?IHx1, ?IHx2, ?IHx3; reflexivity).
  - rewrite <- lookup_enode. destruct (lookup e p) as [r|]; [|reflexivity].
    cbn [onode]. rewrite node_of_eq. reflexivity.
  - rewrite <- lookup_enode. destruct (lookup e p) as [r|]; [|reflexivity].
    cbn [onode]. rewrite node_of_eq. cbn. destruct (fr_has r); reflexivity.
  - assert (E : map (meval e self) args = map (nreval (enode e) self) args).
    { induction H as [|a t Ha Ht IH]; [reflexivity|]. cbn. rewrite Ha, IH. reflexivity. }
    rewrite E, m_all_ints_ints_of. reflexivity.
Qed.

Lemma m_bool_enode e x : m_bool (meval e None x) = as_bool (nreval (enode e) None x).
Proof. rewrite meval_enode. reflexivity. Qed.
Lemma m_z_enode e x : m_z (meval e None x) = as_int (nreval (enode e) None x).
Proof. rewrite meval_enode. reflexivity. Qed.
Lemma requires_ok_enode rq e v : requires_ok rq e v = nholds (enode e) rq v.
Proof.
  destruct rq as [x|]; cbn; [|reflexivity]. rewrite meval_enode.
  destruct (nreval (enode e) (Some v) x) as [[z|[|]|z]|]; reflexivity.
Qed.

(* ---------- expressions depend only on the fields they mention ---------- *)
Section NExt.
  Variables rho rho' : nassign.
  Variable ok : nat -> bool.
  Hypothesis Hsame : forall k, ok k = true -> nget rho k = nget rho' k.

  Lemma nlookup_ext p : match p with i :: _ => ok i | [] => false end = true -> nlookup rho p = nlookup rho' p.
  Proof.
    destruct p as [|i rest]; [discriminate|]. intros H. destruct rest as [|j rest'].
    - cbn. apply Hsame. exact H.
    - change (nlookup rho (i :: j :: rest')) with (nlookup (n_members (nget rho i)) (j :: rest')).
      change (nlookup rho' (i :: j :: rest')) with (nlookup (n_members (nget rho' i)) (j :: rest')).
      rewrite (Hsame i H). reflexivity.
  Qed.

  Lemma nreval_ext self x : nrefs_in ok x = true -> nreval rho self x = nreval rho' self x.
  Proof.
    induction x using vx_ind2; cbn [nrefs_in nreval]; intros Hr;
      repeat match goal with
             | H : _ && _ = true |- _ => apply andb_prop in H; destruct H
             end;
      try (rewrite ?IHx1, ?IHx2, ?IHx3 by assumption; reflexivity).
    - rewrite (nlookup_ext p Hr). reflexivity.
    - rewrite (nlookup_ext p Hr). reflexivity.
    - assert (E : map (nreval rho self) args = map (nreval rho' self) args).
      { induction H as [|a t Ha Ht IH]; [reflexivity|]. cbn in Hr. apply andb_prop in Hr. destruct Hr as [H1 H2].
        cbn. rewrite (Ha H1), (IH H2). reflexivity. }
      rewrite E. reflexivity.
  Qed.

  Lemma nholds_ext rq v : onrefs_in ok rq = true -> nholds rho rq v = nholds rho' rq v.
  Proof. destruct rq as [x|]; cbn; [|reflexivity]. intros H. rewrite (nreval_ext (Some v) x H). reflexivity. Qed.

  Lemma nchecked_ext rq v : onrefs_in ok rq = true -> nchecked rho rq v = nchecked rho' rq v.
  Proof. intros H. unfold nchecked. destruct v as [vv|]; [|reflexivity]. rewrite (nholds_ext rq vv H). reflexivity. Qed.

  Lemma map_nreval_ext args : forallb (nrefs_in ok) args = true -> map (nreval rho None) args = map (nreval rho' None) args.
  Proof.
    induction args as [|a t IH]; [reflexivity|]. cbn. intros H. apply andb_prop in H. destruct H as [H1 H2].
    rewrite (nreval_ext None a H1), (IH H2). reflexivity.
  Qed.
End NExt.

(* ---------- the synthesized $size expression is "the largest end of a present field" ---------- *)
Lemma fold_clause_nref rho c st sz :
  nreval rho None (fold_clause c st sz) = nreval rho None (XChoice c (XAdd st sz) (XK (VInt 0))).
Proof.
  assert (He : nreval rho None (fold_end st sz) = arith Z.add (nreval rho None st) (nreval rho None sz)).
  { unfold fold_end. destruct st as [[a|a|a]| | | | | | | | | | | |]; try reflexivity.
    destruct sz as [[b|b|b]| | | | | | | | | | | |]; reflexivity. }
  unfold fold_clause.
  destruct c as [[z|[|]|z]| | | | | | | | | | | |]; cbn [nreval]; try reflexivity; try (rewrite He; reflexivity).
  rewrite <- He. destruct (fold_end st sz) as [[y|y|y]| | | | | | | | | | | |]; reflexivity.
Qed.

Lemma synth_size_nref d rho :
  nreval rho None (synth_size (fields d)) = option_map VInt (nsize d rho).
Proof.
  unfold synth_size, nsize. destruct (static_size (fields d)) as [z|]; [reflexivity|].
  unfold ndynamic_size. generalize (fields d). intros fs.
  assert (E : ints_of (map (nreval rho None) (synth_clauses fs)) = all_some (nends rho fs)).
  { induction fs as [|f t IH]; [reflexivity|]. cbn [synth_clauses nends].
    destruct (fbody_of f) as [start size ty rq| | |]; try exact IH.
    cbn [map ints_of all_some]. rewrite fold_clause_nref. cbn [nreval]. rewrite IH. unfold nloc.
    destruct (nreval rho None (fcond f)) as [[z|[|]|z]|]; cbn; try reflexivity.
    destruct (nreval rho None start) as [[a|a|a]|]; cbn; try reflexivity;
      destruct (nreval rho None size) as [[b|b|b]|]; cbn; reflexivity. }
  cbn [nreval map ints_of]. rewrite E. destruct (all_some (nends rho fs)); reflexivity.
Qed.

Lemma nsize_field_shape d : size_field_ok d = true ->
  exists f x, nth_error (fields d) (size_field d) = Some f /\ fcond f = XK (VBool true) /\
              fbody_of f = Virt x None /\
              forall r, nreval r None x = option_map VInt (nsize d r).
Proof.
  intros Hsize. unfold size_field_ok in Hsize. destruct (nth_error (fields d) (size_field d)) as [f|]; [|discriminate].
  exists f.
  destruct (fcond f) as [[z|[|]|z]| | | | | | | | | | | |]; try discriminate.
  destruct (fbody_of f) as [| x [q|] | |]; try discriminate.
  exists x. apply vx_same_eq in Hsize. subst x. repeat split. intros r. apply synth_size_nref.
Qed.

(* ---------- storage objects and windows ---------- *)
Definition win_of (bytes : list Z) (st : storage) : window :=
  match st with
  | SB None => WNone
  | SB (Some (o, l)) => WBytes o l
  | SBit b bo nbits _ _ _ ok => if ok then WBits (container_value bytes b bo nbits) nbits else WNone
  end.

(* the storage a structure with addressable unit u is handed in the class: a byte buffer, or a BitBlock
   over the whole container (an OffsetBitBlock only as the null storage of a default-constructed view) *)
Definition st_for (u : Z) (st : storage) : Prop :=
  match st with
  | SB _ => u = 8
  | SBit _ _ nbits direct bitoff bitsize ok =>
      u = 1 /\ (ok = true -> direct = true /\ bitoff = 0 /\ bitsize = nbits /\ 0 < nbits <= 64)
  end.

Lemma bits_extract x a b : 0 <= a -> 0 <= b -> (x mod 2 ^ (a + b)) / 2 ^ a = (x / 2 ^ a) mod 2 ^ b.
Proof.
  intros Ha Hb. rewrite Z.pow_add_r by assumption.
  assert (H1 : 0 < 2 ^ a) by (apply Z.pow_pos_nonneg; lia).
  assert (H2 : 0 < 2 ^ b) by (apply Z.pow_pos_nonneg; lia).
  rewrite Z.rem_mul_r by lia.
  rewrite (Z.mul_comm (2 ^ a)), Z.div_add by lia.
  rewrite (Z.div_small (x mod 2 ^ a)) by (apply Z.mod_pos_bound; lia). reflexivity.
Qed.

Lemma leaf_if h (ok : bool) (v : value) :
  RN h (if ok then Some v else None) ok false None [] = leaf h (if ok then Some v else None).
Proof. destruct ok; reflexivity. Qed.

(* a scalar of a byte structure: the clamp of GetOffsetStorage against "the bytes lie in the window" *)
Lemma scalar_bytes m bytes f' k kbits bo ps pinit rq e b off s :
  0 < s -> 8 * s = kbits -> 0 <= off ->
  node_of (eval_type m bytes (S f') 8 (FScalar k kbits bo) ps pinit (SB (bstore_offset b off s)) rq e)
  = leaf None (nchecked (enode e) rq (nscalar bytes (win_of bytes (SB b)) k kbits bo off s)).
Proof.
  intros Hs Hk Ho. cbn [eval_type]. change (8 =? 8) with true. cbn iota.
  destruct b as [[o l]|].
  - cbn [bstore_offset win_of nscalar].
    unfold mk_bitblock, bitblock_ok, orderer_size. cbn [bstore_ok bstore_size storage_ok storage_size raw_read andb].
    unfold container_value.
    assert (Hd : kbits / 8 = s) by (subst kbits; rewrite Z.mul_comm; apply Z.div_mul; lia).
    rewrite Hd. unfold window_uint.
    set (raw := match bo with BE => be_value bytes (o + off) (Z.to_nat s) 0 | _ => le_value bytes (o + off) (Z.to_nat s) end).
    assert (Hc : ((if l <? off then 0 else Z.min s (l - off)) * 8 =? kbits) = ((0 <=? off) && (0 <=? s) && (off + s <=? l))).
    { destruct (l <? off) eqn:E; lia. }
    rewrite Hc. cbn [node_of]. rewrite requires_ok_enode.
    destruct ((0 <=? off) && (0 <=? s) && (off + s <=? l)) eqn:Er; cbn [andb].
    + replace (kbits <=? kbits) with true by lia. cbn [andb]. rewrite leaf_if. f_equal.
      unfold decode_checked, nchecked.
      destruct k; cbn [andb]; try (destruct (nholds (enode e) rq _); reflexivity).
      destruct (is_bcd 16 raw); cbn [andb]; [|reflexivity]. destruct (nholds (enode e) rq _); reflexivity.
    + reflexivity.
  - cbn. reflexivity.
Qed.

(* a scalar inside a bits block: the OffsetBitBlock against "the bits lie in the container" *)
Lemma scalar_bits m bytes f' k kbits bo ps pinit rq e b bo' nbits off s :
  0 < s -> s = kbits -> s <= 64 -> 0 <= off -> 0 < nbits <= 64 ->
  node_of (eval_type m bytes (S f') 1 (FScalar k kbits bo) ps pinit
                     (get_offset (SBit b bo' nbits true 0 nbits true) off s) rq e)
  = leaf None (nchecked (enode e) rq
                 (nscalar bytes (WBits (container_value bytes b bo' nbits) nbits) k kbits bo off s)).
Proof.
  intros Hs Hk Hs64 Ho Hn. cbn [eval_type get_offset]. change (1 =? 8) with false. cbn iota.
  cbn [storage_ok storage_size raw_read nscalar andb].
  set (cv := container_value bytes b bo' nbits).
  rewrite requires_ok_enode. cbn [node_of].
  assert (Hsm : s mod 256 = s) by (apply Z.mod_small; lia).
  rewrite Hsm.
  destruct ((0 <=? off) && (0 <=? s) && (off + s <=? nbits)) eqn:Er.
  - assert (Hom : off mod 256 = off) by (apply Z.mod_small; lia).
    rewrite Hom. rewrite bits_extract by lia.
    set (raw := (cv / 2 ^ off) mod 2 ^ s).
    replace ((off <? 256) && (s <? 256) && (off + s <=? nbits)) with true by lia.
    replace (kbits <=? s) with true by lia. cbn [andb]. rewrite leaf_if. f_equal.
    unfold decode_checked, nchecked.
    destruct k; cbn [andb]; try (destruct (nholds (enode e) rq _); reflexivity).
    destruct (is_bcd 16 raw); cbn [andb]; [|reflexivity]. destruct (nholds (enode e) rq _); reflexivity.
  - replace ((off <? 256) && (s <? 256) && (off + s <=? nbits)) with false by lia.
    cbn [andb]. reflexivity.
Qed.

(* a scalar view over storage that is not Ok() reads nothing *)
Lemma scalar_dead m bytes f' u k kbits bo ps pinit rq e st :
  storage_ok st = false ->
  node_of (eval_type m bytes (S f') u (FScalar k kbits bo) ps pinit st rq e) = leaf None None.
Proof.
  intros H. cbn [eval_type]. destruct st as [[[o l]|]|b bo' nb dr bo2 bs okk]; cbn in H; try discriminate.
  - destruct (u =? 8); cbn; reflexivity.
  - subst okk. destruct (u =? 8); cbn; reflexivity.
Qed.

Lemma get_offset_dead st off s : storage_ok st = false -> storage_ok (get_offset st off s) = false.
Proof.
  destruct st as [[[o l]|]|b bo' nb dr bo2 bs okk]; cbn; try discriminate; try reflexivity.
  intros ->. destruct dr; cbn; rewrite andb_false_r; reflexivity.
Qed.

Lemma locate_spec st e has ak start size :
  locate st e has ak start size =
  match has, as_int (nreval (enode e) None start), as_int (nreval (enode e) None size) with
  | Some true, Some off, Some sz => if ak && (0 <=? sz) && (0 <=? off) then Some (get_offset st off sz) else None
  | _, _, _ => None
  end.
Proof.
  unfold locate. rewrite !m_z_enode.
  destruct has as [[|]|]; cbn [value_or_false]; rewrite ?andb_false_r;
    destruct ak; cbn [andb];
    destruct (as_int (nreval (enode e) None size)), (as_int (nreval (enode e) None start)); reflexivity.
Qed.

(* ---------- one step of the generated code's evaluation is the reference's equation ---------- *)
Definition popt (pinit : bool) (ps : list (maybe value)) : option (list (option value)) :=
  if pinit then Some ps else None.

(* the statement proved by induction on the nesting depth *)
Definition inner_agrees (m : module) (bytes : list Z) (n : nat) : Prop :=
  forall fuel tid d' ps pinit st,
    nth_error m tid = Some d' -> wf_ref_n m n d' = true -> (2 * n <= fuel)%nat -> st_for (unit_bits d') st ->
    node_of (eval_struct m bytes fuel d' ps pinit st) = ref_struct m bytes n tid (popt pinit ps) (win_of bytes st).

Lemma nscalar_neg bytes w k kbits bo off s : off < 0 -> nscalar bytes w k kbits bo off s = None.
Proof. intros H. unfold nscalar. destruct w; try reflexivity; replace (0 <=? off) with false by lia; reflexivity. Qed.

Section NStep.
  Variable m : module.
  Variable bytes : list Z.
  Variable n : nat.
  Hypothesis IH : inner_agrees m bytes n.
  Variable d : sdef.
  Variable ps : list (maybe value).
  Variable pinit : bool.
  Variable st : storage.
  Hypothesis Hst : st_for (unit_bits d) st.
  Hypothesis Hsize : size_field_ok d = true.
  Let w := win_of bytes st.
  Let inner := ref_struct m bytes n.

  Lemma scalar_located f'' k kbits bo ps' pinit' rq e off s :
    kind_ok k && (0 <? s) && (if unit_bits d =? 8 then 8 * s =? kbits else (s =? kbits) && (s <=? 64)) = true ->
    0 <= off ->
    node_of (eval_type m bytes (S f'') (unit_bits d) (FScalar k kbits bo) ps' pinit' (get_offset st off s) rq e)
    = leaf None (nchecked (enode e) rq (nscalar bytes w k kbits bo off s)).
  Proof.
    intros Hsh Ho. subst w. destruct st as [b|b bo' nb dr boff bsz okk]; cbn in Hst.
    - rewrite Hst in *. change (8 =? 8) with true in Hsh. cbn [get_offset].
      apply scalar_bytes; lia.
    - destruct Hst as [Hu Hk]. rewrite Hu in *. change (1 =? 8) with false in Hsh.
      destruct okk.
      + destruct (Hk eq_refl) as (-> & -> & -> & Hn). cbn [win_of]. apply scalar_bits; lia.
      + rewrite scalar_dead by (apply get_offset_dead; reflexivity). reflexivity.
  Qed.

  Lemma struct_located f'' tid args adapt d' argvals rq e b off sz :
    (2 * n <= f'')%nat -> nth_error m tid = Some d' -> wf_ref_n m n d' = true ->
    match adapt with
    | None => unit_bits d' =? 8
    | Some (nb, _) => (unit_bits d' =? 1) && (0 <? nb) && (nb <=? 64)
    end = true ->
    0 <= sz -> 0 <= off ->
    node_of (eval_type m bytes (S f'') 8 (FStruct tid args adapt) argvals true (SB (bstore_offset b off sz)) rq e)
    = inner tid (Some argvals) (sub_window bytes (win_of bytes (SB b)) off sz adapt).
  Proof.
    intros Hf Hd' Hwf Had Hsz Hoff. cbn [eval_type]. rewrite Hd'. subst inner.
    destruct adapt as [[nb bo]|].
    - rewrite (IH f'' tid d' argvals true _ Hd' Hwf Hf).
      + cbn [popt]. f_equal. unfold mk_bitblock, bitblock_ok, orderer_size.
        destruct b as [[o l]|]; cbn [bstore_offset bstore_ok bstore_size win_of sub_window andb]; [|reflexivity].
        replace (Z.max 0 (Z.min sz (l - off))) with (if l <? off then 0 else Z.min sz (l - off))
          by (destruct (l <? off) eqn:E; lia).
        set (avail := if l <? off then 0 else Z.min sz (l - off)).
        destruct (avail * 8 =? nb) eqn:Ea; [|reflexivity].
        f_equal. unfold container_value, window_uint.
        replace (nb / 8) with avail; [reflexivity|].
        assert (nb = avail * 8) by lia. subst nb. symmetry. apply Z.div_mul. lia.
      + unfold mk_bitblock. cbn. split; [lia|]. intros _. repeat split; lia.
    - rewrite (IH f'' tid d' argvals true _ Hd' Hwf Hf).
      + cbn [popt]. f_equal.
        destruct b as [[o l]|]; cbn [bstore_offset win_of sub_window]; [|reflexivity].
        f_equal. destruct (l <? off) eqn:E; lia.
      + cbn. lia.
  Qed.

  Lemma struct_default f'' tid args adapt d' rq e :
    (2 * n <= f'')%nat -> nth_error m tid = Some d' -> wf_ref_n m n d' = true ->
    match adapt with
    | None => unit_bits d' =? 8
    | Some (nb, _) => (unit_bits d' =? 1) && (0 <? nb) && (nb <=? 64)
    end = true ->
    node_of (eval_type m bytes (S f'') 8 (FStruct tid args adapt) [] false (null_of (FStruct tid args adapt) m) rq e)
    = inner tid None WNone.
  Proof.
    intros Hf Hd' Hwf Had. cbn [eval_type null_of]. rewrite Hd'. subst inner.
    destruct adapt as [[nb bo]|].
    - assert (Hu : unit_bits d' = 1) by lia. rewrite Hu. change (1 =? 8) with false. cbn iota.
      rewrite (IH f'' tid d' [] false _ Hd' Hwf Hf); [reflexivity|].
      cbn. split; [exact Hu|discriminate].
    - assert (Hu : unit_bits d' = 8) by lia. rewrite Hu. change (8 =? 8) with true. cbn iota.
      rewrite (IH f'' tid d' [] false _ Hd' Hwf Hf); [reflexivity|].
      cbn. exact Hu.
  Qed.

  Lemma nstep f'' e i fld :
    (2 * n <= f'')%nat ->
    nth_error (fields d) i = Some fld -> nshape m (wf_ref_n m n) (unit_bits d) fld = true ->
    exists g, vstep m bytes (S f'') d ps pinit st e i = set_nth e i (Some g) /\
              node_of g = ndenote inner d (popt pinit ps) bytes w (enode e) i fld.
  Proof.
    intros Hf Hfld Hsh. unfold vstep. rewrite Hfld. eexists. split; [reflexivity|].
    rewrite m_bool_enode. unfold ndenote.
    destruct (Nat.eqb i (size_field d)) eqn:Ei.
    { apply Nat.eqb_eq in Ei. subst i. destruct (nsize_field_shape d Hsize) as (f0 & x & Hf0 & Hc0 & Hb0 & Hx).
      rewrite Hfld in Hf0. inversion Hf0; subst f0. rewrite Hb0, Hc0. rewrite meval_enode, Hx.
      cbn [nreval as_bool]. destruct (nsize d (enode e)) as [z|]; reflexivity. }
    unfold nshape in Hsh.
    destruct (fbody_of fld) as [start size ty rq | rd rq | p aty | pi] eqn:Eb.
    - destruct ty as [k kbits bo | tid args adapt | el esz]; [| |discriminate].
      + (* scalar *)
        destruct size as [[s|?|?]| | | | | | | | | | | |]; try discriminate.
        assert (Hs : 0 < s) by lia.
        cbn [args_of map forallb]. rewrite locate_spec. unfold nloc. cbn [nreval as_int].
        change (null_of (FScalar k kbits bo) m) with (SB None).
        destruct (as_bool (nreval (enode e) None (fcond fld))) as [[|]|];
          try (rewrite node_of_with_has, scalar_dead by reflexivity;
               destruct (as_int (nreval (enode e) None start)); reflexivity).
        destruct (as_int (nreval (enode e) None start)) as [off|];
          [|rewrite node_of_with_has, scalar_dead by reflexivity; reflexivity].
        replace (0 <=? s) with true by lia. cbn [andb].
        destruct (0 <=? off) eqn:Eo.
        * rewrite node_of_with_has, (scalar_located f'' k kbits bo [] true rq e off s Hsh) by lia. reflexivity.
        * rewrite node_of_with_has, scalar_dead by reflexivity. rewrite nscalar_neg by lia. reflexivity.
      + (* structure *)
        apply andb_prop in Hsh. destruct Hsh as [Hu Hsh].
        assert (Hu8 : unit_bits d = 8) by lia.
        destruct (nth_error m tid) as [d'|] eqn:Ed'; [|discriminate].
        apply andb_prop in Hsh. destruct Hsh as [Hwf Had].
        assert (Had' : match adapt with
                       | None => unit_bits d' =? 8
                       | Some (nb, _) => (unit_bits d' =? 1) && (0 <? nb) && (nb <=? 64)
                       end = true).
        { destruct adapt as [[nb bo]|]; [|exact Had]. apply andb_prop in Had. destruct Had as [Had _]. exact Had. }
        subst w. destruct st as [b|b bo' nb dr boff bsz okk]; cbn in Hst; [|lia].
        rewrite Hu8. cbn [args_of]. rewrite locate_spec. unfold nloc.
        assert (Ea : map (meval e None) args = map (nreval (enode e) None) args).
        { apply map_ext. intros a. apply meval_enode. }
        rewrite Ea. set (argvals := map (nreval (enode e) None) args).
        change (forallb known argvals) with (forallb is_some argvals).
        destruct (as_bool (nreval (enode e) None (fcond fld))) as [[|]|];
          try (rewrite node_of_with_has, (struct_default f'' tid args adapt d' rq e Hf Ed' Hwf Had');
               destruct (as_int (nreval (enode e) None start)); reflexivity).
        destruct (as_int (nreval (enode e) None start)) as [off|];
          [|rewrite node_of_with_has, (struct_default f'' tid args adapt d' rq e Hf Ed' Hwf Had'); reflexivity].
        destruct (as_int (nreval (enode e) None size)) as [sz|];
          [|rewrite node_of_with_has, (struct_default f'' tid args adapt d' rq e Hf Ed' Hwf Had'); reflexivity].
        destruct (forallb is_some argvals && (0 <=? sz) && (0 <=? off)) eqn:Eloc.
        * cbn [get_offset]. rewrite node_of_with_has.
          rewrite (struct_located f'' tid args adapt d' argvals rq e b off sz Hf Ed' Hwf Had') by lia. reflexivity.
        * rewrite node_of_with_has, (struct_default f'' tid args adapt d' rq e Hf Ed' Hwf Had'). reflexivity.
    - (* virtual field *)
      destruct (fcond fld) as [[z|[|]|z]| | | | | | | | | | | |]; try discriminate.
      cbn [nreval as_bool]. rewrite meval_enode.
      destruct (nreval (enode e) None rd) as [vv|]; [|reflexivity].
      rewrite requires_ok_enode. cbn [nchecked]. destruct (nholds (enode e) rq vv); reflexivity.
    - (* alias *)
      destruct p as [|j p']; [discriminate|]. destruct aty as [k kbits bo| |]; try discriminate.
      change (null_of (FScalar k kbits bo) m) with (SB None).
      destruct (as_bool (nreval (enode e) None (fcond fld))) as [[|]|]; cbn [value_or_false].
      + rewrite <- lookup_enode. destruct (lookup e (j :: p')) as [r|]; cbn [onode].
        * apply node_of_with_has.
        * rewrite node_of_with_has, scalar_dead by reflexivity. reflexivity.
      + rewrite node_of_with_has, scalar_dead by reflexivity. reflexivity.
      + rewrite node_of_with_has, scalar_dead by reflexivity. reflexivity.
    - (* parameter *)
      destruct pinit; cbn [popt is_some].
      + rewrite <- nth_error_nth_none. unfold maybe in *.
        destruct (nth_error ps pi) as [[v|]|]; reflexivity.
      + reflexivity.
  Qed.
End NStep.

(* ---------- a field's equation depends only on the fields it mentions ---------- *)
Lemma ndenote_ext inner d params bytes w rho rho' ok i f :
  (forall k, ok k = true -> nget rho k = nget rho' k) ->
  size_field_ok d = true -> nth_error (fields d) i = Some f ->
  nfield_refs_in ok f = true ->
  ndenote inner d params bytes w rho i f = ndenote inner d params bytes w rho' i f.
Proof.
  intros Hsame Hsz Hf Hr. unfold nfield_refs_in in Hr. apply andb_prop in Hr. destruct Hr as [Hc Hb].
  unfold ndenote. rewrite (nreval_ext rho rho' ok Hsame None _ Hc).
  destruct (Nat.eqb i (size_field d)) eqn:Ei.
  - apply Nat.eqb_eq in Ei. subst i. destruct (nsize_field_shape d Hsz) as (f0 & x & Hf0 & _ & Hb0 & Hx).
    rewrite Hf in Hf0. inversion Hf0; subst f0. rewrite Hb0 in Hb. apply andb_prop in Hb. destruct Hb as [Hb _].
    rewrite <- !Hx. rewrite (nreval_ext rho rho' ok Hsame None x Hb). reflexivity.
  - destruct (fbody_of f) as [start size ty rq | rd rq | p aty | pi].
    + repeat match goal with
             | H : _ && _ = true |- _ => apply andb_prop in H; destruct H
             end.
      unfold nloc. rewrite (nreval_ext rho rho' ok Hsame None start), (nreval_ext rho rho' ok Hsame None size) by assumption.
      destruct ty as [k kbits bo| tid args adapt |]; try reflexivity.
      * destruct (as_bool (nreval rho' None (fcond f))) as [[|]|]; try reflexivity.
        destruct (as_int (nreval rho' None start)); try reflexivity.
        destruct (as_int (nreval rho' None size)); try reflexivity.
        rewrite (nchecked_ext rho rho' ok Hsame rq _ ltac:(assumption)). reflexivity.
      * cbn [targs] in *. rewrite (map_nreval_ext rho rho' ok Hsame args) by assumption. reflexivity.
    + apply andb_prop in Hb. destruct Hb as [H1 H2].
      rewrite (nreval_ext rho rho' ok Hsame None rd H1), (nchecked_ext rho rho' ok Hsame rq _ H2). reflexivity.
    + destruct p as [|j p']; [discriminate|].
      rewrite (nlookup_ext rho rho' ok Hsame (j :: p') Hb). reflexivity.
    + reflexivity.
Qed.

Lemma nround_from_nth inner d params bytes w r : forall fs k i,
  nth_error (nround_from inner d params bytes w r k fs) i = option_map (ndenote inner d params bytes w r (k + i)) (nth_error fs i).
Proof.
  induction fs as [|f t IH]; intros k [|i]; cbn; try reflexivity.
  - rewrite Nat.add_0_r. reflexivity.
  - rewrite IH. rewrite Nat.add_succ_r. reflexivity.
Qed.

Lemma nround_from_length inner d params bytes w r : forall fs k,
  length (nround_from inner d params bytes w r k fs) = length fs.
Proof. induction fs as [|f t IH]; intros k; cbn; [reflexivity|]. rewrite IH. reflexivity. Qed.

Lemma wf_ref_n_parts m n d : wf_ref_n m (S n) d = true ->
  (unit_bits d = 8 \/ unit_bits d = 1) /\
  forallb (nshape m (wf_ref_n m n) (unit_bits d)) (fields d) = true /\
  ndeps_ok (fields d) [] (order d) = true /\
  forallb (fun i => mem i (order d)) (seq 0 (length (fields d))) = true /\
  (length (order d) <=? length (fields d))%nat = true /\
  size_field_ok d = true /\
  onrefs_in (fun k => (k <? length (fields d))%nat) (srequires d) = true.
Proof.
  cbn [wf_ref_n]. intros H.
  repeat match goal with
         | H : _ && _ = true |- _ => apply andb_prop in H; destruct H
         end.
  repeat split; try assumption. lia.
Qed.

Lemma norder_bound d : forall ord done, ndeps_ok (fields d) done ord = true ->
  forall i, In i ord -> (i < length (fields d))%nat.
Proof.
  induction ord as [|j t IH]; intros done Hd i Hi; [contradiction|].
  cbn [ndeps_ok] in Hd. apply andb_prop in Hd. destruct Hd as [Hj Ht].
  destruct Hi as [->|Hi]; [|eapply IH; eassumption].
  apply nth_error_Some. destruct (nth_error (fields d) i); [discriminate|discriminate].
Qed.

Lemma field_test_node e i : field_test e i = node_fine (nget (enode e) i).
Proof.
  unfold field_test, node_fine. rewrite nget_enode.
  destruct (nth_error e i) as [[r|]|]; cbn [onode]; try reflexivity.
  rewrite node_of_eq. reflexivity.
Qed.

(* ---------- the structure view against the reference, one nesting level ---------- *)
Section NAgree.
  Variable m : module.
  Variable bytes : list Z.
  Variable n : nat.
  Hypothesis IH : inner_agrees m bytes n.
  Variable d : sdef.
  Variable ps : list (maybe value).
  Variable pinit : bool.
  Variable st : storage.
  Hypothesis Hst : st_for (unit_bits d) st.
  Hypothesis Hwf : wf_ref_n m (S n) d = true.
  Let w := win_of bytes st.
  Let inner := ref_struct m bytes n.
  Let params := popt pinit ps.
  Variable rho : nassign.
  Hypothesis Hmodel : is_nref_model inner d params bytes w rho.

  Lemma nmodel_eq i f : nth_error (fields d) i = Some f -> nget rho i = ndenote inner d params bytes w rho i f.
  Proof.
    intros H. unfold nget. apply nth_error_nth. unfold is_nref_model, nround in Hmodel.
    rewrite <- Hmodel at 1. rewrite nround_from_nth, H. reflexivity.
  Qed.

  Lemma nmodel_length : length rho = length (fields d).
  Proof.
    pose proof (f_equal (@length _) Hmodel) as H. unfold nround in H. rewrite nround_from_length in H.
    symmetry. exact H.
  Qed.

  Lemma nfold f'' : (2 * n <= f'')%nat -> forall ord done e,
    length e = length (fields d) ->
    (forall k, mem k done = true -> nget (enode e) k = nget rho k) ->
    ndeps_ok (fields d) done ord = true ->
    length (fold_left (vstep m bytes (S f'') d ps pinit st) ord e) = length (fields d) /\
    forall k, mem k (rev ord ++ done) = true ->
              nget (enode (fold_left (vstep m bytes (S f'') d ps pinit st) ord e)) k = nget rho k.
  Proof.
    intros Hf. destruct (wf_ref_n_parts m n d Hwf) as (_ & Hshape & _ & _ & _ & Hsz & _).
    induction ord as [|i t IHo]; intros done e Hl He Hd; [split; assumption|].
    cbn [ndeps_ok] in Hd. apply andb_prop in Hd. destruct Hd as [Hi Ht].
    destruct (nth_error (fields d) i) as [fld|] eqn:Ef; [|discriminate].
    assert (Hsh : nshape m (wf_ref_n m n) (unit_bits d) fld = true).
    { rewrite forallb_forall in Hshape. apply Hshape. eapply nth_error_In; exact Ef. }
    destruct (nstep m bytes n IH d ps pinit st Hst Hsz f'' e i fld Hf Ef Hsh) as (g & Hstep & Hg).
    cbn [fold_left]. rewrite Hstep.
    assert (Hil : (i < length e)%nat).
    { rewrite Hl. apply nth_error_Some. congruence. }
    destruct (IHo (i :: done) (set_nth e i (Some g))) as [H1 H2].
    - rewrite set_nth_length. exact Hl.
    - intros k Hk. unfold mem in Hk. cbn [existsb] in Hk. apply orb_prop in Hk.
      rewrite nget_enode.
      destruct (Nat.eq_dec i k) as [->|Hne].
      + rewrite nth_error_set_nth_eq by exact Hil. cbn [onode]. rewrite Hg.
        fold inner params w. rewrite (nmodel_eq k fld Ef).
        apply (ndenote_ext inner d params bytes w (enode e) rho (fun k0 => mem k0 done)); assumption.
      + destruct Hk as [Hk|Hk]; [apply Nat.eqb_eq in Hk; congruence|].
        rewrite nth_error_set_nth_ne by exact Hne. rewrite <- nget_enode. apply He. exact Hk.
    - exact Ht.
    - split; [exact H1|]. cbn [rev]. rewrite <- app_assoc. exact H2.
  Qed.

  Definition ngen_env (f'' : nat) : env :=
    fold_left (vstep m bytes (S f'') d ps pinit st) (order d) (map (fun _ => None) (fields d)).

  Lemma ngen_env_is_ref f'' : (2 * n <= f'')%nat ->
    length (ngen_env f'') = length (fields d) /\ enode (ngen_env f'') = rho.
  Proof.
    intros Hf. destruct (wf_ref_n_parts m n d Hwf) as (_ & _ & Hdeps & Hcover & _ & _ & _).
    destruct (nfold f'' Hf (order d) [] (map (fun _ => None) (fields d))) as [H1 H2].
    - apply map_length.
    - intros k Hk. discriminate.
    - exact Hdeps.
    - split; [exact H1|]. apply (nth_ext _ _ n_undef n_undef).
      + rewrite enode_length, nmodel_length. exact H1.
      + intros k Hk. rewrite enode_length in Hk. apply H2. apply mem_In. apply in_or_app. left.
        apply -> in_rev. rewrite forallb_forall in Hcover. apply mem_In. apply Hcover. apply in_seq.
        unfold ngen_env in Hk. rewrite H1 in Hk. lia.
  Qed.

  Theorem nstruct_agrees f'' : (2 * n <= f'')%nat ->
    node_of (eval_struct m bytes (S (S f'')) d ps pinit st) = nsummary d params w rho.
  Proof.
    intros Hf. rewrite eval_struct_S. fold (ngen_env f''). destruct (ngen_env_is_ref f'' Hf) as [Hlen Henv].
    destruct (wf_ref_n_parts m n d Hwf) as (_ & _ & Hdeps & Hcover & _ & Hsz & Hreq).
    set (e := ngen_env f'') in *. unfold finish, nsummary.
    destruct (nsize_field_shape d Hsz) as (f0 & x0 & Hf0 & Hc0 & Hb0 & _).
    assert (Hlt : (size_field d < length (fields d))%nat) by (apply nth_error_Some; congruence).
    assert (Hisz : isize_of d e = nsize d rho).
    { transitivity (as_int (n_value (nget (enode e) (size_field d)))).
      - unfold isize_of. rewrite nget_enode. destruct (nth_error e (size_field d)) as [[r|]|]; try reflexivity.
        cbn [onode]. rewrite node_of_eq. cbn [n_value]. destruct (fr_ok r); reflexivity.
      - rewrite Henv, (nmodel_eq _ _ Hf0). unfold ndenote. rewrite Nat.eqb_refl.
        destruct (nsize d rho); reflexivity. }
    assert (Hcomp : storage_ok st && match isize_of d e with Some z => z <=? storage_size st | None => false end
                    = ncomplete d w rho).
    { rewrite Hisz. unfold ncomplete, window_units. subst w.
      destruct st as [[[o l]|]|b bo nb dr boff bsz okk]; cbn [storage_ok storage_size win_of bstore_ok bstore_size andb].
      - reflexivity.
      - destruct (nsize d rho); reflexivity.
      - cbn in Hst. destruct Hst as [_ Hk]. destruct okk; cbn [andb].
        + destruct (Hk eq_refl) as (-> & _ & -> & _). reflexivity.
        + destruct (nsize d rho); reflexivity. }
    assert (Hfields : forallb (field_test e) (order d) = forallb node_fine rho).
    { apply Bool.eq_iff_eq_true. rewrite !forallb_forall. split.
      - intros H r Hr. destruct (In_nth _ _ n_undef Hr) as (i & Hi & <-).
        rewrite nmodel_length in Hi. fold (nget rho i). rewrite <- Henv, <- field_test_node. apply H.
        rewrite forallb_forall in Hcover. apply mem_In. apply Hcover. apply in_seq. lia.
      - intros H i Hi. pose proof (norder_bound d _ _ Hdeps i Hi) as Hlt'.
        rewrite field_test_node, Henv. apply H. unfold nget. apply nth_In. rewrite nmodel_length. exact Hlt'. }
    assert (Hrq : match srequires d with None => true | Some x => value_or_false (m_bool (meval e None x)) end =
                  match srequires d with None => true
                  | Some x => match nreval rho None x with Some (VBool true) => true | _ => false end end).
    { destruct (srequires d) as [x|]; [|reflexivity]. rewrite meval_enode, Henv.
      destruct (nreval rho None x) as [[z|[|]|z]|]; reflexivity. }
    rewrite Hcomp, Hfields, Hrq, Hisz. rewrite node_of_eq.
    cbn [fr_has fr_ok fr_val fr_sub fr_scomplete fr_ssize]. rewrite Henv.
    assert (Hne : e <> []).
    { intros E. rewrite E in Hlen. cbn in Hlen. lia. }
    destruct e as [|e0 e']; [congruence|].
    unfold nok. subst params. destruct pinit; cbn [popt is_some];
      match goal with |- RN _ (if ?b then _ else _) _ _ _ _ = _ => destruct b end; reflexivity.
  Qed.
End NAgree.

(* ---------- the reference exists: iterating the equations reaches a solution ---------- *)
Section NSolve.
  Variable inner : nat -> option (list (option value)) -> window -> rnode.
  Variable d : sdef.
  Variable ps : option (list (option value)).
  Variable bytes : list Z.
  Variable w : window.
  Hypothesis Hsz : size_field_ok d = true.

  Let bot : nassign := map (fun _ => n_undef) (fields d).
  Let it (t : nat) : nassign := niterate inner d ps bytes w t bot.

  Lemma nit_S t : it (S t) = nround inner d ps bytes w (it t).
  Proof. reflexivity. Qed.

  Lemma nget_round r i f : nth_error (fields d) i = Some f ->
    nget (nround inner d ps bytes w r) i = ndenote inner d ps bytes w r i f.
  Proof.
    intros H. unfold nget, nround. apply nth_error_nth. rewrite nround_from_nth, H. reflexivity.
  Qed.

  Definition nstable_from (t : nat) (k : nat) : Prop := forall t', (t <= t')%nat -> nget (it t') k = nget (it t) k.

  Lemma nstable_later t t2 k : nstable_from t k -> (t <= t2)%nat -> nstable_from t2 k.
  Proof. intros H Hle t' Ht'. rewrite (H t') by lia. rewrite (H t2) by lia. reflexivity. Qed.

  Lemma nstable_order : forall ord done t0,
    ndeps_ok (fields d) done ord = true ->
    (forall k, mem k done = true -> nstable_from t0 k) ->
    forall k, In k ord -> nstable_from (t0 + length ord) k.
  Proof.
    induction ord as [|i t IH]; intros done t0 Hd Hdone k Hk; [contradiction|].
    cbn [ndeps_ok] in Hd. apply andb_prop in Hd. destruct Hd as [Hi Ht].
    destruct (nth_error (fields d) i) as [f|] eqn:Ef; [|discriminate].
    assert (Hst : nstable_from (S t0) i).
    { intros t' Ht'. destruct t' as [|t']; [lia|]. rewrite !nit_S, !(nget_round _ i f Ef).
      apply (ndenote_ext _ _ _ _ _ _ _ (fun k => mem k done)); try assumption.
      intros k0 Hk0. apply (Hdone k0 Hk0). lia. }
    cbn [length]. replace (t0 + S (length t))%nat with (S t0 + length t)%nat by lia.
    destruct Hk as [<-|Hk].
    - eapply nstable_later; [exact Hst|lia].
    - apply (IH (i :: done)); [exact Ht| |exact Hk].
      intros k0 Hk0. unfold mem in Hk0. cbn [existsb] in Hk0. apply orb_prop in Hk0. destruct Hk0 as [Hk0|Hk0].
      + apply Nat.eqb_eq in Hk0. subst k0. exact Hst.
      + eapply nstable_later; [apply Hdone; exact Hk0|lia].
  Qed.

  Lemma nit_length t : length (it t) = length (fields d).
  Proof. destruct t; [apply map_length|]. rewrite nit_S. apply nround_from_length. Qed.

  Theorem nsolve_is_model :
    ndeps_ok (fields d) [] (order d) = true ->
    forallb (fun i => mem i (order d)) (seq 0 (length (fields d))) = true ->
    (length (order d) <=? length (fields d))%nat = true ->
    is_nref_model inner d ps bytes w (nsolve inner d ps bytes w).
  Proof.
    intros Hdeps Hcover Hlen. unfold is_nref_model, nsolve. fold bot. fold (it (length (fields d))).
    rewrite <- nit_S. apply (nth_ext _ _ n_undef n_undef).
    - rewrite !nit_length. reflexivity.
    - intros k Hk. rewrite nit_length in Hk.
      assert (Hin : In k (order d)).
      { rewrite forallb_forall in Hcover. apply mem_In. apply Hcover. apply in_seq. lia. }
      pose proof (nstable_order (order d) [] 0%nat Hdeps ltac:(intros ? ?; discriminate) k Hin) as Hs.
      cbn [Nat.add] in Hs.
      assert (Hs2 : nstable_from (length (fields d)) k) by (eapply nstable_later; [exact Hs|lia]).
      apply (Hs2 (S (length (fields d)))). lia.
  Qed.
End NSolve.

Lemma nmodel_exists inner m n d ps bytes w :
  wf_ref_n m (S n) d = true -> is_nref_model inner d ps bytes w (nsolve inner d ps bytes w).
Proof.
  intros Hwf. destruct (wf_ref_n_parts m n d Hwf) as (_ & _ & H3 & H4 & H5 & H6 & _).
  apply nsolve_is_model; assumption.
Qed.

(* ---------- the induction on the nesting depth ---------- *)
Theorem nested_agrees m bytes : forall n, inner_agrees m bytes n.
Proof.
  induction n as [|n IH]; intros fuel tid d' ps pinit st Hd Hwf Hf Hst; [discriminate|].
  destruct fuel as [|[|f'']]; try lia.
  cbn [ref_struct]. rewrite Hd.
  apply (nstruct_agrees m bytes n IH d' ps pinit st Hst Hwf).
  - apply (nmodel_exists _ m n). exact Hwf.
  - lia.
Qed.

(* ---------- the result trees are fully evaluated (needed for the observation vector) ---------- *)
Lemma evaluated_S N g :
  evaluated (S N) g =
  (match fr_elems g with [] => true | _ :: _ => false end
   && match fr_sub g, fr_ssize g with [], Some _ => false | _, _ => true end
   && forallb (fun o => match o with Some g' => evaluated N g' | None => false end) (fr_sub g)).
Proof. destruct g; reflexivity. Qed.

Lemma evaluated_mono : forall N g, evaluated N g = true -> evaluated (S N) g = true.
Proof.
  induction N as [|N IH]; intros g H; [discriminate|].
  rewrite evaluated_S in H. rewrite (evaluated_S (S N)).
  apply andb_prop in H. destruct H as [H1 H2]. rewrite H1. cbn [andb].
  rewrite forallb_forall in *. intros o Ho. specialize (H2 o Ho). destruct o as [g'|]; [|discriminate].
  apply IH. exact H2.
Qed.

Lemma evaluated_le N N' g : (N <= N')%nat -> evaluated N g = true -> evaluated N' g = true.
Proof. induction 1; [auto|]. intros Hev. apply evaluated_mono. auto. Qed.

Lemma evaluated_with_has N h g : evaluated N (with_has h g) = evaluated N g.
Proof. destruct N, g; reflexivity. Qed.

Lemma lookup_evaluated : forall p e N r,
  (forall k g, nth_error e k = Some (Some g) -> evaluated N g = true) ->
  lookup e p = Some r -> evaluated N r = true.
Proof.
  induction p as [|i rest IH]; intros e N r He Hl; [discriminate|].
  destruct rest as [|j rest'].
  - cbn [lookup] in Hl. destruct (nth_error e i) as [o|] eqn:E; [|discriminate]. subst o. eapply He; exact E.
  - change (lookup e (i :: j :: rest'))
      with (match nth_error e i with Some (Some r) => lookup (fr_sub r) (j :: rest') | _ => None end) in Hl.
    destruct (nth_error e i) as [[r0|]|] eqn:E; try discriminate.
    pose proof (He _ _ E) as H0. destruct N as [|N]; [discriminate|].
    rewrite evaluated_S in H0. apply andb_prop in H0. destruct H0 as [_ H0].
    apply evaluated_mono. apply (IH (fr_sub r0) N r); [|exact Hl].
    intros k g Hk. rewrite forallb_forall in H0. apply (H0 (Some g)). eapply nth_error_In; exact Hk.
Qed.

Lemma nth_error_map_none {A B} (l : list A) : forall k (g : B),
  nth_error (map (fun _ => @None B) l) k = Some (Some g) -> False.
Proof. induction l as [|a t IH]; intros [|k] g H; cbn in H; try discriminate. eapply IH; exact H. Qed.

Definition inner_evaluated (m : module) (bytes : list Z) (n : nat) : Prop :=
  forall fuel tid d' ps pinit st,
    nth_error m tid = Some d' -> wf_ref_n m n d' = true -> (2 * n <= fuel)%nat ->
    evaluated (S n) (eval_struct m bytes fuel d' ps pinit st) = true.

Lemma scalar_evaluated N m bytes f u k kbits bo ps pinit st rq e :
  evaluated (S N) (eval_type m bytes (S f) u (FScalar k kbits bo) ps pinit st rq e) = true.
Proof. reflexivity. Qed.

Section NEval.
  Variable m : module.
  Variable bytes : list Z.
  Variable n : nat.
  Hypothesis IHe : inner_evaluated m bytes n.
  Variable d : sdef.
  Variable ps : list (maybe value).
  Variable pinit : bool.
  Variable st : storage.

  Lemma vstep_evaluated f'' e i fld :
    (2 * n <= f'')%nat ->
    nth_error (fields d) i = Some fld -> nshape m (wf_ref_n m n) (unit_bits d) fld = true ->
    (forall k g, nth_error e k = Some (Some g) -> evaluated (S n) g = true) ->
    exists g, vstep m bytes (S f'') d ps pinit st e i = set_nth e i (Some g) /\ evaluated (S n) g = true.
  Proof.
    intros Hf Hfld Hsh He. unfold vstep. rewrite Hfld. eexists. split; [reflexivity|].
    unfold nshape in Hsh.
    destruct (fbody_of fld) as [start size ty rq | rd rq | p aty | pi] eqn:Eb.
    - destruct ty as [k kbits bo | tid args adapt | el esz]; [| |discriminate].
      + destruct (locate st e _ _ start size); rewrite evaluated_with_has; apply scalar_evaluated.
      + apply andb_prop in Hsh. destruct Hsh as [_ Hsh].
        destruct (nth_error m tid) as [d'|] eqn:Ed'; [|discriminate].
        apply andb_prop in Hsh. destruct Hsh as [Hwf _].
        destruct (locate st e _ _ start size); rewrite evaluated_with_has; cbn [eval_type]; rewrite Ed';
          apply (IHe f'' tid d'); assumption.
    - reflexivity.
    - destruct aty as [k kbits bo| |]; try (destruct p; discriminate).
      destruct (if value_or_false (m_bool (meval e None (fcond fld))) then lookup e p else None) as [r|] eqn:El.
      + rewrite evaluated_with_has. destruct (value_or_false (m_bool (meval e None (fcond fld)))); [|discriminate].
        eapply lookup_evaluated; eassumption.
      + rewrite evaluated_with_has. apply scalar_evaluated.
    - reflexivity.
  Qed.

  Hypothesis Hwf : wf_ref_n m (S n) d = true.

  Lemma nfold_evaluated f'' : (2 * n <= f'')%nat -> forall ord done e,
    length e = length (fields d) ->
    (forall k g, nth_error e k = Some (Some g) -> evaluated (S n) g = true) ->
    (forall k, mem k done = true -> exists g, nth_error e k = Some (Some g)) ->
    ndeps_ok (fields d) done ord = true ->
    let e' := fold_left (vstep m bytes (S f'') d ps pinit st) ord e in
    length e' = length (fields d) /\
    (forall k g, nth_error e' k = Some (Some g) -> evaluated (S n) g = true) /\
    (forall k, mem k (rev ord ++ done) = true -> exists g, nth_error e' k = Some (Some g)).
  Proof.
    intros Hf. destruct (wf_ref_n_parts m n d Hwf) as (_ & Hshape & _).
    induction ord as [|i t IHo]; intros done e Hl He Hdone Hd; [cbn; auto|].
    cbn [ndeps_ok] in Hd. apply andb_prop in Hd. destruct Hd as [Hi Ht].
    destruct (nth_error (fields d) i) as [fld|] eqn:Ef; [|discriminate].
    assert (Hsh : nshape m (wf_ref_n m n) (unit_bits d) fld = true).
    { rewrite forallb_forall in Hshape. apply Hshape. eapply nth_error_In; exact Ef. }
    destruct (vstep_evaluated f'' e i fld Hf Ef Hsh He) as (g & Hstep & Hg).
    cbn [fold_left]. rewrite Hstep.
    assert (Hil : (i < length e)%nat).
    { rewrite Hl. apply nth_error_Some. congruence. }
    destruct (IHo (i :: done) (set_nth e i (Some g))) as (H1 & H2 & H3).
    - rewrite set_nth_length. exact Hl.
    - intros k g0 Hk. destruct (Nat.eq_dec i k) as [->|Hne].
      + rewrite nth_error_set_nth_eq in Hk by exact Hil. inversion Hk; subst g0. exact Hg.
      + rewrite nth_error_set_nth_ne in Hk by exact Hne. eapply He; exact Hk.
    - intros k Hk. unfold mem in Hk. cbn [existsb] in Hk. apply orb_prop in Hk.
      destruct (Nat.eq_dec i k) as [->|Hne].
      + exists g. apply nth_error_set_nth_eq. exact Hil.
      + destruct Hk as [Hk|Hk]; [apply Nat.eqb_eq in Hk; congruence|].
        rewrite nth_error_set_nth_ne by exact Hne. apply Hdone. exact Hk.
    - exact Ht.
    - split; [exact H1|]. split; [exact H2|]. cbn [rev]. rewrite <- app_assoc. exact H3.
  Qed.

  Lemma nstruct_evaluated f'' : (2 * n <= f'')%nat ->
    evaluated (S (S n)) (eval_struct m bytes (S (S f'')) d ps pinit st) = true.
  Proof.
    intros Hf. rewrite eval_struct_S. destruct (wf_ref_n_parts m n d Hwf) as (_ & _ & Hdeps & Hcover & _ & Hsz & _).
    destruct (nfold_evaluated f'' Hf (order d) [] (map (fun _ => None) (fields d))) as (H1 & H2 & H3).
    - apply map_length.
    - intros k g Hk. exfalso. eapply nth_error_map_none; exact Hk.
    - intros k Hk. discriminate.
    - exact Hdeps.
    - set (e := fold_left (vstep m bytes (S f'') d ps pinit st) (order d) (map (fun _ => None) (fields d))) in *.
      unfold finish. rewrite evaluated_S. cbn [fr_elems fr_sub fr_ssize].
      assert (Hne : e <> []).
      { destruct (nsize_field_shape d Hsz) as (f0 & x0 & Hf0 & _).
        assert (Hlt : (size_field d < length (fields d))%nat) by (apply nth_error_Some; congruence).
        intros E. rewrite E in H1. cbn in H1. lia. }
      destruct e as [|e0 e'] eqn:Ee; [congruence|]. cbn [andb]. rewrite <- Ee in *.
      apply forallb_forall. intros o Ho. destruct (In_nth_error _ _ Ho) as [k Hk].
      assert (Hkl : (k < length (fields d))%nat).
      { rewrite <- H1. apply nth_error_Some. congruence. }
      destruct (H3 k) as (g & Hg).
      + apply mem_In. apply in_or_app. left. apply -> in_rev. rewrite forallb_forall in Hcover.
        apply mem_In. apply Hcover. apply in_seq. lia.
      + rewrite Hk in Hg. inversion Hg; subst o. eapply H2; exact Hk.
  Qed.
End NEval.

Theorem nested_evaluated m bytes : forall n, inner_evaluated m bytes n.
Proof.
  induction n as [|n IH]; intros fuel tid d' ps pinit st Hd Hwf Hf; [discriminate|].
  destruct fuel as [|[|f'']]; try lia.
  apply (nstruct_evaluated m bytes n IH d' ps pinit st Hwf). lia.
Qed.

(* the observation vector of a fully evaluated tree is the one of the facts it holds *)
Lemma observe_node : forall N f g, evaluated N g = true -> (N <= f)%nat -> observe f g = obs_node (node_of g).
Proof.
  induction N as [|N IH]; intros f g He Hle; [discriminate|].
  destruct f as [|f]; [lia|]. rewrite evaluated_S in He.
  destruct g as [h ok v st sub sok sc ss els]. cbn [fr_elems fr_sub fr_ssize] in He.
  apply andb_prop in He. destruct He as [He Hsub]. apply andb_prop in He. destruct He as [Hels Hss].
  destruct els as [|? ?]; [|discriminate].
  cbn [observe node_of obs_node].
  assert (Hfm : flat_map (fun o => match o with Some r' => observe f r' | None => [-99] end) sub =
                flat_map obs_node (map (fun o => match o with Some g' => node_of g' | None => n_undef end) sub)).
  { clear Hss. induction sub as [|o t IHt]; [reflexivity|]. cbn [forallb] in Hsub. apply andb_prop in Hsub.
    destruct Hsub as [Ho Ht]. cbn [map flat_map]. rewrite (IHt Ht). destruct o as [g'|]; [|discriminate].
    rewrite (IH f g' Ho) by lia. reflexivity. }
  destruct sub as [|o t].
  - destruct ss; [discriminate|]. cbn [map]. destruct ok; [destruct v|]; reflexivity.
  - rewrite Hfm. cbn [map]. destruct ok; [destruct v|]; destruct ss; cbn; rewrite ?app_nil_r; reflexivity.
Qed.

(* ---------- the theorems ---------- *)
Theorem gen_agrees_with_ref_nested m tid d ps bytes n fuel :
  nth_error m tid = Some d -> wf_ref_n m n d = true -> unit_bits d = 8 -> (2 * n <= fuel)%nat ->
  node_of (eval_struct m bytes fuel d ps true (root bytes)) = ref_struct m bytes n tid (Some ps) (whole bytes).
Proof.
  intros Hd Hwf Hu Hf.
  apply (nested_agrees m bytes n fuel tid d ps true (root bytes) Hd Hwf Hf). exact Hu.
Qed.

Theorem gen_tree_evaluated m tid d ps bytes n fuel :
  nth_error m tid = Some d -> wf_ref_n m n d = true -> (2 * n <= fuel)%nat ->
  evaluated (S n) (eval_struct m bytes fuel d ps true (root bytes)) = true.
Proof. intros Hd Hwf Hf. apply (nested_evaluated m bytes n fuel tid d ps true (root bytes) Hd Hwf Hf). Qed.

Theorem gen_observations_are_ref_nested m tid d ps bytes n fuel :
  nth_error m tid = Some d -> wf_ref_n m n d = true -> unit_bits d = 8 -> (2 * n <= fuel)%nat ->
  run_view m tid ps bytes fuel = ref_observe_n m tid ps bytes n.
Proof.
  intros Hd Hwf Hu Hf. unfold run_view, ref_observe_n. rewrite Hd.
  change (SB (Some (0, Z.of_nat (length bytes)))) with (root bytes).
  transitivity (obs_node (node_of (eval_struct m bytes fuel d ps true (root bytes)))).
  - apply (observe_node (S n)).
    + apply (gen_tree_evaluated m tid d ps bytes n fuel Hd Hwf Hf).
    + destruct n; [discriminate|]. lia.
  - f_equal. apply (gen_agrees_with_ref_nested m tid d ps bytes n fuel Hd Hwf Hu Hf).
Qed.

(* the same against ANY solution of the top structure's equations *)
Theorem gen_agrees_with_nref_model m tid d ps bytes n fuel rho :
  nth_error m tid = Some d -> wf_ref_n m (S n) d = true -> unit_bits d = 8 -> (2 * S n <= fuel)%nat ->
  is_nref_model (ref_struct m bytes n) d (Some ps) bytes (whole bytes) rho ->
  node_of (eval_struct m bytes fuel d ps true (root bytes)) = nsummary d (Some ps) (whole bytes) rho.
Proof.
  intros Hd Hwf Hu Hf Hm. destruct fuel as [|[|f'']]; try lia.
  apply (nstruct_agrees m bytes n (nested_agrees m bytes n) d ps true (root bytes) Hu Hwf rho Hm). lia.
Qed.

(* the readable form: size, IsComplete, Ok, and every field hereditarily *)
Corollary gen_agrees_with_ref_nested_fields m tid d ps bytes n fuel :
  nth_error m tid = Some d -> wf_ref_n m n d = true -> unit_bits d = 8 -> (2 * n <= fuel)%nat ->
  let r := eval_struct m bytes fuel d ps true (root bytes) in
  let t := ref_struct m bytes n tid (Some ps) (whole bytes) in
  fr_ssize r = n_size t /\ fr_ok r = n_ok t /\ length (fr_sub r) = length (n_members t) /\
  forall i, (i < length (fr_sub r))%nat ->
    exists g, nth_error (fr_sub r) i = Some (Some g) /\ node_of g = nget (n_members t) i.
Proof.
  intros Hd Hwf Hu Hf r t.
  pose proof (gen_agrees_with_ref_nested m tid d ps bytes n fuel Hd Hwf Hu Hf) as H. fold r t in H.
  pose proof (gen_tree_evaluated m tid d ps bytes n fuel Hd Hwf Hf) as He. fold r in He.
  rewrite node_of_eq in H. rewrite <- H. cbn [n_size n_ok n_members].
  split; [reflexivity|]. split; [reflexivity|]. split; [symmetry; apply enode_length|].
  intros i Hi. rewrite evaluated_S in He. apply andb_prop in He. destruct He as [_ He].
  rewrite forallb_forall in He. destruct (nth_error (fr_sub r) i) as [o|] eqn:E.
  - specialize (He o (nth_error_In _ _ E)). destruct o as [g|]; [|discriminate].
    exists g. split; [reflexivity|]. rewrite nget_enode, E. reflexivity.
  - apply nth_error_None in E. lia.
Qed.

(* ---------- the reference exists and is unique ---------- *)
Theorem nref_model_exists inner m n d ps bytes w :
  wf_ref_n m (S n) d = true -> is_nref_model inner d ps bytes w (nsolve inner d ps bytes w).
Proof. apply nmodel_exists. Qed.

Theorem nref_model_unique inner m n d ps bytes w rho rho' :
  wf_ref_n m (S n) d = true ->
  is_nref_model inner d ps bytes w rho -> is_nref_model inner d ps bytes w rho' -> rho = rho'.
Proof.
  intros Hwf Hm Hm'. destruct (wf_ref_n_parts m n d Hwf) as (_ & _ & Hdeps & Hcover & _ & Hsz & _).
  assert (Heq : forall r, is_nref_model inner d ps bytes w r ->
                forall i f, nth_error (fields d) i = Some f -> nget r i = ndenote inner d ps bytes w r i f).
  { intros r Hr i f H. unfold nget. apply nth_error_nth. unfold is_nref_model, nround in Hr.
    rewrite <- Hr at 1. rewrite nround_from_nth, H. reflexivity. }
  assert (Hlen : forall r, is_nref_model inner d ps bytes w r -> length r = length (fields d)).
  { intros r Hr. pose proof (f_equal (@length _) Hr) as H. unfold nround in H. rewrite nround_from_length in H.
    symmetry. exact H. }
  assert (Hall : forall ord done, (forall k, mem k done = true -> nget rho k = nget rho' k) ->
                 ndeps_ok (fields d) done ord = true ->
                 forall k, mem k (rev ord ++ done) = true -> nget rho k = nget rho' k).
  { induction ord as [|i t IH]; intros done Hdone Hd k Hk; [apply Hdone; exact Hk|].
    cbn [ndeps_ok] in Hd. apply andb_prop in Hd. destruct Hd as [Hi Ht].
    destruct (nth_error (fields d) i) as [f|] eqn:Ef; [|discriminate].
    cbn [rev] in Hk. rewrite <- app_assoc in Hk. apply (IH (i :: done)); [|exact Ht|exact Hk].
    intros k0 Hk0. unfold mem in Hk0. cbn [existsb] in Hk0. apply orb_prop in Hk0. destruct Hk0 as [Hk0|Hk0].
    - apply Nat.eqb_eq in Hk0. subst k0. rewrite (Heq rho Hm i f Ef), (Heq rho' Hm' i f Ef).
      apply (ndenote_ext inner d ps bytes w rho rho' (fun k => mem k done)); assumption.
    - apply Hdone. exact Hk0. }
  apply (nth_ext _ _ n_undef n_undef).
  - rewrite (Hlen rho Hm), (Hlen rho' Hm'). reflexivity.
  - intros k Hk. rewrite (Hlen rho Hm) in Hk. apply (Hall (order d) []); [intros ? ?; discriminate|exact Hdeps|].
    apply mem_In. apply in_or_app. left. apply -> in_rev. rewrite forallb_forall in Hcover.
    apply mem_In. apply Hcover. apply in_seq. lia.
Qed.

(* ---------- the hypotheses are satisfiable, the conclusions are not vacuous ---------- *)
(* the module below is the translation (harness/view_x.py) of
     bits Flags:    0 [+3] UInt lo ; 3 [+1] Flag f ; 4 [+4] UInt hi
     struct PInner(n: UInt:8):   0 [+1] UInt px ;  if n == 1:  1 [+1] UInt py
     struct Top:    0 [+1] UInt tag ; 1 [+1] UInt len
                    2 [+1] Flags fl                           -- named bits type
                    3 [+1] bits:  0 [+4] UInt a ; 4 [+4] Int b   -- anonymous bits block, a and b hoisted as aliases
                    4 [+len] PInner(tag) p                    -- nested, with an argument, of dynamic size
                    let v = a + fl.hi
   (structure numbers: 0 Flags, 1 PInner, 2 Top, 3 the anonymous bits block) *)
Definition m_nest_ex : module :=
[(mk_sdef 1 0%nat [(mk_field (XK (VBool true)) (Phys (XK (VInt 0)) (XK (VInt 3)) (FScalar KU 3 LE) None));
   (mk_field (XK (VBool true)) (Phys (XK (VInt 3)) (XK (VInt 1)) (FScalar KFlag 1 LE) None));
   (mk_field (XK (VBool true)) (Phys (XK (VInt 4)) (XK (VInt 4)) (FScalar KU 4 LE) None));
   (mk_field (XK (VBool true)) (Virt (XK (VInt 8)) None));
   (mk_field (XK (VBool true)) (Virt (XK (VInt 8)) None));
   (mk_field (XK (VBool true)) (Virt (XK (VInt 8)) None))] [0; 1; 2; 3; 4; 5]%nat 3%nat None);
 (mk_sdef 8 1%nat [(mk_field (XK (VBool true)) (Param 0));
   (mk_field (XK (VBool true)) (Phys (XK (VInt 0)) (XK (VInt 1)) (FScalar KU 8 LE) None));
   (mk_field (XCmp CEq (XField [0]%nat) (XK (VInt 1))) (Phys (XK (VInt 1)) (XK (VInt 1)) (FScalar KU 8 LE) None));
   (mk_field (XK (VBool true)) (Virt (XMax [(XK (VInt 0)); (XK (VInt 1)); (XChoice (XCmp CEq (XField [0]%nat) (XK (VInt 1))) (XK (VInt 2)) (XK (VInt 0)))]) None));
   (mk_field (XK (VBool true)) (Virt (XK (VInt 2)) None));
   (mk_field (XK (VBool true)) (Virt (XK (VInt 1)) None))] [0; 1; 2; 3; 4; 5]%nat 3%nat None);
 (mk_sdef 8 0%nat [(mk_field (XK (VBool true)) (Phys (XK (VInt 0)) (XK (VInt 1)) (FScalar KU 8 LE) None));
   (mk_field (XK (VBool true)) (Phys (XK (VInt 1)) (XK (VInt 1)) (FScalar KU 8 LE) None));
   (mk_field (XK (VBool true)) (Phys (XK (VInt 2)) (XK (VInt 1)) (FStruct 0 [] (Some (8, LE))) None));
   (mk_field (XK (VBool true)) (Phys (XK (VInt 3)) (XK (VInt 1)) (FStruct 3 [] (Some (8, LE))) None));
   (mk_field (XAnd (XK (VBool true)) (XK (VBool true))) (Alias [3; 0]%nat (FScalar KU 4 LE)));
   (mk_field (XAnd (XK (VBool true)) (XK (VBool true))) (Alias [3; 1]%nat (FScalar KI 4 LE)));
   (mk_field (XK (VBool true)) (Phys (XK (VInt 4)) (XField [1]%nat) (FStruct 1 [(XField [0]%nat)] None) None));
   (mk_field (XK (VBool true)) (Virt (XAdd (XField [4]%nat) (XField [2; 2]%nat)) None));
   (mk_field (XK (VBool true)) (Virt (XMax [(XK (VInt 0)); (XK (VInt 1)); (XK (VInt 2)); (XK (VInt 3)); (XK (VInt 4)); (XChoice (XK (VBool true)) (XAdd (XK (VInt 4)) (XField [1]%nat)) (XK (VInt 0)))]) None));
   (mk_field (XK (VBool true)) (Virt (XK (VInt 259)) None));
   (mk_field (XK (VBool true)) (Virt (XK (VInt 4)) None))] [0; 1; 2; 3; 4; 5; 6; 7; 8; 9; 10]%nat 8%nat None);
 (mk_sdef 1 0%nat [(mk_field (XK (VBool true)) (Phys (XK (VInt 0)) (XK (VInt 4)) (FScalar KU 4 LE) None));
   (mk_field (XK (VBool true)) (Phys (XK (VInt 4)) (XK (VInt 4)) (FScalar KI 4 LE) None));
   (mk_field (XK (VBool true)) (Virt (XK (VInt 8)) None));
   (mk_field (XK (VBool true)) (Virt (XK (VInt 8)) None));
   (mk_field (XK (VBool true)) (Virt (XK (VInt 8)) None))] [0; 1; 2; 3; 4]%nat 2%nat None)].

Definition d_nest_ex : sdef := nth 2 m_nest_ex (mk_sdef 8 0 [] [] 0 None).

Example wf_ref_n_example : wf_ref_n m_nest_ex 2 d_nest_ex = true /\ unit_bits d_nest_ex = 8.
Proof. vm_compute. split; reflexivity. Qed.

(* a complete message {tag = 1, len = 2, fl = 0xA5, bits = 0x7C, p = {9, 8}}:
   fl.lo = 5, fl.hi = 10, a = 12, b = 7, p.px = 9, p.py = 8 (exists: n = tag = 1), v = 22, size 6, Ok *)
Example wf_ref_n_example_complete :
  let bytes := [1; 2; 165; 124; 9; 8] in
  let t := ref_struct m_nest_ex bytes 2 2 (Some []) (whole bytes) in
  is_nref_model (ref_struct m_nest_ex bytes 1) d_nest_ex (Some []) bytes (whole bytes) (n_members t) /\
  n_value (nlookup (n_members t) [2; 0]%nat) = Some (VInt 5) /\
  n_value (nlookup (n_members t) [2; 2]%nat) = Some (VInt 10) /\
  n_value (nlookup (n_members t) [4]%nat) = Some (VInt 12) /\
  n_value (nlookup (n_members t) [5]%nat) = Some (VInt 7) /\
  n_value (nlookup (n_members t) [6; 0]%nat) = Some (VInt 1) /\
  n_value (nlookup (n_members t) [6; 1]%nat) = Some (VInt 9) /\
  n_value (nlookup (n_members t) [6; 2]%nat) = Some (VInt 8) /\
  n_value (nlookup (n_members t) [7]%nat) = Some (VInt 22) /\
  n_size t = Some 6 /\ n_complete t = true /\ n_ok t = true /\
  node_of (eval_struct m_nest_ex bytes 8 d_nest_ex [] true (root bytes)) = t /\
  run_view m_nest_ex 2 [] bytes 8 = ref_observe_n m_nest_ex 2 [] bytes 2.
Proof. vm_compute. repeat split; reflexivity. Qed.

(* the same message without its last byte: p exists and p.py exists but cannot be read; p is not Ok, Top is
   neither complete nor Ok; everything before is unchanged *)
Example wf_ref_n_example_truncated :
  let bytes := [1; 2; 165; 124; 9] in
  let t := ref_struct m_nest_ex bytes 2 2 (Some []) (whole bytes) in
  n_present (nlookup (n_members t) [6; 2]%nat) = Some true /\
  n_value (nlookup (n_members t) [6; 2]%nat) = None /\
  n_value (nlookup (n_members t) [6; 1]%nat) = Some (VInt 9) /\
  n_ok (nlookup (n_members t) [6]%nat) = false /\ n_size (nlookup (n_members t) [6]%nat) = Some 2 /\
  n_value (nlookup (n_members t) [7]%nat) = Some (VInt 22) /\
  n_size t = Some 6 /\ n_complete t = false /\ n_ok t = false /\
  run_view m_nest_ex 2 [] bytes 8 = ref_observe_n m_nest_ex 2 [] bytes 2.
Proof. vm_compute. repeat split; reflexivity. Qed.

(* ---------- arrays: the agreement is false of the faithful model on a truncated message ---------- *)
(* struct A:  0 [+1] UInt n ;  1 [+n] UInt:8[] payload     (Stable.m_array), message {3, 7}:
   the reference: payload is the window [1, 4): 3 elements, not readable from 2 bytes;
   the generated code: payload().Ok() with ElementCount() == 1 (array views are built over the clamped
   storage, known finding F9 / prefix-instability:array).  On the whole message {3, 7, 8, 9} both say
   Ok with 3 elements. *)
Theorem gen_agrees_with_ref_refuted_array :
  exists m tid d bytes extra,
    nth_error m tid = Some d /\
    (let r := eval_struct m bytes 8 d [] true (root bytes) in
     let t := ref_struct m bytes 2 tid (Some []) (whole bytes) in
     exists g, nth_error (fr_sub r) 1 = Some (Some g) /\
       fr_has g = Some true /\ n_present (nget (n_members t) 1) = Some true /\
       fr_ok g = true /\ n_ok (nget (n_members t) 1) = false /\
       fr_ssize g = Some 1 /\ n_size (nget (n_members t) 1) = Some 3) /\
    (let bytes' := bytes ++ extra in
     let r := eval_struct m bytes' 8 d [] true (root bytes') in
     let t := ref_struct m bytes' 2 tid (Some []) (whole bytes') in
     exists g, nth_error (fr_sub r) 1 = Some (Some g) /\
       fr_ok g = true /\ n_ok (nget (n_members t) 1) = true /\
       fr_ssize g = Some 3 /\ n_size (nget (n_members t) 1) = Some 3).
Proof.
  exists m_array, 0%nat, (nth 0 m_array (mk_sdef 8 0 [] [] 0 None)), [3; 7], [8; 9].
  split; [reflexivity|]. split; eexists; vm_compute; repeat split; reflexivity.
Qed.
