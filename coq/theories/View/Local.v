(* C20 / C01 — LOCALITY (read set) of the executable model of the generated C++ views, and the two
   C20 clauses that follow from it.  New file; nothing else is modified.

   Proved here (all closed under the global context, see the Print Assumptions at the end):

   eval_sim          GENERAL FORM.  If byte i of the window (o,l) of mem1 is byte i+dl of mem2 then
                     eval_struct over (o,l) of mem1 and over (o+dl,l) of mem2 are [fsim dl]-similar.
                     No hypothesis on module / structure / parameters / fuel / signs / lengths.
   eval_local        (1) dl = 0: memories that agree on [o,o+l) give [fsim 0]-similar trees;
   eval_local_scrub      = EQUAL trees after [scrub] (which only blanks val of nodes that are not Ok);
   eval_local_observe    = equal [observe] lists.
   eval_local_tree_refuted   literal equality of the trees is FALSE in the model: a scalar whose
                     BitBlock is not Ok still records UncheckedRead(), which reads kbits/8 container
                     bytes, possibly past the window.  Nothing looks at that value.
   eval_shift(_observe)  (2) window (o,l) of mem  ~  window (0,l) of firstn l (skipn o mem); needs 0 <= o.
   equals_local      (3) for two Ok views (any parameters, any windows, any Equals fuel) the value of
                     Equals() is the same in every memory that agrees on the two windows.
   equals_local_ok_forced    "both Ok" is forced: Equals() of views that are not Ok compares the
                     unchecked values above (C++: Read() on a view that is not Ok).
   copy_then_equals  (4) under Stable.wf_stable: TryToCopyFrom succeeds, the destination is Ok, has
                     the same IntrinsicSize, Equals the OLD source (no overlap condition: memmove),
                     its first n bytes observe what the source's first n bytes observed, and — when
                     the windows are disjoint or start at the same address — Equals the source
                     re-read from the new memory.
   copy_then_equals_nan_free the same with the DATA hypothesis [nan_free_struct m fuel d (fr_sub src)] (no present
                     Float field of the source holds a NaN pattern) in place of the class hypothesis
                     float_free m on the two Equals conclusions; [copy_then_equals] is its corollary.
   copy_then_equals_exact    the same without [Hself] when the source window is exactly n bytes.
   copy_overlap_refuted      overlapping windows: Equals(old source) true, Equals(new source) false.
   copy_self_contained_forced  [Hself] is forced in the model (a size field that under-reports).
   equals_ignores_padding, *_instance, copy_then_equals_nonvacuous   (5) non-vacuity on Stable.m_ex.

   Technique (as in Stable.v): the named step function [vstep]/[finish] of Stable.v, a storage
   invariant [st_inv] ("inside the window; an Ok bit block has size*8 = nbits"), [both_sim] by
   induction on the fuel; a second, unary induction [both_tok] ("an Ok result is hereditarily Ok on
   the members Equals() visits"); [equals_sim] / [equals_true_of_tok] by induction on the fuel of
   Equals.  Window growth (first n bytes -> whole window) is Stable.both_stable with extra = []; it gives
   the typed order [flet] (nested structures may be parameterised).  [tok_struct] records that a
   parameter slot of an Ok view is initialised (wf_stable: a structure with Param fields has 0 < nparams),
   which is all [equals_true_of_tok] needs where [flet] is weaker than the strict order.
   copy_then_equals_param_*  non-vacuity on Stable.m_par (parameterised nested structure). *)
From Coq Require Import ZArith List Bool Lia ZifyBool.
Import ListNotations.
Require Import EmbossV.Bounds.Model EmbossV.View.Model EmbossV.View.Proofs
               EmbossV.View.Equals EmbossV.View.Stable.
Open Scope Z_scope.

(* ====================================================================== *)
(* ---------- the similarity relation on result trees ---------- *)
(* [fsim dl r r']: r' is r with every storage translated by dl bytes, except that the [val]
   component of a node that is NOT Ok is unconstrained (the model's UncheckedRead of a scalar
   whose BitBlock is not Ok reads kbits/8 container bytes wherever they are; no observation
   and no expression ever uses that value: [meval] and [observe] look at val only when ok). *)
Definition shift_b (dl : Z) (b : bstore) : bstore :=
  match b with None => None | Some (o, l) => Some (o + dl, l) end.
Definition shift_st (dl : Z) (s : storage) : storage :=
  match s with
  | SB b => SB (shift_b dl b)
  | SBit b bo nb direct bitoff bitsize ok => SBit (shift_b dl b) bo nb direct bitoff bitsize ok
  end.

Section ListSim.
  Variable A : Type.
  Variable R : A -> A -> Prop.
  Fixpoint olist_sim (l l' : list (option A)) {struct l} : Prop :=
    match l with
    | [] => match l' with [] => True | _ :: _ => False end
    | x :: t =>
        match l' with
        | [] => False
        | x' :: t' =>
            match x with
            | None => match x' with None => True | Some _ => False end
            | Some a => match x' with Some a' => R a a' | None => False end
            end /\ olist_sim t t'
        end
    end.
  Fixpoint list_sim (l l' : list A) {struct l} : Prop :=
    match l with
    | [] => match l' with [] => True | _ :: _ => False end
    | a :: t => match l' with [] => False | a' :: t' => R a a' /\ list_sim t t' end
    end.
  Definition orel (x x' : option A) : Prop :=
    match x with
    | None => match x' with None => True | Some _ => False end
    | Some a => match x' with Some a' => R a a' | None => False end
    end.
End ListSim.
Arguments olist_sim {A} R l l'.
Arguments list_sim {A} R l l'.
Arguments orel {A} R x x'.

Fixpoint fsim (dl : Z) (r r' : fres) {struct r} : Prop :=
  match r with
  | FR h o v st sub sok sc ss els =>
      fr_has r' = h /\ fr_ok r' = o /\ (o = true -> fr_val r' = v) /\
      fr_st r' = shift_st dl st /\ fr_sok r' = sok /\ fr_scomplete r' = sc /\ fr_ssize r' = ss /\
      olist_sim (fsim dl) sub (fr_sub r') /\ list_sim (fsim dl) els (fr_elems r')
  end.

Definition fsim_body (dl : Z) (r r' : fres) : Prop :=
  fr_has r' = fr_has r /\ fr_ok r' = fr_ok r /\ (fr_ok r = true -> fr_val r' = fr_val r) /\
  fr_st r' = shift_st dl (fr_st r) /\ fr_sok r' = fr_sok r /\ fr_scomplete r' = fr_scomplete r /\
  fr_ssize r' = fr_ssize r /\
  olist_sim (fsim dl) (fr_sub r) (fr_sub r') /\ list_sim (fsim dl) (fr_elems r) (fr_elems r').

Lemma fsim_eq dl r r' : fsim dl r r' = fsim_body dl r r'.
Proof. destruct r; reflexivity. Qed.

Definition env_sim (dl : Z) (e e' : env) : Prop := olist_sim (fsim dl) e e'.

Lemma olist_sim_nth {A} (R : A -> A -> Prop) l : forall l' i,
  olist_sim R l l' ->
  match nth_error l i with
  | Some x => exists x', nth_error l' i = Some x' /\ orel R x x'
  | None => nth_error l' i = None
  end.
Proof.
  induction l as [|x t IH]; intros [|x' t'] i H; try contradiction.
  - destruct i; reflexivity.
  - destruct H as [Hx Ht]. destruct i as [|i]; cbn [nth_error].
    + exists x'. split; [reflexivity|exact Hx].
    + apply IH. exact Ht.
Qed.

Lemma olist_sim_some {A} (R : A -> A -> Prop) l l' i a :
  olist_sim R l l' -> nth_error l i = Some (Some a) ->
  exists a', nth_error l' i = Some (Some a') /\ R a a'.
Proof.
  intros H E. pose proof (olist_sim_nth R l l' i H) as Hn. rewrite E in Hn.
  destruct Hn as ([a'|] & E' & Hr); [|contradiction]. exists a'. auto.
Qed.

Lemma olist_sim_set_nth {A} (R : A -> A -> Prop) a a' : forall i l l',
  olist_sim R l l' -> R a a' -> olist_sim R (set_nth l i (Some a)) (set_nth l' i (Some a')).
Proof.
  unfold set_nth.
  induction i as [|i IH]; intros l l' H Ha.
  - destruct l as [|x t]; destruct l' as [|x' t']; try contradiction; [exact I|].
    cbn in *. tauto.
  - destruct l as [|x t]; destruct l' as [|x' t']; try contradiction; [exact I|].
    destruct H as [Hx Ht]. cbn [firstn skipn app olist_sim]. split; [exact Hx|]. apply IH; assumption.
Qed.

Lemma olist_sim_none {A B} (R : A -> A -> Prop) (l : list B) :
  olist_sim R (map (fun _ => None) l) (map (fun _ => None) l).
Proof. induction l; cbn; auto. Qed.

Lemma lookup_sim dl : forall p e e',
  env_sim dl e e' ->
  match lookup e p with
  | Some r => exists r', lookup e' p = Some r' /\ fsim dl r r'
  | None => lookup e' p = None
  end.
Proof.
  induction p as [|i rest IH]; intros e e' He; [reflexivity|].
  pose proof (olist_sim_nth _ e e' i He) as Hn.
  destruct rest as [|j rest'].
  - cbn [lookup]. destruct (nth_error e i) as [[r|]|] eqn:E.
    + destruct Hn as ([r'|] & -> & Hr); [|contradiction]. exists r'. auto.
    + destruct Hn as ([r'|] & -> & Hr); [contradiction|reflexivity].
    + rewrite Hn. reflexivity.
  - cbn [lookup]. destruct (nth_error e i) as [[r|]|] eqn:E.
    + destruct Hn as ([r'|] & -> & Hr); [|contradiction]. unfold orel in Hr.
      rewrite fsim_eq in Hr. destruct Hr as (_ & _ & _ & _ & _ & _ & _ & Hs & _).
      exact (IH _ _ Hs).
    + destruct Hn as ([r'|] & -> & Hr); [contradiction|reflexivity].
    + rewrite Hn. reflexivity.
Qed.

(* expressions cannot tell similar environments apart *)
Theorem meval_sim dl e e' s x : env_sim dl e e' -> meval e s x = meval e' s x.
Proof.
  intros He. induction x using vx_ind2; cbn [meval];
    try reflexivity; try (rewrite IHx1, IHx2; reflexivity).
  - pose proof (lookup_sim dl p e e' He) as H. destruct (lookup e p) as [r|].
    + destruct H as (r' & -> & Hr). rewrite fsim_eq in Hr. destruct Hr as (_ & Ho & Hv & _).
      rewrite Ho. destruct (fr_ok r); [symmetry; apply Hv; reflexivity|reflexivity].
    + rewrite H. reflexivity.
  - pose proof (lookup_sim dl p e e' He) as H. destruct (lookup e p) as [r|].
    + destruct H as (r' & -> & Hr). rewrite fsim_eq in Hr. destruct Hr as (Hh & _).
      rewrite Hh. reflexivity.
    + rewrite H. reflexivity.
  - rewrite IHx1, IHx2, IHx3. reflexivity.
  - f_equal. assert (E : map (meval e s) args = map (meval e' s) args).
    { induction H as [|y t Hy Ht IH]; cbn; [reflexivity|]. rewrite Hy, IH. reflexivity. }
    rewrite E. reflexivity.
Qed.

Lemma requires_ok_sim dl rq e e' v : env_sim dl e e' -> requires_ok rq e v = requires_ok rq e' v.
Proof. intros He. destruct rq as [x|]; cbn; [|reflexivity]. rewrite (meval_sim dl e e' _ x He). reflexivity. Qed.

Lemma fsim_with_has dl r r' h : fsim dl r r' -> fsim dl (with_has h r) (with_has h r').
Proof. rewrite !fsim_eq. destruct r, r'. unfold fsim_body; cbn. tauto. Qed.

(* ---------- storages ---------- *)
Lemma shift_get_offset dl s off sz : get_offset (shift_st dl s) off sz = shift_st dl (get_offset s off sz).
Proof.
  destruct s as [[[o l]|]|b bo nb direct bitoff bitsize ok]; cbn; try reflexivity.
  f_equal. f_equal. f_equal. lia.
Qed.
Lemma shift_ok dl s : storage_ok (shift_st dl s) = storage_ok s.
Proof. destruct s as [[[o l]|]|]; reflexivity. Qed.
Lemma shift_size dl s : storage_size (shift_st dl s) = storage_size s.
Proof. destruct s as [[[o l]|]|]; reflexivity. Qed.
Lemma shift_mk_bitblock dl b bo nb : mk_bitblock (shift_b dl b) bo nb = shift_st dl (mk_bitblock b bo nb).
Proof. destruct b as [[o l]|]; reflexivity. Qed.
Lemma shift_null_of dl ty m : shift_st dl (null_of ty m) = null_of ty m.
Proof.
  destruct ty as [| tid a ad |]; try reflexivity. cbn.
  destruct (nth_error m tid) as [d|]; [|reflexivity]. destruct (unit_bits d =? 8); reflexivity.
Qed.
Lemma shift_0 s : shift_st 0 s = s.
Proof.
  destruct s as [[[o l]|]|[[o l]|] bo nb direct bitoff bitsize ok]; cbn; try reflexivity;
    rewrite Z.add_0_r; reflexivity.
Qed.

(* what a storage derived from the window (o, l) may touch *)
Definition span_in (o l a k : Z) : Prop := k <= 0 \/ (o <= a /\ a + k <= o + l).
Definition st_inv (o l : Z) (s : storage) : Prop :=
  match s with
  | SB None => True
  | SB (Some (a, k)) => span_in o l a k
  | SBit b _ nbits _ _ _ ok =>
      ok = true -> exists a k, b = Some (a, k) /\ k * 8 = nbits /\ span_in o l a k
  end.

Lemma st_inv_get_offset o l s off sz :
  st_inv o l s -> 0 <= off -> 0 <= sz -> st_inv o l (get_offset s off sz).
Proof.
  destruct s as [[[a k]|]|b bo nb direct bitoff bitsize ok]; cbn [get_offset bstore_offset st_inv]; [|trivial|].
  - unfold span_in. intros H Ho Hs. destruct (k <? off) eqn:E; lia.
  - intros H Ho Hs Hok. apply H.
    destruct direct; repeat (apply andb_prop in Hok; destruct Hok as [Hok ?]);
      match goal with H1 : _ && _ = true |- _ => apply andb_prop in H1; destruct H1 as [H1 _]; exact H1 end.
Qed.

Lemma st_inv_mk_bitblock o l b bo nb : st_inv o l (SB b) -> st_inv o l (mk_bitblock b bo nb).
Proof.
  destruct b as [[a k]|]; cbn; [|discriminate].
  intros H Hok. unfold bitblock_ok, orderer_size in Hok. cbn in Hok.
  exists a, k. split; [reflexivity|]. split; [lia|exact H].
Qed.

Lemma st_inv_null_of o l ty m : st_inv o l (null_of ty m).
Proof.
  destruct ty as [| tid a ad |]; try exact I. cbn.
  destruct (nth_error m tid) as [d|]; [|exact I]. destruct (unit_bits d =? 8); [exact I|cbn; discriminate].
Qed.

(* ====================================================================== *)
(* ---------- the simulation: two memories that agree on a window ---------- *)
Section Sim.
  Variable m : module.
  Variables mem1 mem2 : list Z.
  Variables o l dl : Z.
  (* byte i of the window over mem1 is byte i + dl of mem2 *)
  Hypothesis Hagree : forall i, o <= i < o + l -> nth_byte mem1 i = nth_byte mem2 (i + dl).

  Lemma le_value_sim k : forall a, o <= a -> a + Z.of_nat k <= o + l ->
    le_value mem1 a k = le_value mem2 (a + dl) k.
  Proof.
    induction k as [|k IH]; intros a Ha Hk; [reflexivity|].
    cbn [le_value]. rewrite Hagree by lia. rewrite IH by lia.
    replace (a + 1 + dl) with (a + dl + 1) by lia. reflexivity.
  Qed.

  Lemma be_value_sim k : forall a acc, o <= a -> a + Z.of_nat k <= o + l ->
    be_value mem1 a k acc = be_value mem2 (a + dl) k acc.
  Proof.
    induction k as [|k IH]; intros a acc Ha Hk; [reflexivity|].
    cbn [be_value]. rewrite Hagree by lia. rewrite IH by lia.
    replace (a + 1 + dl) with (a + dl + 1) by lia. reflexivity.
  Qed.

  (* an Ok bit block reads exactly its nbits/8 container bytes, and they are inside the window *)
  Lemma raw_read_sim s : st_inv o l s -> storage_ok s = true ->
    raw_read mem1 s = raw_read mem2 (shift_st dl s).
  Proof.
    destruct s as [b|b bo nb direct bitoff bitsize ok]; [reflexivity|].
    cbn [st_inv storage_ok]. intros H Hok. destruct (H Hok) as (a & k & -> & Hk & Hspan).
    assert (Hc : container_value mem1 (Some (a, k)) bo nb = container_value mem2 (Some (a + dl, k)) bo nb).
    { unfold container_value. subst nb. rewrite Z.div_mul by lia.
      destruct (Z_le_gt_dec k 0) as [Hk|Hk].
      - replace (Z.to_nat k) with 0%nat by lia. destruct bo; reflexivity.
      - unfold span_in in Hspan.
        destruct bo; [apply le_value_sim|apply be_value_sim|apply le_value_sim]; lia. }
    cbn [raw_read shift_st shift_b]. rewrite Hc. reflexivity.
  Qed.

  Definition struct_sim (f : nat) : Prop :=
    forall d ps pinit st, st_inv o l st ->
      fsim dl (eval_struct m mem1 f d ps pinit st) (eval_struct m mem2 f d ps pinit (shift_st dl st)).

  Definition type_sim (f : nat) : Prop :=
    forall u ty ps pinit s rq e e', st_inv o l s -> env_sim dl e e' ->
      fsim dl (eval_type m mem1 f u ty ps pinit s rq e)
              (eval_type m mem2 f u ty ps pinit (shift_st dl s) rq e').

  Lemma fsim_exhausted s :
    fsim dl (FR None false None s [] false false None []) (FR None false None (shift_st dl s) [] false false None []).
  Proof. cbn. repeat split; try reflexivity; try discriminate. Qed.

  Lemma scalar_sim f u k kbits bo ps pinit s rq e e' :
    st_inv o l s -> env_sim dl e e' ->
    fsim dl (eval_type m mem1 (S f) u (FScalar k kbits bo) ps pinit s rq e)
            (eval_type m mem2 (S f) u (FScalar k kbits bo) ps pinit (shift_st dl s) rq e').
  Proof.
    intros Hs He. cbn [eval_type].
    set (s2 := match s with SB b => if u =? 8 then mk_bitblock b bo kbits else s | _ => s end).
    set (s2' := match shift_st dl s with
                | SB b => if u =? 8 then mk_bitblock b bo kbits else shift_st dl s
                | _ => shift_st dl s end).
    assert (H2 : s2' = shift_st dl s2 /\ st_inv o l s2).
    { subst s2 s2'. destruct s as [b|b0 bo0 nb0 d0 o0 z0 ok0]; cbn [shift_st].
      - destruct (u =? 8); [|split; [reflexivity|exact Hs]].
        split; [apply shift_mk_bitblock|apply st_inv_mk_bitblock; exact Hs].
      - split; [reflexivity|exact Hs]. }
    destruct H2 as [-> Hs2]. clearbody s2.
    rewrite shift_ok, shift_size.
    destruct (storage_ok s2 && (kbits <=? storage_size s2)) eqn:Ec.
    - apply andb_prop in Ec. destruct Ec as [Ec _].
      rewrite <- (raw_read_sim s2 Hs2 Ec). rewrite <- (requires_ok_sim dl rq e e' _ He).
      cbn. repeat split; reflexivity.
    - cbn. repeat split; try reflexivity; try discriminate.
  Qed.

  Lemma list_sim_forallb_ok els : forall els',
    list_sim (fsim dl) els els' -> forallb fr_ok els' = forallb fr_ok els.
  Proof.
    induction els as [|a t IH]; intros [|a' t'] H; try contradiction; [reflexivity|].
    destruct H as [Ha Ht]. cbn [forallb]. rewrite (IH _ Ht).
    rewrite fsim_eq in Ha. destruct Ha as (_ & -> & _). reflexivity.
  Qed.

  Lemma type_sim_0 : type_sim 0.
  Proof. intros u ty ps pinit s rq e e' _ _. apply fsim_exhausted. Qed.
  Lemma struct_sim_0 : struct_sim 0.
  Proof. intros d ps pinit st _. apply fsim_exhausted. Qed.

  Lemma type_sim_S f : struct_sim f -> type_sim f -> type_sim (S f).
  Proof.
    intros IHs IHt u ty ps pinit s rq e e' Hs He.
    destruct ty as [k kbits bo | tid args adapt | el esz].
    - apply scalar_sim; assumption.
    - cbn [eval_type]. destruct (nth_error m tid) as [d|]; [|apply fsim_exhausted].
      set (s2 := match s, adapt with SB b, Some (n, bo) => mk_bitblock b bo n | _, _ => s end).
      assert (H2 : match shift_st dl s, adapt with SB b, Some (n, bo) => mk_bitblock b bo n | _, _ => shift_st dl s end
                   = shift_st dl s2 /\ st_inv o l s2).
      { subst s2. destruct s as [b|b0 bo0 nb0 d0 o0 z0 ok0]; cbn [shift_st].
        - destruct adapt as [[n bo]|]; [|split; [reflexivity|exact Hs]].
          split; [apply shift_mk_bitblock|apply st_inv_mk_bitblock; exact Hs].
        - split; [reflexivity|exact Hs]. }
      destruct H2 as [-> Hs2]. apply IHs. exact Hs2.
    - cbn [eval_type]. rewrite shift_size, shift_ok.
      set (n := if esz <=? 0 then 0 else storage_size s / esz).
      assert (Hels : list_sim (fsim dl)
                (map (fun i => eval_type m mem1 f u el ps pinit (get_offset s (Z.of_nat i * esz) esz) None e)
                     (seq 0 (Z.to_nat n)))
                (map (fun i => eval_type m mem2 f u el ps pinit (get_offset (shift_st dl s) (Z.of_nat i * esz) esz) None e')
                     (seq 0 (Z.to_nat n)))).
      { subst n. destruct (esz <=? 0) eqn:Ee; [exact I|].
        generalize (seq 0 (Z.to_nat (storage_size s / esz))). intros lst.
        induction lst as [|i t IH]; [exact I|]. cbn [map list_sim]. split; [|exact IH].
        rewrite shift_get_offset. apply IHt; [|exact He]. apply st_inv_get_offset; [exact Hs|nia|lia]. }
      rewrite fsim_eq. unfold fsim_body.
      cbn [fr_has fr_ok fr_val fr_st fr_sub fr_sok fr_scomplete fr_ssize fr_elems olist_sim].
      rewrite (list_sim_forallb_ok _ _ Hels).
      repeat split; try reflexivity. exact Hels.
  Qed.

  Lemma locate_sim st e e' has ak start size : env_sim dl e e' ->
    locate (shift_st dl st) e' has ak start size = option_map (shift_st dl) (locate st e has ak start size).
  Proof.
    intros He. unfold locate. rewrite <- !(meval_sim dl e e' None _ He).
    destruct (ak && value_or_false has); [|reflexivity].
    destruct (m_z (meval e None size)) as [sz|]; [|reflexivity].
    destruct (m_z (meval e None start)) as [off|]; [|reflexivity].
    destruct ((0 <=? sz) && (0 <=? off)); [|reflexivity].
    cbn [option_map]. rewrite shift_get_offset. reflexivity.
  Qed.

  Lemma locate_inv st e has ak start size sl :
    st_inv o l st -> locate st e has ak start size = Some sl -> st_inv o l sl.
  Proof.
    intros Hs H. unfold locate in H.
    destruct (ak && value_or_false has); [|discriminate].
    destruct (m_z (meval e None size)) as [sz|]; [|discriminate].
    destruct (m_z (meval e None start)) as [off|]; [|discriminate].
    destruct ((0 <=? sz) && (0 <=? off)) eqn:Eb; [|discriminate].
    inversion H; subst sl. apply st_inv_get_offset; [exact Hs|lia|lia].
  Qed.

  Lemma type_sim_null f u ty rq e e' : type_sim f -> env_sim dl e e' ->
    fsim dl (eval_type m mem1 f u ty [] false (null_of ty m) rq e)
            (eval_type m mem2 f u ty [] false (null_of ty m) rq e').
  Proof.
    intros IH He.
    pose proof (IH u ty [] false (null_of ty m) rq e e' (st_inv_null_of o l ty m) He) as H.
    rewrite shift_null_of in H. exact H.
  Qed.

  Lemma step_sim f d ps pinit st e e' i :
    type_sim f -> st_inv o l st -> env_sim dl e e' ->
    env_sim dl (vstep m mem1 f d ps pinit st e i) (vstep m mem2 f d ps pinit (shift_st dl st) e' i).
  Proof.
    intros IH Hs He. unfold vstep.
    destruct (nth_error (fields d) i) as [fld|]; [|exact He].
    rewrite <- (meval_sim dl e e' None (fcond fld) He).
    set (has := m_bool (meval e None (fcond fld))). clearbody has.
    apply olist_sim_set_nth; [exact He|].
    destruct (fbody_of fld) as [start size ty rq | rd rq | p aty | pi].
    - assert (Hargs : map (meval e' None) (args_of ty) = map (meval e None) (args_of ty)).
      { apply map_ext. intros a. symmetry. apply (meval_sim dl). exact He. }
      rewrite Hargs. rewrite (locate_sim st e e' _ _ _ _ He).
      destruct (locate st e has (forallb known (map (meval e None) (args_of ty))) start size) as [sl|] eqn:EL;
        cbn [option_map]; apply fsim_with_has.
      + apply IH; [eapply locate_inv; eassumption|exact He].
      + apply type_sim_null; assumption.
    - rewrite <- (meval_sim dl e e' None rd He).
      destruct (meval e None rd) as [vv|].
      + rewrite <- (requires_ok_sim dl rq e e' vv He). cbn. repeat split; reflexivity.
      + cbn. repeat split; reflexivity.
    - pose proof (lookup_sim dl p e e' He) as HL.
      destruct (value_or_false has).
      + destruct (lookup e p) as [r|].
        * destruct HL as (r' & -> & Hr). apply fsim_with_has. exact Hr.
        * rewrite HL. apply fsim_with_has. apply type_sim_null; assumption.
      + apply fsim_with_has. apply type_sim_null; assumption.
    - cbn. repeat split; reflexivity.
  Qed.

  Lemma fold_sim f d ps pinit st :
    type_sim f -> st_inv o l st ->
    forall ord e e', env_sim dl e e' ->
      env_sim dl (fold_left (vstep m mem1 f d ps pinit st) ord e)
                 (fold_left (vstep m mem2 f d ps pinit (shift_st dl st)) ord e').
  Proof.
    intros IH Hs. induction ord as [|i t IHo]; intros e e' He; [exact He|].
    cbn [fold_left]. apply IHo. apply step_sim; assumption.
  Qed.

  Lemma isize_sim d e e' : env_sim dl e e' -> isize_of d e' = isize_of d e.
  Proof.
    intros He. unfold isize_of. pose proof (olist_sim_nth _ e e' (size_field d) He) as H.
    destruct (nth_error e (size_field d)) as [[r|]|].
    - destruct H as ([r'|] & -> & Hr); [|contradiction]. unfold orel in Hr.
      rewrite fsim_eq in Hr. destruct Hr as (_ & -> & Hv & _).
      destruct (fr_ok r); [rewrite Hv; reflexivity|reflexivity].
    - destruct H as ([r'|] & -> & Hr); [contradiction|reflexivity].
    - rewrite H. reflexivity.
  Qed.

  Lemma field_test_sim e e' i : env_sim dl e e' -> field_test e' i = field_test e i.
  Proof.
    intros He. unfold field_test. pose proof (olist_sim_nth _ e e' i He) as H.
    destruct (nth_error e i) as [[r|]|].
    - destruct H as ([r'|] & -> & Hr); [|contradiction]. unfold orel in Hr.
      rewrite fsim_eq in Hr. destruct Hr as (-> & -> & _). reflexivity.
    - destruct H as ([r'|] & -> & Hr); [contradiction|reflexivity].
    - rewrite H. reflexivity.
  Qed.

  Lemma finish_sim d pinit st e e' :
    env_sim dl e e' -> fsim dl (finish d pinit st e) (finish d pinit (shift_st dl st) e').
  Proof.
    intros He. rewrite fsim_eq. unfold fsim_body, finish.
    cbn [fr_has fr_ok fr_val fr_st fr_sub fr_sok fr_scomplete fr_ssize fr_elems list_sim].
    rewrite (isize_sim d e e' He), shift_ok, shift_size.
    rewrite (forallb_ext' (field_test e') (field_test e) (order d) (fun i => field_test_sim e e' i He)).
    assert (Hreq : match srequires d with None => true | Some x => value_or_false (m_bool (meval e' None x)) end
                 = match srequires d with None => true | Some x => value_or_false (m_bool (meval e None x)) end).
    { destruct (srequires d) as [x|]; [|reflexivity]. rewrite <- (meval_sim dl e e' None x He). reflexivity. }
    rewrite Hreq. repeat split; try reflexivity. exact He.
  Qed.

  Lemma struct_sim_S f : type_sim f -> struct_sim (S f).
  Proof.
    intros IH d ps pinit st Hs. rewrite !eval_struct_S. apply finish_sim.
    apply fold_sim; [exact IH|exact Hs|apply olist_sim_none].
  Qed.

  Lemma both_sim f : struct_sim f /\ type_sim f.
  Proof.
    induction f as [|f [IHs IHt]].
    - split; [apply struct_sim_0|apply type_sim_0].
    - split; [apply struct_sim_S; exact IHt|apply type_sim_S; assumption].
  Qed.
End Sim.

(* The general locality / translation theorem: if the window (o, l) of mem1 holds the same bytes
   as the window (o + dl, l) of mem2, the two views are similar.  No hypothesis on the module,
   the structure, the parameters, the fuel, the sign of o or l, or the lengths of the memories. *)
Theorem eval_sim m mem1 mem2 o l dl :
  (forall i, o <= i < o + l -> nth_byte mem1 i = nth_byte mem2 (i + dl)) ->
  forall fuel d ps pinit,
    fsim dl (eval_struct m mem1 fuel d ps pinit (SB (Some (o, l))))
            (eval_struct m mem2 fuel d ps pinit (SB (Some (o + dl, l)))).
Proof.
  intros H fuel d ps pinit.
  destruct (both_sim m mem1 mem2 o l dl H fuel) as [Hs _].
  apply (Hs d ps pinit (SB (Some (o, l)))). cbn. right. lia.
Qed.

(* ---------- (1) eval_local: the read set of a view is its window ---------- *)
(* Full strength: every module, structure, parameters, fuel, window; the memories may even have
   different lengths ([nth_byte] is total).  The conclusion is [fsim 0], i.e. EQUALITY of the two
   result trees (same has/ok/storage/Ok()/IsComplete()/size, same shape, hereditarily) except for
   the [val] component of nodes that are not Ok; [eval_local_tree_refuted] shows that this
   exception cannot be removed in the model. *)
Theorem eval_local m mem1 mem2 o l :
  (forall i, o <= i < o + l -> nth_byte mem1 i = nth_byte mem2 i) ->
  forall fuel d ps pinit,
    fsim 0 (eval_struct m mem1 fuel d ps pinit (SB (Some (o, l))))
           (eval_struct m mem2 fuel d ps pinit (SB (Some (o, l)))).
Proof.
  intros H fuel d ps pinit.
  pose proof (eval_sim m mem1 mem2 o l 0) as E. rewrite Z.add_0_r in E. apply E.
  intros i Hi. rewrite Z.add_0_r. apply H. exact Hi.
Qed.

(* similar trees have the same observations (everything the C++ driver can see) *)
Lemma fsim_observe dl : forall f r r', fsim dl r r' -> observe f r = observe f r'.
Proof.
  induction f as [|f IH]; intros r r' H; [reflexivity|].
  destruct r as [h ok v st sub sok sc ss els]. destruct r' as [h' ok' v' st' sub' sok' sc' ss' els'].
  cbn [fsim fr_has fr_ok fr_val fr_st fr_sub fr_sok fr_scomplete fr_ssize fr_elems] in H.
  destruct H as (-> & -> & Hv & _ & _ & -> & -> & Hsub & Hels).
  assert (HF : flat_map (fun o => match o with Some r' => observe f r' | None => [-99] end) sub =
               flat_map (fun o => match o with Some r' => observe f r' | None => [-99] end) sub').
  { revert sub' Hsub. induction sub as [|x t IHl]; intros [|x' t'] Hs; try contradiction; [reflexivity|].
    destruct Hs as [Hx Ht]. cbn [flat_map]. rewrite (IHl _ Ht).
    destruct x as [a|], x' as [a'|]; try contradiction; [rewrite (IH _ _ Hx)|]; reflexivity. }
  assert (HE : flat_map (observe f) els = flat_map (observe f) els').
  { revert els' Hels. induction els as [|x t IHl]; intros [|x' t'] Hs; try contradiction; [reflexivity|].
    destruct Hs as [Hx Ht]. cbn [flat_map]. rewrite (IHl _ Ht), (IH _ _ Hx). reflexivity. }
  assert (Hval : (if ok then match v with Some x => [obs_value x] | None => [] end else []) =
                 (if ok then match v' with Some x => [obs_value x] | None => [] end else [])).
  { destruct ok; [rewrite (Hv eq_refl)|]; reflexivity. }
  cbn [observe]. rewrite Hval.
  destruct sub as [|x t]; destruct sub' as [|x' t']; try contradiction;
    destruct els as [|y u]; destruct els' as [|y' u']; try contradiction;
    try rewrite HF; try rewrite HE; reflexivity.
Qed.

Corollary eval_local_observe m mem1 mem2 o l :
  (forall i, o <= i < o + l -> nth_byte mem1 i = nth_byte mem2 i) ->
  forall fuel d ps pinit g,
    observe g (eval_struct m mem1 fuel d ps pinit (SB (Some (o, l)))) =
    observe g (eval_struct m mem2 fuel d ps pinit (SB (Some (o, l)))).
Proof. intros H fuel d ps pinit g. apply (fsim_observe 0). apply eval_local. exact H. Qed.

(* ---------- (2) eval_shift: translation invariance ---------- *)
Lemma nth_byte_sub mem o l i : 0 <= o -> o <= i < o + l ->
  nth_byte mem i = nth_byte (firstn (Z.to_nat l) (skipn (Z.to_nat o) mem)) (i + - o).
Proof.
  intros Ho Hi. rewrite !nth_byte_nth.
  rewrite nth_firstn' by lia. rewrite nth_skipn'. f_equal. lia.
Qed.

Theorem eval_shift m mem o l :
  0 <= o ->
  forall fuel d ps pinit,
    fsim (- o) (eval_struct m mem fuel d ps pinit (SB (Some (o, l))))
               (eval_struct m (firstn (Z.to_nat l) (skipn (Z.to_nat o) mem)) fuel d ps pinit (SB (Some (0, l)))).
Proof.
  intros Ho fuel d ps pinit.
  pose proof (eval_sim m mem (firstn (Z.to_nat l) (skipn (Z.to_nat o) mem)) o l (- o)) as E.
  rewrite Z.add_opp_diag_r in E. apply E. intros i Hi. apply nth_byte_sub; assumption.
Qed.

Corollary eval_shift_observe m mem o l :
  0 <= o ->
  forall fuel d ps pinit g,
    observe g (eval_struct m mem fuel d ps pinit (SB (Some (o, l)))) =
    observe g (eval_struct m (firstn (Z.to_nat l) (skipn (Z.to_nat o) mem)) fuel d ps pinit (SB (Some (0, l)))).
Proof. intros Ho fuel d ps pinit g. apply (fsim_observe (- o)). apply eval_shift. exact Ho. Qed.

(* ====================================================================== *)
(* ---------- typed, hereditarily Ok result trees ---------- *)
(* [tok_type f ty r]: r is Ok as a view of type ty, and so is every PRESENT member that Equals()
   visits, hereditarily (f levels).  Every Ok result of the evaluator has this shape ([both_tok]). *)
Section Tok.
  Variable m : module.

  Fixpoint tok_type (f : nat) (ty : ftype) (r : fres) {struct f} : Prop :=
    match f with
    | O => False
    | S f' =>
        fr_ok r = true /\
        match ty with
        | FScalar _ _ _ => True
        | FStruct tid _ _ =>
            match nth_error m tid with Some d => tok_struct f' d (fr_sub r) | None => False end
        | FArray elem _ => Forall (tok_type f' elem) (fr_elems r)
        end
    end
  with tok_struct (f : nat) (d : sdef) (e : env) {struct f} : Prop :=
    match f with
    | O => False
    | S f' =>
        forall i, In i d.(order) ->
          match nth_error d.(fields) i, nth_error e i with
          | Some fd, Some (Some r) =>
              match fr_has r with
              | Some true =>
                  match fbody_of fd with
                  | Phys _ _ ty _ => tok_type f' ty r
                  | Param _ => fr_ok r = true
                  | _ => True
                  end
              | Some false =>
                  (* a parameter slot that is not initialised: only in a definition without parameters *)
                  match fbody_of fd with Param _ => (0 <? nparams d)%nat = false | _ => True end
              | None => False
              end
          | _, _ => False
          end
    end.

  Lemma tok_with_has f ty h r : tok_type f ty r -> tok_type f ty (with_has h r).
  Proof. destruct f, r; exact (fun H => H). Qed.

  Lemma ok_with_has h r : fr_ok (with_has h r) = fr_ok r.
  Proof. destruct r; reflexivity. Qed.

  Lemma nth_error_set_nth_inv {A} (x : A) : forall i l j y,
    nth_error (set_nth l i x) j = Some y -> (j = i /\ y = x) \/ nth_error l j = Some y.
  Proof.
    unfold set_nth. induction i as [|i IH]; intros [|a t] j y H; cbn in H.
    - right. exact H.
    - destruct j; cbn in H |- *; [inversion H; left; auto|right; exact H].
    - right. exact H.
    - destruct j as [|j]; cbn in H |- *; [right; exact H|].
      apply IH in H. destruct H as [[-> ->]|H]; [left; auto|right; exact H].
  Qed.

  Lemma nth_error_all_none {A B} (l : list B) j (r : A) :
    nth_error (map (fun _ => @None A) l) j = Some (Some r) -> False.
  Proof. revert j. induction l as [|a t IH]; intros [|j] H; cbn in H; try discriminate. eapply IH; exact H. Qed.

  Variable mem : list Z.

  Definition type_tok (f : nat) : Prop :=
    forall u ty ps pinit s rq e,
      fr_ok (eval_type m mem f u ty ps pinit s rq e) = true ->
      tok_type f ty (eval_type m mem f u ty ps pinit s rq e).
  Definition struct_tok (f : nat) : Prop :=
    forall d ps pinit st,
      fr_sok (eval_struct m mem f d ps pinit st) = true ->
      tok_struct f d (fr_sub (eval_struct m mem f d ps pinit st)).

  Lemma eval_struct_ok_sok f d ps pinit st :
    fr_ok (eval_struct m mem f d ps pinit st) = fr_sok (eval_struct m mem f d ps pinit st).
  Proof. destruct f; reflexivity. Qed.

  Lemma type_tok_S f : struct_tok f -> type_tok f -> type_tok (S f).
  Proof.
    intros IHs IHt u ty ps pinit s rq e H.
    destruct ty as [k kbits bo | tid args adapt | el esz].
    - cbn [tok_type]. split; [exact H|exact I].
    - cbn [tok_type]. split; [exact H|]. cbn [eval_type] in H |- *.
      destruct (nth_error m tid) as [d|]; [|discriminate H].
      apply IHs. rewrite <- eval_struct_ok_sok. exact H.
    - cbn [tok_type]. split; [exact H|]. cbn [eval_type fr_ok fr_elems] in H |- *.
      apply andb_prop in H. destruct H as [_ H]. rewrite forallb_forall in H.
      apply Forall_forall. intros x Hx. pose proof (H x Hx) as Hok.
      apply in_map_iff in Hx. destruct Hx as (i & <- & _). apply IHt. exact Hok.
  Qed.

  Definition typed_env (f : nat) (d : sdef) (pinit : bool) (e : env) : Prop :=
    forall j r, nth_error e j = Some (Some r) ->
      exists fd, nth_error d.(fields) j = Some fd /\
        match fbody_of fd with
        | Phys _ _ ty _ => fr_ok r = true -> tok_type f ty r
        | Param _ => fr_has r = Some pinit
        | _ => True
        end.

  Lemma step_typed f d ps pinit st e i :
    type_tok f -> typed_env f d pinit e -> typed_env f d pinit (vstep m mem f d ps pinit st e i).
  Proof.
    intros IH Hinv. unfold vstep.
    destruct (nth_error (fields d) i) as [fld|] eqn:Ef; [|exact Hinv].
    intros j r Hj. apply nth_error_set_nth_inv in Hj. destruct Hj as [[-> Hr]|Hj]; [|apply Hinv; exact Hj].
    exists fld. split; [exact Ef|]. inversion Hr; subst r; clear Hr.
    destruct (fbody_of fld) as [start size ty rq | rd rq | p aty | pi]; try exact I; [|reflexivity].
    destruct (locate st e (m_bool (meval e None (fcond fld))) (forallb known (map (meval e None) (args_of ty))) start size);
      intros Hok; rewrite ok_with_has in Hok; apply tok_with_has; apply IH; exact Hok.
  Qed.

  Lemma fold_typed f d ps pinit st : type_tok f ->
    forall ord e, typed_env f d pinit e -> typed_env f d pinit (fold_left (vstep m mem f d ps pinit st) ord e).
  Proof.
    intros IH. induction ord as [|i t IHo]; intros e He; [exact He|].
    cbn [fold_left]. apply IHo. apply step_typed; assumption.
  Qed.

  Lemma struct_tok_S f : type_tok f -> struct_tok (S f).
  Proof.
    intros IH d ps pinit st. rewrite eval_struct_S.
    set (e := fold_left (vstep m mem f d ps pinit st) (order d) (map (fun _ => None) (fields d))).
    assert (Hinv : typed_env f d pinit e).
    { apply fold_typed; [exact IH|]. intros j r Hj. exfalso. eapply nth_error_all_none; exact Hj. }
    clearbody e. unfold finish. cbn [fr_sok fr_sub]. intros H.
    apply andb_prop in H. destruct H as [H _]. apply andb_prop in H. destruct H as [Hpin Hft].
    apply andb_prop in Hpin. destruct Hpin as [_ Hpin].
    rewrite forallb_forall in Hft.
    cbn [tok_struct]. intros i Hi. specialize (Hft i Hi). unfold field_test in Hft.
    destruct (nth_error e i) as [[r|]|] eqn:Er; try discriminate.
    destruct (Hinv i r Er) as (fd & -> & Hty).
    destruct (fr_has r) as [[|]|] eqn:Eh; [| |discriminate].
    - destruct (fbody_of fd); auto.
    - destruct (fbody_of fd); try exact I.
      inversion Hty; subst pinit. destruct (0 <? nparams d)%nat; [discriminate|reflexivity].
  Qed.

  Lemma both_tok f : struct_tok f /\ type_tok f.
  Proof.
    induction f as [|f [IHs IHt]].
    - split; [intros d ps pinit st H|intros u ty ps pinit s rq e H]; discriminate H.
    - split; [apply struct_tok_S; exact IHt|apply type_tok_S; assumption].
  Qed.
End Tok.

(* every Ok structure view is hereditarily Ok on the members Equals() visits *)
Lemma ok_view_tok m mem f d ps pinit st :
  fr_sok (eval_struct m mem f d ps pinit st) = true ->
  tok_struct m f d (fr_sub (eval_struct m mem f d ps pinit st)).
Proof. apply (proj1 (both_tok m mem f)). Qed.

(* ---------- Equals() cannot tell similar Ok views apart ---------- *)
Lemma forallb_ext_in {A} (f g : A -> bool) l : (forall x, In x l -> f x = g x) -> forallb f l = forallb g l.
Proof.
  induction l as [|x t IH]; intros H; cbn; [reflexivity|].
  rewrite (H x (or_introl eq_refl)), IH; [reflexivity|]. intros y Hy. apply H. right; exact Hy.
Qed.

Lemma forallb2_sim {A} (P Q : A -> Prop) (R S : A -> A -> Prop) (F : A -> A -> bool) :
  (forall x x' y y', P x -> Q y -> R x x' -> S y y' -> F x y = F x' y') ->
  forall l1 l1' l2 l2', Forall P l1 -> Forall Q l2 -> list_sim R l1 l1' -> list_sim S l2 l2' ->
    forallb2 F l1 l2 = forallb2 F l1' l2'.
Proof.
  intros HF. induction l1 as [|x t IH]; intros [|x' t'] [|y u] [|y' u'] H1 H2 S1 S2;
    try contradiction; try reflexivity.
  destruct S1 as [Sx St]. destruct S2 as [Sy Su]. inversion H1; subst. inversion H2; subst.
  cbn [forallb2]. rewrite (HF x x' y y') by assumption. f_equal. apply IH; assumption.
Qed.

Lemma equals_sim m : forall g,
  (forall ty f1 f2 d1 d2 r1 r1' r2 r2',
     tok_type m f1 ty r1 -> tok_type m f2 ty r2 -> fsim d1 r1 r1' -> fsim d2 r2 r2' ->
     equals_type m g ty r1 r2 = equals_type m g ty r1' r2') /\
  (forall d f1 f2 d1 d2 e1 e1' e2 e2',
     tok_struct m f1 d e1 -> tok_struct m f2 d e2 -> env_sim d1 e1 e1' -> env_sim d2 e2 e2' ->
     equals_struct m g d e1 e2 = equals_struct m g d e1' e2').
Proof.
  induction g as [|g [IHt IHs]]; [split; reflexivity|]. split.
  - intros ty f1 f2 d1 d2 r1 r1' r2 r2' T1 T2 S1 S2.
    destruct f1 as [|f1]; [contradiction|]. destruct f2 as [|f2]; [contradiction|].
    cbn [tok_type] in T1, T2. destruct T1 as [O1 T1]. destruct T2 as [O2 T2].
    rewrite fsim_eq in S1, S2.
    destruct S1 as (_ & _ & V1 & _ & _ & _ & Z1 & U1 & L1).
    destruct S2 as (_ & _ & V2 & _ & _ & _ & Z2 & U2 & L2).
    cbn [equals_type]. destruct ty as [k kb bo|tid args ad|el es].
    + rewrite (V1 O1), (V2 O2). reflexivity.
    + destruct (nth_error m tid) as [d|]; [|reflexivity]. eapply IHs; eassumption.
    + rewrite Z1, Z2. f_equal.
      apply (forallb2_sim (tok_type m f1 el) (tok_type m f2 el) (fsim d1) (fsim d2)); try assumption.
      intros x x' y y' Px Qy Rx Sy. eapply IHt; eassumption.
  - intros d f1 f2 d1 d2 e1 e1' e2 e2' T1 T2 S1 S2.
    destruct f1 as [|f1]; [contradiction|]. destruct f2 as [|f2]; [contradiction|].
    cbn [tok_struct] in T1, T2. cbn [equals_struct]. apply forallb_ext_in. intros i Hi.
    specialize (T1 i Hi). specialize (T2 i Hi).
    destruct (nth_error (fields d) i) as [fd|]; [|contradiction].
    destruct (nth_error e1 i) as [[r1|]|] eqn:E1; try contradiction.
    destruct (nth_error e2 i) as [[r2|]|] eqn:E2; try contradiction.
    destruct (olist_sim_some _ _ _ _ _ S1 E1) as (r1' & -> & R1).
    destruct (olist_sim_some _ _ _ _ _ S2 E2) as (r2' & -> & R2).
    pose proof R1 as R1b. rewrite fsim_eq in R1b. destruct R1b as (H1 & _ & V1 & _).
    pose proof R2 as R2b. rewrite fsim_eq in R2b. destruct R2b as (H2 & _ & V2 & _).
    rewrite H1, H2.
    destruct (fr_has r1) as [[|]|]; try contradiction;
      destruct (fr_has r2) as [[|]|]; try contradiction;
      destruct (fbody_of fd) as [start size ty rq | rd rq | p aty | pi]; try reflexivity.
    + cbn [member_test]. f_equal. eapply IHt; eassumption.
    + rewrite (V1 T1), (V2 T2). reflexivity.
Qed.

(* ---------- (3) equals_local ---------- *)
(* Two Ok views of one structure type over windows w1 = (o1,l1), w2 = (o2,l2) (any parameters,
   overlapping or not): the result of Equals() — true or false — is the same in every memory that
   agrees with mem on w1 and on w2; the views stay Ok.  "Both views Ok" is the precondition of the
   generated Equals() (Read() of a view that is not Ok is a failed EMBOSS_CHECK);
   [equals_local_ok_forced] shows the model needs it. *)
Theorem equals_local m d mem mem' fuel g o1 l1 o2 l2 ps1 pinit1 ps2 pinit2 :
  (forall i, o1 <= i < o1 + l1 -> nth_byte mem i = nth_byte mem' i) ->
  (forall i, o2 <= i < o2 + l2 -> nth_byte mem i = nth_byte mem' i) ->
  let v1 := eval_struct m mem fuel d ps1 pinit1 (SB (Some (o1, l1))) in
  let v2 := eval_struct m mem fuel d ps2 pinit2 (SB (Some (o2, l2))) in
  let v1' := eval_struct m mem' fuel d ps1 pinit1 (SB (Some (o1, l1))) in
  let v2' := eval_struct m mem' fuel d ps2 pinit2 (SB (Some (o2, l2))) in
  fr_sok v1 = true -> fr_sok v2 = true ->
  fr_sok v1' = true /\ fr_sok v2' = true /\
  equals_struct m g d (fr_sub v1) (fr_sub v2) = equals_struct m g d (fr_sub v1') (fr_sub v2').
Proof.
  intros A1 A2 v1 v2 v1' v2' K1 K2.
  pose proof (eval_local m mem mem' o1 l1 A1 fuel d ps1 pinit1) as S1.
  pose proof (eval_local m mem mem' o2 l2 A2 fuel d ps2 pinit2) as S2.
  fold v1 v1' in S1. fold v2 v2' in S2.
  pose proof S1 as S1b. rewrite fsim_eq in S1b. destruct S1b as (_ & _ & _ & _ & Hk1 & _ & _ & U1 & _).
  pose proof S2 as S2b. rewrite fsim_eq in S2b. destruct S2b as (_ & _ & _ & _ & Hk2 & _ & _ & U2 & _).
  split; [congruence|]. split; [congruence|].
  eapply (proj2 (equals_sim m g)); try eassumption; apply ok_view_tok; assumption.
Qed.

(* ====================================================================== *)
(* ---------- (4) TryToCopyFrom, then Ok and Equals ---------- *)
Lemma value_eqb_refl v : value_eqb v v = true.
Proof. destruct v as [z|b|z]; cbn; [apply Z.eqb_refl|destruct b; reflexivity|apply Z.eqb_refl]. Qed.
Lemma opt_value_eqb_refl v : opt_value_eqb v v = true.
Proof. destruct v; cbn; [apply value_eqb_refl|reflexivity]. Qed.

Lemma eval_struct_st m mem f d ps pinit st : fr_st (eval_struct m mem f d ps pinit st) = st.
Proof. destruct f; reflexivity. Qed.

(* IsComplete(): the intrinsic size is known and fits the window *)
Lemma complete_size m mem f d ps pinit st :
  fr_scomplete (eval_struct m mem f d ps pinit st) = true ->
  exists z, fr_ssize (eval_struct m mem f d ps pinit st) = Some z /\ z <= storage_size st.
Proof.
  destruct f as [|f]; [discriminate|]. rewrite eval_struct_S. unfold finish. cbn [fr_scomplete fr_ssize].
  intros H. apply andb_prop in H. destruct H as [_ H].
  destruct (isize_of d _) as [z|]; [|discriminate]. exists z. split; [reflexivity|lia].
Qed.

(* prefix stability for windows of one memory (instance of Stable.both_stable with extra = []) *)
Lemma window_grow m : wf_stable m = true ->
  forall mem fuel d ps pinit o k k',
    wf_sdef m d = true -> 0 <= k <= k' -> (k = 0 \/ (0 <= o /\ o + k <= Z.of_nat (length mem))) ->
    flet m false (Some d) (eval_struct m mem fuel d ps pinit (SB (Some (o, k))))
         (eval_struct m mem fuel d ps pinit (SB (Some (o, k')))).
Proof.
  intros Hwf mem fuel d ps pinit o k k' Hd Hk Hin.
  destruct (both_stable m Hwf mem [] fuel) as [Hs _].
  pose proof (Hs d ps ps pinit pinit (SB (Some (o, k))) (SB (Some (o, k'))) false Hd) as H.
  rewrite app_nil_r in H. apply H.
  - right. exists k'. split; [reflexivity|]. split; [lia|]. cbn. split; [lia|exact Hin].
  - intros Hp. split; [exact Hp|auto].
  - reflexivity.
Qed.

(* the class without Float fields: a Float field holding a NaN does not read equal to itself, so the
   copy post-condition "the destination Equals the source" needs it ([copy_then_equals_refuted_float_nan]) *)
Fixpoint ty_float_free (ty : ftype) : bool :=
  match ty with
  | FScalar KFloat _ _ => false
  | FScalar _ _ _ | FStruct _ _ _ => true
  | FArray el _ => ty_float_free el
  end.
Definition float_free_sdef (d : sdef) : bool :=
  forallb (fun fd => match fbody_of fd with Phys _ _ ty _ => ty_float_free ty | _ => true end) d.(fields).
Definition float_free (m : module) : bool := forallb float_free_sdef m.

(* the precise DATA condition: no present Float field of the view holds a NaN pattern (recursive over
   the typed result tree, visiting exactly the members Equals() visits) *)
Definition scalar_nan_free (k : skind) (kbits : Z) (v : maybe value) : bool :=
  match k, v with
  | KFloat, Some (VInt x) => negb (float_is_nan kbits x)
  | _, _ => true
  end.

Section NanFree.
  Variable m : module.
  Fixpoint nan_free_type (fuel : nat) (ty : ftype) (r : fres) {struct fuel} : bool :=
    match fuel with
    | O => true
    | S f =>
        match ty with
        | FScalar k kbits _ => scalar_nan_free k kbits (fr_val r)
        | FStruct tid _ _ =>
            match nth_error m tid with
            | Some d => nan_free_struct f d (fr_sub r)
            | None => true
            end
        | FArray elem _ => forallb (nan_free_type f elem) (fr_elems r)
        end
    end
  with nan_free_struct (fuel : nat) (d : sdef) (e : env) {struct fuel} : bool :=
    match fuel with
    | O => true
    | S f =>
        forallb (fun i =>
                   match nth_error d.(fields) i, nth_error e i with
                   | Some fd, Some (Some r) =>
                       match fd.(fbody_of), fr_has r with
                       | Phys _ _ ty _, Some true => nan_free_type f ty r
                       | _, _ => true
                       end
                   | _, _ => true
                   end) d.(order)
    end.
End NanFree.

(* the model comparison of Float values is reflexive off NaN *)
Lemma float_eqb_refl kb x : float_is_nan kb x = false -> float_eqb kb x x = true.
Proof. intros H. unfold float_eqb. rewrite H, Z.eqb_refl. reflexivity. Qed.

Lemma scalar_equal_refl k kb v : scalar_nan_free k kb v = true -> scalar_equal k kb v v = true.
Proof.
  unfold scalar_nan_free, scalar_equal. intros H.
  destruct k; try apply opt_value_eqb_refl.
  destruct v as [[x|x|x]|]; try apply opt_value_eqb_refl.
  apply float_eqb_refl. apply negb_true_iff. exact H.
Qed.

(* a module without Float fields: every tree is NaN-free *)
Lemma float_free_nan_free m : float_free m = true -> forall f,
  (forall ty r, ty_float_free ty = true -> nan_free_type m f ty r = true) /\
  (forall d e, float_free_sdef d = true -> nan_free_struct m f d e = true).
Proof.
  intros Hnf. induction f as [|f [IHt IHs]]; [split; reflexivity|]. split.
  - intros ty r Hty. cbn [nan_free_type]. destruct ty as [k kb bo|tid args ad|el es].
    + destruct k; try reflexivity. discriminate Hty.
    + destruct (nth_error m tid) as [d|] eqn:Ed; [|reflexivity]. apply IHs.
      unfold float_free in Hnf. rewrite forallb_forall in Hnf. apply Hnf. eapply nth_error_In; exact Ed.
    + apply forallb_forall. intros x _. apply IHt. exact Hty.
  - intros d e Hd. cbn [nan_free_struct]. apply forallb_forall. intros i _.
    destruct (nth_error (fields d) i) as [fd|] eqn:Ef; [|reflexivity].
    destruct (nth_error e i) as [[r|]|]; try reflexivity.
    destruct (fbody_of fd) as [start size ty rq| | |] eqn:Eb; try reflexivity.
    destruct (fr_has r) as [[|]|]; try reflexivity.
    apply IHt. unfold float_free_sdef in Hd. rewrite forallb_forall in Hd.
    specialize (Hd fd (nth_error_In _ _ Ef)). rewrite Eb in Hd. exact Hd.
Qed.

Section EqualsTrue.
  Variable m : module.
  Hypothesis Hwf : wf_stable m = true.

  (* c is a typed Ok tree; a is above a translate of c, b is above c (typed order), and b holds no NaN
     in a present Float field (on Ok scalars a, b, c, c' carry the same value): then a.Equals(b) *)
  Lemma equals_true_of_tok : forall f,
    (forall ty c c' a b dl,
       (forall el es, ty <> FArray el es) -> nan_free_type m f ty b = true ->
       tok_type m f ty c -> fsim dl c c' ->
       flet m true (sub_of_ty m ty) c' a -> flet m true (sub_of_ty m ty) c b ->
       equals_type m f ty a b = true) /\
    (forall d ec ec' ea eb dl w1 w2,
       wf_sdef m d = true -> nan_free_struct m f d eb = true ->
       tok_struct m f d ec -> env_sim dl ec ec' ->
       env_relt m w1 (fields d) ec' ea -> env_relt m w2 (fields d) ec eb ->
       equals_struct m f d ea eb = true).
  Proof.
    induction f as [|f [IHt IHs]]; [split; intros; contradiction|]. split.
    - intros ty c c' a b dl Hna Hff T S Fa Fb.
      cbn [tok_type] in T. destruct T as [Oc T].
      pose proof S as Sb. rewrite fsim_eq in Sb. destruct Sb as (_ & Oc' & Vc' & _ & _ & _ & _ & Us & _).
      rewrite Oc in Oc'. specialize (Vc' Oc).
      destruct (flet_ok _ _ _ _ _ Fa Oc') as [_ Va]. destruct (flet_ok _ _ _ _ _ Fb Oc) as [_ Vb].
      cbn [equals_type]. cbn [nan_free_type] in Hff. destruct ty as [k kb bo|tid args ad|el es].
      + rewrite Vb in Hff. rewrite Va, Vb, Vc'. apply scalar_equal_refl. exact Hff.
      + cbn [sub_of_ty] in Fa, Fb.
        destruct (nth_error m tid) as [d|] eqn:Ed; [|contradiction].
        rewrite flet_eq in Fa, Fb.
        destruct Fa as (_ & _ & _ & _ & _ & Fa & _). destruct Fb as (_ & _ & _ & _ & _ & Fb & _).
        cbn [odfields] in Fa, Fb.
        apply (IHs d (fr_sub c) (fr_sub c') (fr_sub a) (fr_sub b) dl true true); try assumption.
        eapply wf_sdef_of; eassumption.
      + exfalso. eapply Hna; reflexivity.
    - intros d ec ec' ea eb dl w1 w2 Hd Hfd T S Fa Fb.
      cbn [tok_struct] in T. cbn [equals_struct]. apply forallb_forall. intros i Hi.
      specialize (T i Hi).
      destruct (nth_error (fields d) i) as [fd|] eqn:Ef; [|contradiction].
      destruct (nth_error ec i) as [[rc|]|] eqn:Ec; try contradiction.
      destruct (olist_sim_some _ _ _ _ _ S Ec) as (rc' & Ec' & Sc).
      destruct (tlist_le_nth _ _ _ _ _ _ _ _ Fa Ec') as (ra & -> & Fra).
      destruct (tlist_le_nth _ _ _ _ _ _ _ _ Fb Ec) as (rb & ErB & Frb). rewrite ErB.
      rewrite Ef in Fra, Frb.
      pose proof (wf_field_of m d fd Hd (nth_error_In _ _ Ef)) as Hwfd. unfold wf_field in Hwfd.
      pose proof Sc as Sb. rewrite fsim_eq in Sb. destruct Sb as (Hc' & Oc' & Vc' & _).
      destruct (fr_has rc) as [[|]|] eqn:Hh; try contradiction.
      + rewrite (krel_has_true _ _ _ _ _ Fra Hc'), (krel_has_true _ _ _ _ _ Frb Hh).
        unfold krel in Fra, Frb.
        destruct (fbody_of fd) as [start size ty rq | rd rq | p aty | pi] eqn:Eb; try reflexivity.
        * cbn [member_test Bool.eqb andb]. apply (IHt ty rc rc' ra rb dl); try assumption.
          2:{ cbn [nan_free_struct] in Hfd. rewrite forallb_forall in Hfd.
              specialize (Hfd i Hi). rewrite Ef, ErB, Eb, (flet_has _ _ _ _ _ _ Frb Hh) in Hfd. exact Hfd. }
          intros el es ->. cbn in Hwfd. discriminate.
        * cbn [member_test Bool.eqb andb]. rewrite T in Oc'. specialize (Vc' T).
          destruct (fle0_ok _ _ (ple_fle0 _ _ _ Fra) Oc') as [_ Va].
          destruct (fle0_ok _ _ (ple_fle0 _ _ _ Frb) T) as [_ Vb].
          rewrite Va, Vb, Vc'. apply opt_value_eqb_refl.
      + destruct (is_param fd) eqn:Ep.
        * exfalso. unfold is_param in Ep. destruct (fbody_of fd); try discriminate. congruence.
        * rewrite (krel_has _ _ (Some fd) _ _ Ep Fra _ Hc'), (krel_has _ _ (Some fd) _ _ Ep Frb _ Hh).
          destruct (fbody_of fd); reflexivity.
  Qed.
End EqualsTrue.

(* the copy puts the old source bytes into the destination window *)
Lemma memmove_window mem o1 o2 n :
  0 <= o1 -> 0 <= o2 -> o1 + n <= Z.of_nat (length mem) -> o2 + n <= Z.of_nat (length mem) ->
  forall i, o2 <= i < o2 + n ->
    nth_byte mem i = nth_byte (memmove mem (Z.to_nat o1) (Z.to_nat o2) (Z.to_nat n)) (i + (o1 - o2)).
Proof.
  intros H1 H2 L1 L2 i Hi. rewrite !nth_byte_nth.
  replace (Z.to_nat (i + (o1 - o2))) with (Z.to_nat o1 + Z.to_nat (i - o2))%nat by lia.
  rewrite memmove_copied by lia. f_equal. lia.
Qed.

(* the source window is unchanged when it does not overlap the copied range, or when the two
   views start at the same address *)
Lemma memmove_keeps_source mem o1 o2 l2 n :
  0 <= o1 -> 0 <= o2 -> 0 <= n -> o1 + n <= Z.of_nat (length mem) -> o2 + n <= Z.of_nat (length mem) ->
  (o1 = o2 \/ o1 + n <= o2 \/ o2 + l2 <= o1) ->
  forall i, o2 <= i < o2 + l2 ->
    nth_byte mem i = nth_byte (memmove mem (Z.to_nat o1) (Z.to_nat o2) (Z.to_nat n)) i.
Proof.
  intros H1 H2 Hn L1 L2 Hov i Hi. rewrite !nth_byte_nth.
  destruct (Z_lt_ge_dec i o1) as [Hlt|Hge]; [symmetry; apply memmove_frame; lia|].
  destruct (Z_lt_ge_dec i (o1 + n)) as [Hin|Hout]; [|symmetry; apply memmove_frame; lia].
  assert (o1 = o2) by lia. subst o2.
  replace (Z.to_nat i) with (Z.to_nat o1 + Z.to_nat (i - o1))%nat by lia.
  rewrite memmove_copied by lia. reflexivity.
Qed.

Section Copy.
  Variable m : module.
  Hypothesis Hwf : wf_stable m = true.

  (* src: the source view (window (o2,l2) of mem), Ok, intrinsic size n; the destination view has the
     window (o1,l1) with n <= l1, the same parameters.  Both windows lie inside the allocation.
     [Hself]: the source is also Ok on its own first n bytes, i.e. IntrinsicSize really covers every
     present field (the model takes the size field as given by [size_field], so this cannot be
     derived; it is vacuous when l2 = n, see [copy_then_equals_exact]).
     No overlap condition is needed for "Ok and Equals the OLD source" (memmove semantics);
     the statement about the source re-read from the new memory needs the source window to be
     unchanged: disjoint from the copied range or the same start address. *)
  Theorem copy_then_equals_nan_free d ps pinit fuel mem o1 l1 o2 l2 n :
    In d m ->
    0 <= o1 -> o1 + l1 <= Z.of_nat (length mem) ->
    0 <= o2 -> o2 + l2 <= Z.of_nat (length mem) ->
    let src := eval_struct m mem fuel d ps pinit (SB (Some (o2, l2))) in
    fr_sok src = true -> fr_ssize src = Some n -> 0 <= n -> n <= l1 ->
    fr_sok (eval_struct m mem fuel d ps pinit (SB (Some (o2, n)))) = true ->
    exists mem',
      view_try_copy mem (Some (o1, l1)) src = Some mem' /\ length mem' = length mem /\
      let dst' := eval_struct m mem' fuel d ps pinit (SB (Some (o1, l1))) in
      fr_sok dst' = true /\ fr_ssize dst' = Some n /\
      (nan_free_struct m fuel d (fr_sub src) = true -> equals_struct m fuel d (fr_sub dst') (fr_sub src) = true) /\
      (forall g, observe g (eval_struct m mem' fuel d ps pinit (SB (Some (o1, n)))) =
                 observe g (eval_struct m mem fuel d ps pinit (SB (Some (o2, n))))) /\
      ((o1 = o2 \/ o1 + n <= o2 \/ o2 + l2 <= o1) ->
       let src' := eval_struct m mem' fuel d ps pinit (SB (Some (o2, l2))) in
       fr_sok src' = true /\
       (nan_free_struct m fuel d (fr_sub src) = true -> equals_struct m fuel d (fr_sub dst') (fr_sub src') = true)).
  Proof.
    intros Hd Ho1 Hl1 Ho2 Hl2 src Hok Hsz Hn Hn1 Hself.
    assert (Hwd : wf_sdef m d = true).
    { unfold wf_stable in Hwf. rewrite forallb_forall in Hwf. apply Hwf. exact Hd. }
    (* the source is complete, so n <= l2 *)
    assert (Hn2 : n <= l2).
    { destruct (complete_size m mem fuel d ps pinit _ (structure_ok_complete _ _ _ _ _ _ _ Hok)) as (z & Ez & Hz).
      fold src in Ez. rewrite Hsz in Ez. inversion Ez; subst z. exact Hz. }
    set (mem' := memmove mem (Z.to_nat o1) (Z.to_nat o2) (Z.to_nat n)).
    assert (Hlen : length mem' = length mem) by (apply memmove_length; lia).
    exists mem'. split.
    { unfold view_try_copy. rewrite Hok, Hsz. unfold src at 1. rewrite eval_struct_st.
      unfold buffer_try_copy.
      replace ((n <=? l1) && (n <=? l2)) with true by lia. reflexivity. }
    split; [exact Hlen|].
    set (src_n := eval_struct m mem fuel d ps pinit (SB (Some (o2, n)))) in *.
    set (dst_n := eval_struct m mem' fuel d ps pinit (SB (Some (o1, n)))).
    intros dst'.
    (* the destination over its first n bytes is a translate of the source over its first n bytes *)
    assert (S : fsim (o1 - o2) src_n dst_n).
    { pose proof (eval_sim m mem mem' o2 n (o1 - o2)) as E.
      replace (o2 + (o1 - o2)) with o1 in E by lia. apply E.
      apply memmove_window; lia. }
    pose proof S as Sb. rewrite fsim_eq in Sb. destruct Sb as (_ & _ & _ & _ & Sok & _ & Ssz & Ssub & _).
    (* window growth *)
    assert (G1 : flet m false (Some d) src_n src) by (apply (window_grow m Hwf); [exact Hwd|lia|right; lia]).
    assert (G2 : flet m false (Some d) dst_n dst') by (apply (window_grow m Hwf); [exact Hwd|lia|right; lia]).
    assert (Hszn : fr_ssize src_n = Some n).
    { destruct (complete_size m mem fuel d ps pinit _ (structure_ok_complete _ _ _ _ _ _ _ Hself)) as (z & Ez & _).
      fold src_n in Ez. pose proof (flet_ssize _ _ _ _ _ _ G1 Ez) as E2. rewrite Hsz in E2. congruence. }
    assert (Hokd : fr_sok dst' = true).
    { rewrite flet_eq in G2. destruct G2 as (_ & _ & G2 & _). apply G2. rewrite Sok. exact Hself. }
    assert (Heq : nan_free_struct m fuel d (fr_sub src) = true ->
                  equals_struct m fuel d (fr_sub dst') (fr_sub src) = true).
    { intros Hnf.
      apply (proj2 (equals_true_of_tok m Hwf fuel) d (fr_sub src_n) (fr_sub dst_n) (fr_sub dst') (fr_sub src) (o1 - o2) false false).
      - exact Hwd.
      - exact Hnf.
      - apply ok_view_tok. exact Hself.
      - exact Ssub.
      - rewrite flet_eq in G2. apply G2.
      - rewrite flet_eq in G1. apply G1. }
    split; [exact Hokd|].
    split; [apply (flet_ssize _ _ _ _ _ _ G2); rewrite Ssz; exact Hszn|].
    split; [exact Heq|].
    split; [intros g; symmetry; apply (fsim_observe _ g _ _ S)|].
    intros Hov src'.
    assert (A : forall i, o2 <= i < o2 + l2 -> nth_byte mem i = nth_byte mem' i)
      by (apply memmove_keeps_source; try lia; exact Hov).
    pose proof (eval_local m mem mem' o2 l2 A fuel d ps pinit) as S2. fold src src' in S2.
    pose proof (eval_local m mem' mem' o1 l1 (fun i _ => eq_refl) fuel d ps pinit) as S1. fold dst' in S1.
    pose proof S2 as S2b. rewrite fsim_eq in S2b. destruct S2b as (_ & _ & _ & _ & Sok2 & _ & _ & Ssub2 & _).
    pose proof S1 as S1b. rewrite fsim_eq in S1b. destruct S1b as (_ & _ & _ & _ & _ & _ & _ & Ssub1 & _).
    split; [rewrite Sok2; exact Hok|].
    intros Hnf. rewrite <- (Heq Hnf). symmetry.
    eapply (proj2 (equals_sim m fuel)); try eassumption; apply ok_view_tok; assumption.
  Qed.


  (* the class form: a module without Float fields (every tree is NaN-free) *)
  Theorem copy_then_equals d ps pinit fuel mem o1 l1 o2 l2 n :
    In d m ->
    0 <= o1 -> o1 + l1 <= Z.of_nat (length mem) ->
    0 <= o2 -> o2 + l2 <= Z.of_nat (length mem) ->
    let src := eval_struct m mem fuel d ps pinit (SB (Some (o2, l2))) in
    fr_sok src = true -> fr_ssize src = Some n -> 0 <= n -> n <= l1 ->
    fr_sok (eval_struct m mem fuel d ps pinit (SB (Some (o2, n)))) = true ->
    exists mem',
      view_try_copy mem (Some (o1, l1)) src = Some mem' /\ length mem' = length mem /\
      let dst' := eval_struct m mem' fuel d ps pinit (SB (Some (o1, l1))) in
      fr_sok dst' = true /\ fr_ssize dst' = Some n /\
      (float_free m = true -> equals_struct m fuel d (fr_sub dst') (fr_sub src) = true) /\
      (forall g, observe g (eval_struct m mem' fuel d ps pinit (SB (Some (o1, n)))) =
                 observe g (eval_struct m mem fuel d ps pinit (SB (Some (o2, n))))) /\
      ((o1 = o2 \/ o1 + n <= o2 \/ o2 + l2 <= o1) ->
       let src' := eval_struct m mem' fuel d ps pinit (SB (Some (o2, l2))) in
       fr_sok src' = true /\ (float_free m = true -> equals_struct m fuel d (fr_sub dst') (fr_sub src') = true)).
  Proof.
    intros Hd Ho1 Hl1 Ho2 Hl2 src Hok Hsz Hn Hn1 Hself.
    destruct (copy_then_equals_nan_free d ps pinit fuel mem o1 l1 o2 l2 n Hd Ho1 Hl1 Ho2 Hl2 Hok Hsz Hn Hn1 Hself)
      as (mem' & H1 & H2 & H3 & H4 & H5 & H6 & H7).
    assert (Hnan : float_free m = true -> nan_free_struct m fuel d (fr_sub src) = true).
    { intros Hnf. apply (proj2 (float_free_nan_free m Hnf fuel)).
      unfold float_free in Hnf. rewrite forallb_forall in Hnf. apply Hnf. exact Hd. }
    exists mem'. split; [exact H1|]. split; [exact H2|]. intros dst'.
    split; [exact H3|]. split; [exact H4|].
    split; [intros Hnf; apply H5; apply Hnan; exact Hnf|].
    split; [exact H6|].
    intros Hov src'. destruct (H7 Hov) as [H8 H9].
    split; [exact H8|]. intros Hnf. apply H9. apply Hnan. exact Hnf.
  Qed.

  (* the common case: the source view was made over exactly its own size *)
  Corollary copy_then_equals_exact d ps pinit fuel mem o1 l1 o2 n :
    In d m ->
    0 <= o1 -> o1 + l1 <= Z.of_nat (length mem) ->
    0 <= o2 -> o2 + n <= Z.of_nat (length mem) ->
    let src := eval_struct m mem fuel d ps pinit (SB (Some (o2, n))) in
    fr_sok src = true -> fr_ssize src = Some n -> 0 <= n -> n <= l1 ->
    exists mem',
      view_try_copy mem (Some (o1, l1)) src = Some mem' /\ length mem' = length mem /\
      let dst' := eval_struct m mem' fuel d ps pinit (SB (Some (o1, l1))) in
      fr_sok dst' = true /\ fr_ssize dst' = Some n /\
      (float_free m = true -> equals_struct m fuel d (fr_sub dst') (fr_sub src) = true) /\
      ((o1 = o2 \/ o1 + n <= o2 \/ o2 + n <= o1) ->
       let src' := eval_struct m mem' fuel d ps pinit (SB (Some (o2, n))) in
       fr_sok src' = true /\ (float_free m = true -> equals_struct m fuel d (fr_sub dst') (fr_sub src') = true)).
  Proof.
    intros Hd Ho1 Hl1 Ho2 Hl2 src Hok Hsz Hn Hn1.
    destruct (copy_then_equals d ps pinit fuel mem o1 l1 o2 n n Hd Ho1 Hl1 Ho2 Hl2 Hok Hsz Hn Hn1 Hok)
      as (mem' & H1 & H2 & H3 & H4 & H5 & _ & H7).
    exists mem'. repeat (split; [assumption|]). exact H7.
  Qed.
End Copy.

(* ====================================================================== *)
(* ---------- eval_local as an EQUALITY of trees ---------- *)
(* [scrub] blanks the val of every node that is not Ok (nothing else). *)
Fixpoint scrub (r : fres) : fres :=
  match r with
  | FR h o v st sub sok sc ss els =>
      FR h o (if o then v else None) st
         (map (fun x => match x with Some a => Some (scrub a) | None => None end) sub)
         sok sc ss (map scrub els)
  end.

Lemma fsim0_scrub : forall r r', fsim 0 r r' -> scrub r = scrub r'.
Proof.
  fix IH 1. intros [h o v st sub sok sc ss els] [h' o' v' st' sub' sok' sc' ss' els'] H.
  cbn [fsim fr_has fr_ok fr_val fr_st fr_sub fr_sok fr_scomplete fr_ssize fr_elems] in H.
  destruct H as (-> & -> & Hv & -> & -> & -> & -> & Hsub & Hels).
  cbn [scrub]. rewrite shift_0. f_equal.
  - destruct o; [rewrite (Hv eq_refl)|]; reflexivity.
  - revert sub' Hsub. induction sub as [|x t IHl]; intros [|x' t'] Hs; try contradiction; [reflexivity|].
    destruct Hs as [Hx Ht]. cbn [map]. f_equal; [|apply IHl; exact Ht].
    destruct x as [a|], x' as [a'|]; try contradiction; [f_equal; apply IH; exact Hx|reflexivity].
  - revert els' Hels. induction els as [|x t IHl]; intros [|x' t'] Hs; try contradiction; [reflexivity|].
    destruct Hs as [Hx Ht]. cbn [map]. f_equal; [apply IH; exact Hx|apply IHl; exact Ht].
Qed.

Theorem eval_local_scrub m mem1 mem2 o l :
  (forall i, o <= i < o + l -> nth_byte mem1 i = nth_byte mem2 i) ->
  forall fuel d ps pinit,
    scrub (eval_struct m mem1 fuel d ps pinit (SB (Some (o, l)))) =
    scrub (eval_struct m mem2 fuel d ps pinit (SB (Some (o, l)))).
Proof. intros H fuel d ps pinit. apply fsim0_scrub. apply eval_local. exact H. Qed.

(* ====================================================================== *)
(* ---------- hypotheses that the model forces ---------- *)
(* struct T:  0 [+2] UInt x *)
Definition m_two : module :=
  [mk_sdef 8 0%nat
     [mk_field ktrue (Phys (kz 0) (kz 2) (FScalar KU 16 LE) None);
      size_virt [(ktrue, kz 0, kz 2)]]
     [0; 1]%nat 1%nat None].
Definition d_two : sdef := nth 0 m_two (mk_sdef 8 0 [] [] 0 None).

(* The result trees are NOT literally equal: on a 1-byte window the 2-byte field is not Ok, but the
   model still records UncheckedRead() of its (too short) BitBlock, which reads the byte after the
   window.  That value is invisible: [observe] and [meval] use val only when ok. *)
Theorem eval_local_tree_refuted :
  exists m d mem1 mem2 o l fuel,
    (forall i, o <= i < o + l -> nth_byte mem1 i = nth_byte mem2 i) /\
    eval_struct m mem1 fuel d [] true (SB (Some (o, l))) <>
    eval_struct m mem2 fuel d [] true (SB (Some (o, l))).
Proof.
  exists m_two, d_two, [1; 2], [1; 3], 0, 1, 4%nat. split.
  - intros i Hi. assert (i = 0) by lia. subst i. reflexivity.
  - intros H. vm_compute in H. discriminate H.
Qed.

(* Equals() on views that are not Ok reads outside the windows (in C++: Read() on a view that is
   not Ok, a failed EMBOSS_CHECK) — so "both Ok" cannot be dropped from [equals_local]. *)
Theorem equals_local_ok_forced :
  exists m d mem mem' o1 l1 o2 l2 fuel,
    (forall i, o1 <= i < o1 + l1 -> nth_byte mem i = nth_byte mem' i) /\
    (forall i, o2 <= i < o2 + l2 -> nth_byte mem i = nth_byte mem' i) /\
    let v1 := eval_struct m mem fuel d [] true (SB (Some (o1, l1))) in
    let v2 := eval_struct m mem fuel d [] true (SB (Some (o2, l2))) in
    let v1' := eval_struct m mem' fuel d [] true (SB (Some (o1, l1))) in
    let v2' := eval_struct m mem' fuel d [] true (SB (Some (o2, l2))) in
    fr_sok v1 = false /\ fr_sok v2 = false /\
    equals_struct m fuel d (fr_sub v1) (fr_sub v2) = true /\
    equals_struct m fuel d (fr_sub v1') (fr_sub v2') = false.
Proof.
  exists m_two, d_two, [1; 2; 1; 2], [1; 9; 1; 2], 0, 1, 2, 1, 4%nat.
  split; [intros i Hi; assert (i = 0) by lia; subst i; reflexivity|].
  split; [intros i Hi; assert (i = 2) by lia; subst i; reflexivity|].
  vm_compute. repeat split; reflexivity.
Qed.

(* Overlapping windows: the destination is Ok and Equals the OLD source (as [copy_then_equals]
   says), but the source view re-read from the new memory has changed. *)
Theorem copy_overlap_refuted :
  exists m d mem o1 l1 o2 l2 n fuel mem',
    wf_stable m = true /\ In d m /\
    0 <= o1 /\ o1 + l1 <= Z.of_nat (length mem) /\ 0 <= o2 /\ o2 + l2 <= Z.of_nat (length mem) /\
    let src := eval_struct m mem fuel d [] true (SB (Some (o2, l2))) in
    fr_sok src = true /\ fr_ssize src = Some n /\ n = l2 /\ n <= l1 /\
    ~ (o1 = o2 \/ o1 + n <= o2 \/ o2 + l2 <= o1) /\
    view_try_copy mem (Some (o1, l1)) src = Some mem' /\
    let dst' := eval_struct m mem' fuel d [] true (SB (Some (o1, l1))) in
    let src' := eval_struct m mem' fuel d [] true (SB (Some (o2, l2))) in
    fr_sok dst' = true /\ fr_sok src' = true /\
    equals_struct m fuel d (fr_sub dst') (fr_sub src) = true /\
    equals_struct m fuel d (fr_sub dst') (fr_sub src') = false.
Proof.
  exists m_two, d_two, [1; 2; 3], 1, 2, 0, 2, 2, 4%nat, [1; 1; 2].
  split; [reflexivity|]. split; [left; reflexivity|].
  cbn [length]. repeat (split; [lia|]).
  cbv zeta. split; [reflexivity|]. split; [reflexivity|]. split; [reflexivity|]. split; [lia|].
  split; [lia|]. vm_compute. repeat split; reflexivity.
Qed.

(* struct U:  0 [+1] UInt a ;  1 [+1] UInt b ; with a size field that under-reports (1 instead of 2).
   The model takes [size_field] as given, so [Hself] of [copy_then_equals] cannot be derived:
   TryToCopyFrom succeeds and the destination is not Ok.  (The compiler's synthesized
   $size_in_bytes is the maximum end of the present fields; it never under-reports.) *)
Definition m_short : module :=
  [mk_sdef 8 0%nat
     [mk_field ktrue (Phys (kz 0) (kz 1) (FScalar KU 8 LE) None);
      mk_field ktrue (Phys (kz 1) (kz 1) (FScalar KU 8 LE) None);
      mk_field ktrue (Virt (kz 1) None)]
     [0; 1; 2]%nat 2%nat None].
Definition d_short : sdef := nth 0 m_short (mk_sdef 8 0 [] [] 0 None).

Theorem copy_self_contained_forced :
  exists m d mem o1 l1 o2 l2 n fuel mem',
    wf_stable m = true /\ In d m /\
    0 <= o1 /\ o1 + l1 <= Z.of_nat (length mem) /\ 0 <= o2 /\ o2 + l2 <= Z.of_nat (length mem) /\
    let src := eval_struct m mem fuel d [] true (SB (Some (o2, l2))) in
    fr_sok src = true /\ fr_ssize src = Some n /\ 0 <= n /\ n <= l1 /\ o2 + l2 <= o1 /\
    fr_sok (eval_struct m mem fuel d [] true (SB (Some (o2, n)))) = false /\
    view_try_copy mem (Some (o1, l1)) src = Some mem' /\
    fr_sok (eval_struct m mem' fuel d [] true (SB (Some (o1, l1)))) = false.
Proof.
  exists m_short, d_short, [5; 6; 0; 0], 2, 1, 0, 2, 1, 4%nat, [5; 6; 5; 0].
  split; [reflexivity|]. split; [left; reflexivity|].
  cbn [length]. repeat (split; [lia|]).
  cbv zeta. split; [reflexivity|]. split; [reflexivity|]. repeat (split; [lia|]).
  vm_compute. repeat split; reflexivity.
Qed.

(* ====================================================================== *)
(* ---------- (5) non-vacuity on Stable.m_ex ---------- *)
(* struct Outer (Stable.m_ex):  0 [+1] tag ; if tag == 1: 1 [+2] x (BE) ; tag+3 [+1] Int y [< 100] ;
   4 [+2] Inner{a,b} ; 6 [+1] bits{lo,hi} ; let v = tag+1 ; alias lo.   IntrinsicSize = 7.
   With tag = 0 the bytes 1 and 2 are covered by no field (padding). *)
Definition pad_mem : list Z := [0; 9; 9; 5; 1; 2; 165] ++ [0; 7; 7; 5; 1; 2; 165].

(* Equals ignores padding: both views Ok, bytes 1..2 differ (9 9 / 7 7), Equals is true;
   changing a covered byte (y: 5 -> 6) makes it false. *)
Example equals_ignores_padding :
  let v1 := eval_struct m_ex pad_mem 8 d_ex [] true (SB (Some (0, 7))) in
  let v2 := eval_struct m_ex pad_mem 8 d_ex [] true (SB (Some (7, 7))) in
  let w2 := eval_struct m_ex ([0; 9; 9; 5; 1; 2; 165] ++ [0; 7; 7; 6; 1; 2; 165]) 8 d_ex [] true (SB (Some (7, 7))) in
  fr_sok v1 = true /\ fr_sok v2 = true /\ fr_sok w2 = true /\
  nth_byte pad_mem 1 <> nth_byte pad_mem 8 /\
  equals_struct m_ex 8 d_ex (fr_sub v1) (fr_sub v2) = true /\
  equals_struct m_ex 8 d_ex (fr_sub v1) (fr_sub w2) = false.
Proof. vm_compute. repeat split; try reflexivity. discriminate. Qed.

(* eval_local, instantiated: a 5-byte window (the view is incomplete: y, inner, bits partly outside);
   the memories differ before and after the window; same observations, and they are not trivial *)
Example eval_local_instance :
  let mem1 := [77; 1; 2; 3; 4; 5; 88; 99] in
  let mem2 := [11; 1; 2; 3; 4; 5; 22; 33; 44] in
  observe 8 (eval_struct m_ex mem1 8 d_ex [] true (SB (Some (1, 5)))) =
  observe 8 (eval_struct m_ex mem2 8 d_ex [] true (SB (Some (1, 5)))) /\
  lt 23%nat (length (observe 8 (eval_struct m_ex mem1 8 d_ex [] true (SB (Some (1, 5)))))) /\
  scrub (eval_struct m_ex mem1 8 d_ex [] true (SB (Some (1, 5)))) =
  scrub (eval_struct m_ex mem2 8 d_ex [] true (SB (Some (1, 5)))).
Proof.
  assert (A : forall i, 1 <= i < 1 + 5 ->
                nth_byte [77; 1; 2; 3; 4; 5; 88; 99] i = nth_byte [11; 1; 2; 3; 4; 5; 22; 33; 44] i).
  { intros i Hi.
    assert (i = 1 \/ i = 2 \/ i = 3 \/ i = 4 \/ i = 5) as [->|[->|[->|[->| ->]]]] by lia; reflexivity. }
  cbv zeta. split; [apply eval_local_observe; exact A|].
  split; [vm_compute; lia|apply eval_local_scrub; exact A].
Qed.

(* eval_shift, instantiated *)
Example eval_shift_instance :
  observe 8 (eval_struct m_ex pad_mem 8 d_ex [] true (SB (Some (7, 7)))) =
  observe 8 (eval_struct m_ex [0; 7; 7; 5; 1; 2; 165] 8 d_ex [] true (SB (Some (0, 7)))).
Proof. apply (eval_shift_observe m_ex pad_mem 7 7). lia. Qed.

(* equals_local, instantiated: only padding and bytes outside the two windows change *)
Example equals_local_instance :
  let mem  := [0; 9; 9; 5; 1; 2; 165; 50; 0; 7; 7; 5; 1; 2; 165; 51] in
  let mem' := [0; 9; 9; 5; 1; 2; 165; 60; 0; 7; 7; 5; 1; 2; 165; 61; 62] in
  equals_struct m_ex 8 d_ex (fr_sub (eval_struct m_ex mem 8 d_ex [] true (SB (Some (0, 7)))))
                            (fr_sub (eval_struct m_ex mem 8 d_ex [] true (SB (Some (8, 7))))) =
  equals_struct m_ex 8 d_ex (fr_sub (eval_struct m_ex mem' 8 d_ex [] true (SB (Some (0, 7)))))
                            (fr_sub (eval_struct m_ex mem' 8 d_ex [] true (SB (Some (8, 7))))).
Proof.
  cbv zeta. apply equals_local.
  - intros i Hi.
    assert (i = 0 \/ i = 1 \/ i = 2 \/ i = 3 \/ i = 4 \/ i = 5 \/ i = 6)
      as [->|[->|[->|[->|[->|[->| ->]]]]]] by lia; reflexivity.
  - intros i Hi.
    assert (i = 8 \/ i = 9 \/ i = 10 \/ i = 11 \/ i = 12 \/ i = 13 \/ i = 14)
      as [->|[->|[->|[->|[->|[->| ->]]]]]] by lia; reflexivity.
  - reflexivity.
  - reflexivity.
Qed.

(* copy_then_equals, instantiated: source with the conditional field present (tag = 1, x = 0x0203)
   in a 9-byte window, destination window of 8 bytes, disjoint; the hypotheses hold, and the
   conclusion computed directly agrees *)
Definition copy_mem : list Z := [1; 2; 3; 50; 40; 41; 165; 70; 71] ++ [0; 0; 0; 0; 0; 0; 0; 0].

Example copy_then_equals_instance :
  exists mem',
    view_try_copy copy_mem (Some (9, 8)) (eval_struct m_ex copy_mem 8 d_ex [] true (SB (Some (0, 9)))) = Some mem' /\
    length mem' = length copy_mem /\
    let dst' := eval_struct m_ex mem' 8 d_ex [] true (SB (Some (9, 8))) in
    fr_sok dst' = true /\ fr_ssize dst' = Some 7 /\
    equals_struct m_ex 8 d_ex (fr_sub dst')
      (fr_sub (eval_struct m_ex copy_mem 8 d_ex [] true (SB (Some (0, 9))))) = true.
Proof.
  destruct (copy_then_equals m_ex wf_stable_example d_ex [] true 8 copy_mem 9 8 0 9 7)
    as (mem' & H1 & H2 & H3 & H4 & H5 & _); try (unfold copy_mem; cbn [length app]; lia); try reflexivity.
  - left. reflexivity.
  - exists mem'. repeat (split; [assumption|]). apply H5. reflexivity.
Qed.

Example copy_then_equals_nonvacuous :
  let src := eval_struct m_ex copy_mem 8 d_ex [] true (SB (Some (0, 9))) in
  let mem' := [1; 2; 3; 50; 40; 41; 165; 70; 71] ++ [1; 2; 3; 50; 40; 41; 165; 0] in
  fr_sok src = true /\ fr_ssize src = Some 7 /\
  view_try_copy copy_mem (Some (9, 8)) src = Some mem' /\
  (* before the copy the (all-zero, Ok) destination does not equal the source *)
  equals_struct m_ex 8 d_ex (fr_sub (eval_struct m_ex copy_mem 8 d_ex [] true (SB (Some (9, 8))))) (fr_sub src) = false /\
  equals_struct m_ex 8 d_ex (fr_sub (eval_struct m_ex mem' 8 d_ex [] true (SB (Some (9, 8))))) (fr_sub src) = true /\
  fr_sok (eval_struct m_ex mem' 8 d_ex [] true (SB (Some (9, 8)))) = true /\
  (exists x, nth_error (fr_sub (eval_struct m_ex mem' 8 d_ex [] true (SB (Some (9, 8))))) 1 = Some (Some x) /\
             fr_has x = Some true /\ fr_ok x = true /\ fr_val x = Some (VInt 515)).
Proof. vm_compute. repeat split; try reflexivity. eexists. repeat split; reflexivity. Qed.

(* the class contains parameterised nested structures: Outer { n; Par(n) p; tail } of Stable.m_par,
   source window (0,3) = [1; 7; 5] (p located with k = 1, a = 7, s = 8, tail = 5), destination (3,4) *)
Definition copy_mem_par : list Z := [1; 7; 5] ++ [0; 0; 0; 0].
Example copy_then_equals_param_instance :
  exists mem',
    view_try_copy copy_mem_par (Some (3, 4)) (eval_struct m_par copy_mem_par 8 d_par [] true (SB (Some (0, 3)))) = Some mem' /\
    length mem' = length copy_mem_par /\
    let dst' := eval_struct m_par mem' 8 d_par [] true (SB (Some (3, 4))) in
    fr_sok dst' = true /\ fr_ssize dst' = Some 3 /\
    equals_struct m_par 8 d_par (fr_sub dst')
      (fr_sub (eval_struct m_par copy_mem_par 8 d_par [] true (SB (Some (0, 3))))) = true.
Proof.
  destruct (copy_then_equals m_par wf_stable_example_param d_par [] true 8 copy_mem_par 3 4 0 3 3)
    as (mem' & H1 & H2 & H3 & H4 & H5 & _); try (unfold copy_mem_par; cbn [length app]; lia); try reflexivity.
  - left. reflexivity.
  - exists mem'. repeat (split; [assumption|]). apply H5. reflexivity.
Qed.

Example copy_then_equals_param_nonvacuous :
  let src := eval_struct m_par copy_mem_par 8 d_par [] true (SB (Some (0, 3))) in
  let mem' := [1; 7; 5] ++ [1; 7; 5; 0] in
  fr_sok src = true /\ fr_ssize src = Some 3 /\
  view_try_copy copy_mem_par (Some (3, 4)) src = Some mem' /\
  equals_struct m_par 8 d_par (fr_sub (eval_struct m_par copy_mem_par 8 d_par [] true (SB (Some (3, 4))))) (fr_sub src) = false /\
  equals_struct m_par 8 d_par (fr_sub (eval_struct m_par mem' 8 d_par [] true (SB (Some (3, 4))))) (fr_sub src) = true /\
  fr_sok (eval_struct m_par mem' 8 d_par [] true (SB (Some (3, 4)))) = true.
Proof. vm_compute. repeat split; reflexivity. Qed.

(* ---------- closedness ---------- *)
Print Assumptions eval_sim.
Print Assumptions eval_local.
Print Assumptions eval_local_scrub.
Print Assumptions eval_local_observe.
Print Assumptions eval_shift.
Print Assumptions equals_local.
Print Assumptions copy_then_equals_nan_free.
Print Assumptions copy_then_equals.
Print Assumptions copy_then_equals_exact.
Print Assumptions eval_local_tree_refuted.
Print Assumptions equals_local_ok_forced.
Print Assumptions copy_overlap_refuted.
Print Assumptions copy_self_contained_forced.

(* ====================================================================== *)
(* ---------- (6) Float fields: Equals is operator== of the values, so a NaN breaks "copy, then Equals" ---------- *)
(* struct F:  0 [+4] Float x  (little endian).  The module is in the class wf_stable; the source holds
   the quiet NaN 0x7fc00000.  TryToCopyFrom succeeds, the destination is Ok, has the source's size and
   the source's bytes, yet destination.Equals(source) is false (and source.Equals(source) is false):
   the clause "after a successful copy the destination Equals the source" of C20 does not hold for
   structures with Float fields.  [copy_then_equals] therefore carries the hypothesis float_free m;
   [copy_then_equals_nan_free] replaces that class hypothesis by the precise data hypothesis
   [nan_free_struct] on the source view (no present Float field holds a NaN pattern), and
   [copy_then_equals_float_instance] below applies it to this module with the pattern of 1.0f. *)
Definition m_float : module :=
  [mk_sdef 8 0%nat
     [mk_field ktrue (Phys (kz 0) (kz 4) (FScalar KFloat 32 LE) None);
      size_virt [(ktrue, kz 0, kz 4)]]
     [0; 1]%nat 1%nat None].
Definition d_float : sdef := nth 0 m_float (mk_sdef 8 0 [] [] 0 None).

Theorem copy_then_equals_refuted_float_nan :
  exists m d mem o1 l1 o2 l2 n fuel mem',
    wf_stable m = true /\ float_free m = false /\ In d m /\
    0 <= o1 /\ o1 + l1 <= Z.of_nat (length mem) /\ 0 <= o2 /\ o2 + l2 <= Z.of_nat (length mem) /\
    let src := eval_struct m mem fuel d [] true (SB (Some (o2, l2))) in
    fr_sok src = true /\ fr_ssize src = Some n /\ n = l2 /\ n <= l1 /\ o2 + l2 <= o1 /\
    view_try_copy mem (Some (o1, l1)) src = Some mem' /\
    let dst' := eval_struct m mem' fuel d [] true (SB (Some (o1, l1))) in
    fr_sok dst' = true /\ fr_ssize dst' = Some n /\
    firstn (Z.to_nat n) (skipn (Z.to_nat o1) mem') = firstn (Z.to_nat n) (skipn (Z.to_nat o2) mem) /\
    equals_struct m fuel d (fr_sub dst') (fr_sub src) = false /\
    equals_struct m fuel d (fr_sub src) (fr_sub src) = false.
Proof.
  exists m_float, d_float, [0; 0; 192; 127; 9; 9; 9; 9], 4, 4, 0, 4, 4, 4%nat, [0; 0; 192; 127; 0; 0; 192; 127].
  split; [reflexivity|]. split; [reflexivity|]. split; [left; reflexivity|].
  cbn [length]. repeat (split; [lia|]).
  cbv zeta. split; [reflexivity|]. split; [reflexivity|]. repeat (split; [lia|]).
  vm_compute. repeat split; reflexivity.
Qed.

(* the same module, the same windows, the source holds 1.0f = 0x3f800000: the source is NaN-free, so
   [copy_then_equals_nan_free] applies although float_free m_float = false: the copy is Equal *)
Definition copy_mem_float : list Z := [0; 0; 128; 63; 9; 9; 9; 9].
Example copy_then_equals_float_instance :
  float_free m_float = false /\
  nan_free_struct m_float 4 d_float
    (fr_sub (eval_struct m_float copy_mem_float 4 d_float [] true (SB (Some (0, 4))))) = true /\
  exists mem',
    view_try_copy copy_mem_float (Some (4, 4))
      (eval_struct m_float copy_mem_float 4 d_float [] true (SB (Some (0, 4)))) = Some mem' /\
    length mem' = length copy_mem_float /\
    let dst' := eval_struct m_float mem' 4 d_float [] true (SB (Some (4, 4))) in
    fr_sok dst' = true /\ fr_ssize dst' = Some 4 /\
    equals_struct m_float 4 d_float (fr_sub dst')
      (fr_sub (eval_struct m_float copy_mem_float 4 d_float [] true (SB (Some (0, 4))))) = true.
Proof.
  split; [reflexivity|]. split; [vm_compute; reflexivity|].
  destruct (copy_then_equals_nan_free m_float eq_refl d_float [] true 4 copy_mem_float 4 4 0 4 4)
    as (mem' & H1 & H2 & H3 & H4 & H5 & _); try (unfold copy_mem_float; cbn [length]; lia); try reflexivity.
  - left. reflexivity.
  - exists mem'. repeat (split; [assumption|]). apply H5. vm_compute. reflexivity.
Qed.

Example copy_then_equals_float_nonvacuous :
  let src := eval_struct m_float copy_mem_float 4 d_float [] true (SB (Some (0, 4))) in
  let mem' := [0; 0; 128; 63; 0; 0; 128; 63] in
  fr_sok src = true /\ fr_ssize src = Some 4 /\
  (exists x, nth_error (fr_sub src) 0 = Some (Some x) /\ fr_ok x = true /\ fr_val x = Some (VInt 1065353216)) /\
  view_try_copy copy_mem_float (Some (4, 4)) src = Some mem' /\
  (* before the copy the destination (0x09090909) does not equal the source *)
  equals_struct m_float 4 d_float (fr_sub (eval_struct m_float copy_mem_float 4 d_float [] true (SB (Some (4, 4))))) (fr_sub src) = false /\
  equals_struct m_float 4 d_float (fr_sub (eval_struct m_float mem' 4 d_float [] true (SB (Some (4, 4))))) (fr_sub src) = true /\
  (* the NaN source of [copy_then_equals_refuted_float_nan] is rejected by the predicate *)
  nan_free_struct m_float 4 d_float
    (fr_sub (eval_struct m_float [0; 0; 192; 127; 9; 9; 9; 9] 4 d_float [] true (SB (Some (0, 4))))) = false.
Proof.
  vm_compute. split; [reflexivity|]. split; [reflexivity|].
  split; [eexists; repeat split; reflexivity|]. repeat split; reflexivity.
Qed.

(* +0.0 and -0.0 read equal: two views whose Float bytes differ in the sign bit only are Equal *)
Example float_zero_signs_equal :
  let mem := [0; 0; 0; 0; 0; 0; 0; 128] in
  equals_struct m_float 4 d_float
    (fr_sub (eval_struct m_float mem 4 d_float [] true (SB (Some (0, 4)))))
    (fr_sub (eval_struct m_float mem 4 d_float [] true (SB (Some (4, 4))))) = true.
Proof. vm_compute. reflexivity. Qed.
